"""One-off demonstrations (against the real code, run from the repository root) of F-C18-2 and F-C18-3, the two DataSet aliasing
defects found through round-2 seeding agents' clean-tree observations.  They fail on the pinned commit and pass after the fix:
commits aee2d1b and 3411df7.  Not part of the deciding machinery (that is C18.D7, static)."""
import os, sys; sys.path.insert(0, os.getcwd())
import numpy as np
from sparseSpACE.DEMachineLearning import DataSet

rng = np.random.RandomState(0)
X = rng.rand(10, 2) * 5 - 2
y = np.arange(10) % 3


def pairs(ds):
    return sorted((tuple(np.round(s, 12)), int(l)) for s, l in zip(ds._data[0], ds._data[1]))


bad = 0
ds = DataSet((X.copy(), y.copy())); before = pairs(ds)
p0, p1 = ds.split_pieces(0.5); p1.move_boundaries_to_front()
if pairs(ds) != before:
    bad += 1; print("F-C18-2: split_pieces(); piece.move_boundaries_to_front() changed the (sample, label) pairs of the parent")
ds = DataSet((X.copy(), y.copy())); before = pairs(ds)
c = ds.copy(); c.shift_value(0.5); c.move_boundaries_to_front()
if pairs(ds) != before:
    bad += 1; print("F-C18-2: copy(); copy.shift_value(); copy.move_boundaries_to_front() changed the pairs of the original")
ds = DataSet((X.copy(), y.copy())); ds.scale_range((0, 1)); p0, p1 = ds.split_pieces(0.5); p0.scale_factor(2.0); ds.revert_scaling()
if not np.allclose(ds._data[0], X):
    bad += 1; print("F-C18-3: scale_range(); split_pieces(); piece.scale_factor(2); revert_scaling() does not restore the samples: max dev %.3f" % np.abs(ds._data[0] - X).max())
print("FAIL" if bad else "PASS")
sys.exit(1 if bad else 0)
