import os, sys; sys.path.insert(0, os.getcwd())
# Property C17 (clause 1): re-using right-hand sides from earlier refinement steps changes nothing.
#
# Scenario: dimension-wise adaptive density estimation on a 2-D data set whose two coordinates are
# distributed differently (two moons).  The refinement is driven far enough that component grids cross
# the internal 200-point threshold, i.e. the run with reuse_old_values=True really copies / recomputes
# right-hand-side entries through the old-B matching and the per-dimension data bins.  The same run is
# repeated with reuse_old_values=False; after every evaluation the surpluses of all component grids and,
# at the end, the combined density at test points must agree up to rounding.
for _v in ("OMP_NUM_THREADS", "OPENBLAS_NUM_THREADS", "MKL_NUM_THREADS"):
    os.environ.setdefault(_v, "1")
os.environ.setdefault("MPLBACKEND", "Agg")
import io, contextlib
import numpy as np
from sklearn import datasets
from sparseSpACE.Grid import GlobalTrapezoidalGrid
from sparseSpACE.GridOperation import DensityEstimation
from sparseSpACE.ErrorCalculator import ErrorCalculatorSingleDimVolumeGuided
from sparseSpACE.spatiallyAdaptiveSingleDimension2 import SpatiallyAdaptiveSingleDimensions2
from sparseSpACE.Utils import log_levels, print_levels

TOL = 1e-7


class RecordingDE(DensityEstimation):
    """DensityEstimation that remembers the surpluses after each evaluation (observation only)."""

    def post_processing(self):
        if not hasattr(self, "history"):
            self.history = []
        self.history.append({tuple(int(l) for l in k): np.array(v, dtype=float) for k, v in self.surpluses.items()})
        return super().post_processing()


def run(data, reuse, lmin, lmax, max_evaluations, lambd, points):
    dim = data.shape[1]
    a, b = np.zeros(dim), np.ones(dim)
    grid = GlobalTrapezoidalGrid(a=a, b=b, modified_basis=False, boundary=True)
    op = RecordingDE(data, dim, grid=grid, lambd=lambd, reuse_old_values=reuse,
                     log_level=log_levels.NONE, print_level=print_levels.NONE)
    combi = SpatiallyAdaptiveSingleDimensions2(a, b, operation=op, margin=0.5, rebalancing=True,
                                               rebalancing_safety_factor=0.2,
                                               log_level=log_levels.NONE, print_level=print_levels.NONE)
    with contextlib.redirect_stdout(io.StringIO()):
        combi.performSpatiallyAdaptiv(lmin, lmax, ErrorCalculatorSingleDimVolumeGuided(), 0.0,
                                      max_evaluations=max_evaluations, print_output=False)
        values = np.asarray(combi(points)).flatten()
    return op, combi, values


def first_difference(hist_off, hist_on):
    """Return None if all recorded surpluses agree, else a description of the first deviation."""
    for it, (s_off, s_on) in enumerate(zip(hist_off, hist_on)):
        if set(s_off) != set(s_on):
            return "evaluation %d: different component grids %s vs %s" % (it, sorted(s_off), sorted(s_on))
        for key in sorted(s_off):
            v_off, v_on = s_off[key], s_on[key]
            if v_off.shape != v_on.shape:
                return "evaluation %d, grid %s: %d vs %d points" % (it, key, len(v_off), len(v_on))
            err = np.abs(v_off - v_on)
            scale = max(1.0, float(np.max(np.abs(v_off))))
            if np.max(err) > TOL * scale:
                i = int(np.argmax(err))
                return ("evaluation %d, component grid %s (%d points), surplus[%d]: expected (reuse off) %.12g, "
                        "observed (reuse on) %.12g, max abs deviation %.3e"
                        % (it, key, len(v_off), i, v_off[i], v_on[i], np.max(err)))
    if len(hist_off) != len(hist_on):
        return "different number of evaluations: %d (reuse off) vs %d (reuse on)" % (len(hist_off), len(hist_on))
    return None


def main():
    data = datasets.make_moons(300, noise=0.1, random_state=1)[0]; data = 0.1 + 0.8 * (data - data.min(0)) / (data.max(0) - data.min(0))
    rs = np.random.RandomState(5)
    points = [tuple(p) for p in 0.02 + 0.96 * rs.rand(25, 2)]

    op_off, combi_off, val_off = run(data, False, 2, 5, 1500, 0.02, points)
    op_on, combi_on, val_on = run(data, True, 2, 5, 1500, 0.02, points)

    sizes = [max(len(v) for v in h.values()) for h in op_off.history]
    print("evaluations: %d, largest component grid per evaluation: %s" % (len(op_off.history), sizes))
    if max(sizes) < 200 or len(sizes) < 2:
        print("FAIL: scenario did not reach the large-grid reuse path (sizes %s)" % sizes)
        return 1

    problem = first_difference(op_off.history, op_on.history)
    if problem is not None:
        print("FAIL: surpluses with reuse_old_values=True differ from those with reuse switched off")
        print("  " + problem)
        return 1
    dev = float(np.max(np.abs(val_off - val_on)))
    if dev > TOL * max(1.0, float(np.max(np.abs(val_off)))):
        i = int(np.argmax(np.abs(val_off - val_on)))
        print("FAIL: interpolated density differs at %s: expected (reuse off) %.12g, observed (reuse on) %.12g"
              % (points[i], val_off[i], val_on[i]))
        return 1
    print("max deviation of combi(points): %.3e" % dev)
    print("PASS")
    return 0


if __name__ == "__main__":
    sys.exit(main())
