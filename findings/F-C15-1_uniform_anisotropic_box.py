"""One-off demonstration (run from the repository root) of F-C15-1: distribution objects were shared between dimensions by their
description only.  Fails on the pinned commit ("1D weights sum is 0.0"), passes after fix 64f1222.  The deciding check is C15.D11."""
import os, sys; sys.path.insert(0, os.getcwd())
import numpy as np
from sparseSpACE.Function import Function
from sparseSpACE.GridOperation import UncertaintyQuantification
from sparseSpACE.Grid import GlobalTrapezoidalGridWeighted


class Const(Function):
    def eval(self, c):
        return np.array([7.0])

    def output_length(self):
        return 1


a, b = np.array([0., 1.]), np.array([1., 4.])
op = UncertaintyQuantification(Const(), "Uniform", a, b)
grid = GlobalTrapezoidalGridWeighted(a, b, op, boundary=True)
bad = 0
for d in range(2):
    w = grid.compute_1D_quad_weights(list(np.linspace(a[d], b[d], 5)), a[d], b[d], d, grid_levels_1D=[0, 2, 1, 2, 0])
    print("dimension", d, "weights", w, "sum", sum(w))
    bad += abs(sum(w) - 1) > 1e-12
print("FAIL" if bad else "PASS")
sys.exit(1 if bad else 0)
