#!/usr/bin/env python3
"""usage: tools/seed_meta.py <seed id> --detected C05[,C02] --rule C05.D5 --needs "..." --what "..." """
import argparse, json, os
ap = argparse.ArgumentParser()
ap.add_argument("sid")
ap.add_argument("--detected", default="")
ap.add_argument("--rule", default="")
ap.add_argument("--needs", default=None)
ap.add_argument("--what", default=None)
ap.add_argument("--note", default=None)
a = ap.parse_args()
p = os.path.join(os.path.dirname(os.path.dirname(os.path.abspath(__file__))), "seeded", a.sid, "meta.json")
m = json.load(open(p))
m["detected_by"] = [x for x in a.detected.split(",") if x]
if a.rule:
    m["detecting_rule"] = a.rule
if a.needs is not None:
    m["needs_to_manifest"] = a.needs
if a.what is not None:
    m["what_it_breaks"] = a.what
if a.note is not None:
    m["note"] = a.note
json.dump(m, open(p, "w"), indent=1)
print(a.sid, m["detected_by"])
