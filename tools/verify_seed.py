#!/usr/bin/env python3
"""Confirm a seeded change independently and file it under /verif/seeded/<id>/.

usage: tools/verify_seed.py <Cxx> <mutN> [--src /tmp/wt/out] [--jobs 6]

In a fresh scratch worktree of /repo (under /tmp/vs, removed afterwards):
  1. the demonstration passes (exit 0) on the unmodified tree,
  2. the patch applies; the package byte-compiles,
  3. the demonstration fails (exit != 0) on the patched tree,
  4. the pinned test-suite still passes: every test of BASELINE.stable_pass passes.
Writes patch.diff, demo.py, meta.json (incl. what was run) only if all four hold."""
import argparse
import json
import os
import shutil
import subprocess
import sys
import time
import xml.etree.ElementTree as ET

VERIF = os.path.dirname(os.path.dirname(os.path.abspath(__file__)))
PY = "/venv/bin/python"


def run(cmd, cwd, timeout=1800, env=None):
    e = dict(os.environ)
    e["MPLBACKEND"] = "Agg"
    e["PYTHONPATH"] = cwd          # demos live outside the worktree: make sure the worktree's package is the one imported
    if env:
        e.update(env)
    p = subprocess.run(cmd, cwd=cwd, capture_output=True, text=True, timeout=timeout, env=e)
    return p.returncode, (p.stdout + p.stderr)


def main():
    ap = argparse.ArgumentParser()
    ap.add_argument("prop")
    ap.add_argument("mut")
    ap.add_argument("--src", default="/tmp/wt/out")
    ap.add_argument("--jobs", default="6")
    ap.add_argument("--needs", default="")
    a = ap.parse_args()
    sid = "%s-%s" % (a.prop, a.mut)
    srcdir = os.path.join(a.src, a.prop)
    patch = os.path.join(srcdir, a.mut + ".diff")
    demo = os.path.join(srcdir, "demo_%s.py" % a.mut)
    if not (os.path.exists(patch) and os.path.exists(demo)):
        print("%s: missing patch or demo" % sid)
        return 2
    wt = "/tmp/vs/%s" % sid
    os.makedirs("/tmp/vs", exist_ok=True)
    subprocess.run(["git", "-C", "/repo", "worktree", "remove", "--force", wt], capture_output=True)
    shutil.rmtree(wt, ignore_errors=True)
    r = subprocess.run(["git", "-C", "/repo", "worktree", "add", "--detach", wt, "HEAD", "-q"], capture_output=True, text=True)
    if r.returncode != 0:
        print("%s: cannot create worktree: %s" % (sid, r.stderr))
        return 2
    log = {"id": sid, "steps": []}
    ok = True
    try:
        rc, out = run([PY, demo], wt, timeout=600)
        log["steps"].append({"step": "demo on clean tree", "cmd": "cd <worktree> && %s demo.py" % PY, "exit": rc, "tail": out[-300:]})
        if rc != 0:
            ok = False
            print("%s: demo does not pass on the clean tree (exit %d)" % (sid, rc))
        if ok:
            rc, out = run(["git", "apply", patch], wt)
            log["steps"].append({"step": "git apply", "exit": rc})
            if rc != 0:
                ok = False
                print("%s: patch does not apply: %s" % (sid, out[-200:]))
        if ok:
            rc, out = run([PY, "-m", "compileall", "-q", "sparseSpACE"], wt)
            log["steps"].append({"step": "compileall", "exit": rc})
            ok = rc == 0
        if ok:
            rc, out = run([PY, demo], wt, timeout=600)
            log["steps"].append({"step": "demo on patched tree", "exit": rc, "tail": out[-400:]})
            if rc == 0:
                ok = False
                print("%s: demo does not fail on the patched tree" % sid)
        if ok:
            junit = "/tmp/vs/%s.xml" % sid
            t0 = time.time()
            rc, out = run([PY, "-m", "pytest", "-q", "-p", "no:cacheprovider", "--timeout=900", "--continue-on-collection-errors",
                           "-n", a.jobs, "--junitxml=" + junit], wt, timeout=3600)
            base = json.load(open("/root/.vp/BASELINE.json"))
            res = {}
            for tc in ET.parse(junit).iter("testcase"):
                name = tc.get("classname") + "::" + tc.get("name")
                res[name] = not any(ch.tag in ("failure", "error", "skipped") for ch in tc)
            missing = [n for n in base["stable_pass"] if not res.get(n)]
            log["steps"].append({"step": "pinned suite on patched tree (-n %s)" % a.jobs, "wall_s": round(time.time() - t0),
                                 "stable_pass_failing": missing, "passed": sum(res.values()), "total": len(res)})
            os.remove(junit)
            if missing:
                ok = False
                print("%s: suite no longer passes: %s" % (sid, missing[:3]))
    finally:
        subprocess.run(["git", "-C", "/repo", "worktree", "remove", "--force", wt], capture_output=True)
        shutil.rmtree(wt, ignore_errors=True)
    if not ok:
        print(json.dumps(log, indent=1)[-1500:])
        return 1
    d = os.path.join(VERIF, "seeded", sid)
    os.makedirs(d, exist_ok=True)
    shutil.copy(patch, os.path.join(d, "patch.diff"))
    shutil.copy(demo, os.path.join(d, "demo.py"))
    meta_path = os.path.join(d, "meta.json")
    meta = json.load(open(meta_path)) if os.path.exists(meta_path) else {}
    meta.update({"id": sid, "property": a.prop, "needs_to_manifest": a.needs or meta.get("needs_to_manifest", ""),
                 "confirmed": log["steps"], "origin": "independent sub-agent given only the property text and a scratch worktree"})
    meta.setdefault("detected_by", [])
    json.dump(meta, open(meta_path, "w"), indent=1)
    print("%s: confirmed and filed" % sid)
    return 0


if __name__ == "__main__":
    sys.exit(main())
