#!/usr/bin/env python3
"""False-alarm probe: whole-package, behaviour-preserving source transformations.

Each transformation rewrites EVERY module of a scratch copy of /repo/sparseSpACE (outside /repo and /verif, removed
afterwards) in a way that cannot change behaviour, then all claimed checks run on the copy.  Any violation or analysis
error on a transformed tree that is not reported on the untransformed tree is a false alarm of the checker (the
transformations are semantics-preserving by construction):

  unparse      ast.unparse round trip: comments gone, layout / parentheses / quotes normalised, elif chains re-nested
  rename       every plain local variable of every function gets the suffix `_r` (params, globals, nonlocals, cell and
               free variables, names used by locals()/exec/eval-using functions are left alone)
  flipif       `if not c: A else: B`  ->  `if c: B else: A`   and   `if c: A else: B` -> `if not c: B else: A` for
               alternate statements (both have an else branch and no elif on the flipped side)
  rettemp      `return <expr>` -> `_ret = <expr>; return _ret`
  docstring    a docstring is added to every function that has none and a module-level constant is added
  reorder      the methods of every class are emitted in reverse order when no method is used in the class body itself
  noelse       `if c: ...; return  else: B` -> the else branch is dedented behind the if (no-else-return clean-up)
  addelse      the reverse: statements behind `if c: ...; return` move into an else branch
  demorgan     `if a and b: A else: B` -> `if not a or not b: B else: A`; `not (a or b)` -> `not a and not b`
  chaincmp     `a < b <= c` -> `a < b and b <= c` (pure middle operand)
  ifexp        `if c: T = A else: T = B` -> `T = A if c else B`, same for two returns
  comp2loop    `L = [E for x in I if c]` -> `L = []` + append loop (when the loop variables are not used elsewhere)
  kwargs       positional arguments after the first are passed by keyword for methods whose name is defined once in the package

usage: tools/neutral_fuzz.py [transform ...] [--props C01,C05]"""
import ast
import multiprocessing
import os
import shutil
import symtable
import sys
import tempfile

VERIF = os.path.dirname(os.path.dirname(os.path.abspath(__file__)))
sys.path.insert(0, VERIF)
from sa import report                       # noqa: E402
from sa.loader import AnalysisError, PKG    # noqa: E402
from sa.main import available, run_property  # noqa: E402


# ----------------------------------------------------------------------------------------------------- transformations
def t_unparse(tree, src):
    return tree


def _own_locals(table):
    out = set()
    for s in table.get_symbols():
        if s.is_local() and not s.is_parameter() and not s.is_global() and not s.is_nonlocal() and not s.is_free() \
                and not s.is_imported() and not s.is_namespace():
            out.add(s.get_name())
    return out


def _child_free(table):
    used = set()
    for ch in table.get_children():
        for s in ch.get_symbols():
            if s.is_free() or (s.is_global() and not s.is_declared_global()):
                used.add(s.get_name())
            # names referenced in a child scope that are not local to it
            if s.is_referenced() and not s.is_local():
                used.add(s.get_name())
        used |= _child_free(ch)
    return used


class _Renamer(ast.NodeTransformer):
    def __init__(self, names):
        self.names = names

    def visit_Name(self, node):
        if node.id in self.names:
            node.id = node.id + "_r"
        return node

    # do not descend into nested scopes (their names are their own)
    def visit_FunctionDef(self, node):
        return node

    visit_AsyncFunctionDef = visit_FunctionDef
    visit_Lambda = visit_FunctionDef
    visit_ClassDef = visit_FunctionDef

    def _comp(self, node):
        # a comprehension is its own scope for its targets; everything else it reads belongs to the enclosing scope
        bound = set()
        for g in node.generators:
            for t in ast.walk(g.target):
                if isinstance(t, ast.Name):
                    bound.add(t.id)
        inner = type(self)(self.names - bound)
        for g in node.generators:
            g.iter = inner.visit(g.iter)
            g.ifs = [inner.visit(i) for i in g.ifs]
        node.generators[0].iter = node.generators[0].iter
        for f in ("elt", "key", "value"):
            if hasattr(node, f):
                setattr(node, f, inner.visit(getattr(node, f)))
        return node

    visit_ListComp = visit_SetComp = visit_DictComp = visit_GeneratorExp = _comp

    def visit_ExceptHandler(self, node):
        if node.name in self.names:
            node.name = node.name + "_r"
        self.generic_visit(node)
        return node


def t_rename(tree, src):
    top = symtable.symtable(src, "<m>", "exec")
    tables = {}

    def collect(t):
        for ch in t.get_children():
            if ch.get_type() == "function":
                tables.setdefault((ch.get_name(), ch.get_lineno()), ch)
            collect(ch)
    collect(top)
    for fn in ast.walk(tree):
        if not isinstance(fn, (ast.FunctionDef, ast.AsyncFunctionDef)):
            continue
        tab = tables.get((fn.name, fn.lineno))
        if tab is None:
            continue
        body_names = {n.id for n in ast.walk(fn) if isinstance(n, ast.Name)}
        if body_names & {"locals", "exec", "eval", "vars"}:
            continue
        names = _own_locals(tab) - _child_free(tab)
        names = {n for n in names if not n.startswith("__") and (n + "_r") not in body_names}
        r = _Renamer(names)
        fn.body = [r.visit(st) for st in fn.body]
    return tree


_KEYWORDS_USED = None


def _keywords_used():
    """every keyword-argument name used in any call of the package, its tests and ipynb-free examples"""
    global _KEYWORDS_USED
    if _KEYWORDS_USED is None:
        kws = set()
        for top in (os.path.join("/repo", PKG), "/repo/test"):
            for root, _d, files in os.walk(top):
                for f in files:
                    if f.endswith(".py"):
                        try:
                            tr = ast.parse(open(os.path.join(root, f)).read())
                        except SyntaxError:
                            continue
                        for n in ast.walk(tr):
                            if isinstance(n, ast.Call):
                                kws.update(k.arg for k in n.keywords if k.arg)
        _KEYWORDS_USED = kws
    return _KEYWORDS_USED


def t_renameparams(tree, src):
    """positional parameters that are never passed by keyword anywhere get the suffix `_p` (plus the local renaming)"""
    tree = t_rename(tree, src)
    src2 = ast.unparse(ast.fix_missing_locations(tree))
    tree = ast.parse(src2)
    top = symtable.symtable(src2, "<m>", "exec")
    tables = {}

    def collect(t):
        for ch in t.get_children():
            if ch.get_type() == "function":
                tables.setdefault((ch.get_name(), ch.get_lineno()), ch)
            collect(ch)
    collect(top)
    kws = _keywords_used()
    for fn in ast.walk(tree):
        if not isinstance(fn, (ast.FunctionDef, ast.AsyncFunctionDef)):
            continue
        tab = tables.get((fn.name, fn.lineno))
        if tab is None:
            continue
        body_names = {n.id for n in ast.walk(fn) if isinstance(n, ast.Name)}
        if body_names & {"locals", "exec", "eval", "vars"}:
            continue
        args = fn.args.posonlyargs + fn.args.args
        skip_first = bool(args) and args[0].arg in ("self", "cls")
        cand = {a.arg for a in args[1 if skip_first else 0:]} - kws - _child_free(tab)
        cand = {n for n in cand if (n + "_p") not in body_names}
        for a in args:
            if a.arg in cand:
                a.arg = a.arg + "_p"

        class PR(_Renamer):
            def visit_Name(self, node):
                if node.id in self.names:
                    node.id = node.id + "_p"
                return node
        r = PR(cand)
        fn.body = [r.visit(st) for st in fn.body]
    return tree


class _FlipIf(ast.NodeTransformer):
    def visit_If(self, node):
        self.generic_visit(node)
        if not node.orelse:
            return node
        if len(node.orelse) == 1 and isinstance(node.orelse[0], ast.If):
            return node                                  # elif chain: leave
        if isinstance(node.test, ast.UnaryOp) and isinstance(node.test.op, ast.Not):
            test = node.test.operand
        else:
            test = ast.UnaryOp(op=ast.Not(), operand=node.test)
        return ast.copy_location(ast.If(test=test, body=node.orelse, orelse=node.body), node)


def t_flipif(tree, src):
    return _FlipIf().visit(tree)


class _RetTemp(ast.NodeTransformer):
    def _block(self, stmts):
        out = []
        for st in stmts:
            st = self.visit(st)
            if isinstance(st, ast.Return) and st.value is not None and not isinstance(st.value, (ast.Constant, ast.Name)):
                out.append(ast.copy_location(ast.Assign(targets=[ast.Name(id="_ret", ctx=ast.Store())], value=st.value, lineno=st.lineno), st))
                out.append(ast.copy_location(ast.Return(value=ast.Name(id="_ret", ctx=ast.Load())), st))
            else:
                out.append(st)
        return out

    def generic_visit(self, node):
        for f in ("body", "orelse", "finalbody"):
            v = getattr(node, f, None)
            if isinstance(v, list) and v and isinstance(v[0], ast.stmt):
                setattr(node, f, self._block(v))
        if isinstance(node, ast.Try):
            for h in node.handlers:
                h.body = self._block(h.body)
        if hasattr(ast, "Match") and isinstance(node, ast.Match):
            for c in node.cases:
                c.body = self._block(c.body)
        return node

    def visit_Lambda(self, node):
        return node


def t_rettemp(tree, src):
    return _RetTemp().visit(tree)


def t_docstring(tree, src):
    for fn in ast.walk(tree):
        if isinstance(fn, (ast.FunctionDef, ast.AsyncFunctionDef)) and ast.get_docstring(fn) is None:
            fn.body.insert(0, ast.Expr(value=ast.Constant(value="Neutral docstring added by the false-alarm probe.")))
    tree.body.append(ast.Assign(targets=[ast.Name(id="_NEUTRAL_PROBE", ctx=ast.Store())], value=ast.Constant(value=1), lineno=0))
    return tree


def t_reorder(tree, src):
    for cls in ast.walk(tree):
        if not isinstance(cls, ast.ClassDef):
            continue
        fns = [s for s in cls.body if isinstance(s, ast.FunctionDef)]
        others = [s for s in cls.body if not isinstance(s, ast.FunctionDef)]
        names = {f.name for f in fns}
        # class-level statements that use a method (property(...), aliases) or decorated setters: leave the class alone
        if any(isinstance(n, ast.Name) and n.id in names for s in others for n in ast.walk(s)):
            continue
        if len(names) != len(fns):
            continue                                     # property getter/setter pairs, overloads
        if any(f.decorator_list and any(isinstance(d, ast.Attribute) for d in f.decorator_list) for f in fns):
            continue
        first_other = [s for s in others]
        cls.body = first_other + list(reversed(fns)) if first_other else list(reversed(fns))
    return tree


class _CmpSwap(ast.NodeTransformer):
    SW = {ast.Lt: ast.Gt, ast.Gt: ast.Lt, ast.LtE: ast.GtE, ast.GtE: ast.LtE, ast.Eq: ast.Eq, ast.NotEq: ast.NotEq}

    def visit_Compare(self, node):
        self.generic_visit(node)
        if len(node.ops) == 1 and type(node.ops[0]) in self.SW:
            # operands without calls / attribute access on both sides: evaluation order cannot matter
            if all(isinstance(x, (ast.Name, ast.Constant, ast.Subscript, ast.Attribute, ast.BinOp, ast.UnaryOp, ast.Load, ast.Store,
                                  ast.operator, ast.unaryop, ast.expr_context, ast.Tuple, ast.Slice)) for side in (node.left, node.comparators[0]) for x in ast.walk(side)):
                return ast.copy_location(ast.Compare(left=node.comparators[0], ops=[self.SW[type(node.ops[0])]()], comparators=[node.left]), node)
        return node


def t_cmpswap(tree, src):
    return _CmpSwap().visit(tree)


class _MergeIf(ast.NodeTransformer):
    def visit_If(self, node):
        self.generic_visit(node)
        if not node.orelse and len(node.body) == 1 and isinstance(node.body[0], ast.If) and not node.body[0].orelse:
            inner = node.body[0]
            return ast.copy_location(ast.If(test=ast.BoolOp(op=ast.And(), values=[node.test, inner.test]), body=inner.body, orelse=[]), node)
        return node


def t_mergeif(tree, src):
    return _MergeIf().visit(tree)


class _Hoist(ast.NodeTransformer):
    """x = f(g(y), ...)  ->  _h = g(y); x = f(_h, ...)   for simple statements, first positional argument that is itself a call and
    is preceded only by names / constants (so the relative order of all calls is unchanged)"""
    def __init__(self):
        self.k = 0

    def _block(self, stmts):
        out = []
        for st in stmts:
            st = self.visit(st)
            val = None
            if isinstance(st, (ast.Assign, ast.AugAssign, ast.Return)) and isinstance(st.value, ast.Call):
                val = st.value
            elif isinstance(st, ast.Expr) and isinstance(st.value, ast.Call):
                val = st.value
            done = False
            if val is not None and isinstance(val.func, (ast.Name, ast.Attribute)) and not any(isinstance(a, ast.Starred) for a in val.args):
                fn_simple = all(isinstance(x, (ast.Name, ast.Attribute, ast.Load)) for x in ast.walk(val.func))
                for i, a in enumerate(val.args):
                    if isinstance(a, ast.Call) and fn_simple and all(isinstance(b, (ast.Name, ast.Constant)) for b in val.args[:i]) \
                            and not any(isinstance(x, (ast.Lambda, ast.NamedExpr, ast.Yield, ast.Await)) for x in ast.walk(a)):
                        self.k += 1
                        nm = "_h%d" % self.k
                        out.append(ast.copy_location(ast.Assign(targets=[ast.Name(id=nm, ctx=ast.Store())], value=a, lineno=st.lineno), st))
                        val.args[i] = ast.Name(id=nm, ctx=ast.Load())
                        out.append(st)
                        done = True
                        break
            if not done:
                out.append(st)
        return out

    def generic_visit(self, node):
        for f in ("body", "orelse", "finalbody"):
            v = getattr(node, f, None)
            if isinstance(v, list) and v and isinstance(v[0], ast.stmt):
                setattr(node, f, self._block(v))
        if isinstance(node, ast.Try):
            for h in node.handlers:
                h.body = self._block(h.body)
        return node

    def visit_Lambda(self, node):
        return node

    def visit_ClassDef(self, node):
        # class bodies: only descend into methods
        node.body = [self.visit(x) if isinstance(x, (ast.FunctionDef, ast.AsyncFunctionDef)) else x for x in node.body]
        return node


def t_hoist(tree, src):
    h = _Hoist()
    tree.body = [h.visit(x) if isinstance(x, (ast.FunctionDef, ast.AsyncFunctionDef, ast.ClassDef)) else x for x in tree.body]
    return tree


def t_logging(tree, src):
    """a call of a module-level no-op logger is inserted at the start of every function and in front of every return"""
    class L(ast.NodeTransformer):
        def _call(self, at, text):
            return ast.copy_location(ast.Expr(value=ast.Call(func=ast.Name(id="_neutral_probe_log", ctx=ast.Load()),
                                                              args=[ast.Constant(value=text)], keywords=[])), at)

        def _block(self, stmts):
            out = []
            for st in stmts:
                st = self.visit(st)
                if isinstance(st, ast.Return):
                    out.append(self._call(st, "leaving"))
                out.append(st)
            return out

        def generic_visit(self, node):
            for f in ("body", "orelse", "finalbody"):
                v = getattr(node, f, None)
                if isinstance(v, list) and v and isinstance(v[0], ast.stmt):
                    setattr(node, f, self._block(v))
            if isinstance(node, ast.Try):
                for h in node.handlers:
                    h.body = self._block(h.body)
            if isinstance(node, (ast.FunctionDef, ast.AsyncFunctionDef)):
                k = 1 if (node.body and isinstance(node.body[0], ast.Expr) and isinstance(node.body[0].value, ast.Constant)) else 0
                node.body.insert(k, self._call(node.body[0], "entering " + node.name))
            return node

        def visit_Lambda(self, node):
            return node
    tree = L().visit(tree)
    fn = ast.parse("def _neutral_probe_log(msg):\n    pass\n").body[0]
    k = 0
    while k < len(tree.body) and (isinstance(tree.body[k], (ast.Import, ast.ImportFrom)) or
                                  (isinstance(tree.body[k], ast.Expr) and isinstance(tree.body[k].value, ast.Constant))):
        k += 1
    tree.body.insert(k, fn)
    return tree


def t_tryfinally(tree, src):
    """every function body (after the docstring) is wrapped in  try: <body> finally: pass"""
    for fn in ast.walk(tree):
        if isinstance(fn, (ast.FunctionDef, ast.AsyncFunctionDef)):
            k = 1 if (fn.body and isinstance(fn.body[0], ast.Expr) and isinstance(fn.body[0].value, ast.Constant)) else 0
            rest = fn.body[k:]
            if not rest or any(isinstance(x, (ast.Global, ast.Nonlocal)) for x in rest):
                continue
            fn.body = fn.body[:k] + [ast.copy_location(ast.Try(body=rest, handlers=[], orelse=[], finalbody=[ast.Pass()]), rest[0])]
    return tree



# ---- second batch ------------------------------------------------------------------------------------------------
def _terminates(stmts):
    return bool(stmts) and isinstance(stmts[-1], (ast.Return, ast.Raise, ast.Continue, ast.Break))


class _BlockRewriter(ast.NodeTransformer):
    """applies self._block(stmts) to every statement list"""

    def generic_visit(self, node):
        super().generic_visit(node)
        for f in ("body", "orelse", "finalbody"):
            v = getattr(node, f, None)
            if isinstance(v, list) and v and isinstance(v[0], ast.stmt):
                setattr(node, f, self._block(v))
        return node


class _NoElse(_BlockRewriter):
    """`if c: A; return  else: B`  ->  `if c: A; return` followed by B   (pylint's no-else-return clean-up)"""

    def _block(self, stmts):
        out = []
        for st in stmts:
            if isinstance(st, ast.If) and st.orelse and _terminates(st.body) and not (len(st.orelse) == 1 and isinstance(st.orelse[0], ast.If)):
                rest = st.orelse
                st.orelse = []
                out.append(st)
                out.extend(rest)
            else:
                out.append(st)
        return out


def t_noelse(tree, src):
    return _NoElse().visit(tree)


class _AddElse(_BlockRewriter):
    """`if c: A; return` followed by B  ->  `if c: A; return  else: B`   (the reverse clean-up)"""

    def _block(self, stmts):
        for k, st in enumerate(stmts):
            if isinstance(st, ast.If) and not st.orelse and _terminates(st.body) and isinstance(st.body[-1], (ast.Return, ast.Raise)) \
                    and k + 1 < len(stmts) and not any(isinstance(x, (ast.FunctionDef, ast.ClassDef, ast.Global, ast.Nonlocal)) for x in stmts[k + 1:]):
                st.orelse = self._block(stmts[k + 1:])
                return stmts[:k + 1]
        return stmts


def t_addelse(tree, src):
    return _AddElse().visit(tree)


class _DeMorgan(ast.NodeTransformer):
    """`if a and b: A else: B` -> `if not a or not b: B else: A` ;  `if not (a or b)` -> `if not a and not b`"""

    @staticmethod
    def _neg(e):
        if isinstance(e, ast.UnaryOp) and isinstance(e.op, ast.Not):
            return e.operand
        return ast.UnaryOp(op=ast.Not(), operand=e)

    def visit_If(self, node):
        self.generic_visit(node)
        t = node.test
        if isinstance(t, ast.UnaryOp) and isinstance(t.op, ast.Not) and isinstance(t.operand, ast.BoolOp):
            b = t.operand
            op = ast.And() if isinstance(b.op, ast.Or) else ast.Or()
            node.test = ast.BoolOp(op=op, values=[self._neg(v) for v in b.values])
            return node
        if isinstance(t, ast.BoolOp) and node.orelse and not (len(node.orelse) == 1 and isinstance(node.orelse[0], ast.If)):
            op = ast.And() if isinstance(t.op, ast.Or) else ast.Or()
            return ast.copy_location(ast.If(test=ast.BoolOp(op=op, values=[self._neg(v) for v in t.values]), body=node.orelse, orelse=node.body), node)
        return node


def t_demorgan(tree, src):
    return _DeMorgan().visit(tree)


class _ChainCmp(ast.NodeTransformer):
    """`a < b <= c` -> `a < b and b <= c` when the middle operand is a plain name / constant / attribute chain"""

    def visit_Compare(self, node):
        self.generic_visit(node)
        if len(node.ops) == 2 and all(isinstance(x, (ast.Name, ast.Constant, ast.Attribute, ast.expr_context)) for x in ast.walk(node.comparators[0])):
            import copy
            mid = node.comparators[0]
            return ast.copy_location(ast.BoolOp(op=ast.And(), values=[
                ast.Compare(left=node.left, ops=[node.ops[0]], comparators=[mid]),
                ast.Compare(left=copy.deepcopy(mid), ops=[node.ops[1]], comparators=[node.comparators[1]])]), node)
        return node


def t_chaincmp(tree, src):
    return _ChainCmp().visit(tree)


class _IfExp(_BlockRewriter):
    """`if c: T = A else: T = B` -> `T = A if c else B` ;  `if c: return A else: return B` -> `return A if c else B`"""

    def _block(self, stmts):
        out = []
        for st in stmts:
            if isinstance(st, ast.If) and len(st.body) == 1 and len(st.orelse) == 1:
                a, b = st.body[0], st.orelse[0]
                if isinstance(a, ast.Return) and isinstance(b, ast.Return) and a.value is not None and b.value is not None:
                    out.append(ast.copy_location(ast.Return(value=ast.IfExp(test=st.test, body=a.value, orelse=b.value)), st))
                    continue
                if isinstance(a, ast.Assign) and isinstance(b, ast.Assign) and len(a.targets) == 1 and len(b.targets) == 1 \
                        and isinstance(a.targets[0], (ast.Name, ast.Attribute)) and ast.dump(a.targets[0]) == ast.dump(b.targets[0]) \
                        and all(isinstance(x, (ast.Name, ast.Attribute, ast.expr_context)) for x in ast.walk(a.targets[0])):
                    out.append(ast.copy_location(ast.Assign(targets=[a.targets[0]], value=ast.IfExp(test=st.test, body=a.value, orelse=b.value), lineno=st.lineno), st))
                    continue
            out.append(st)
        return out


def t_ifexp(tree, src):
    return _IfExp().visit(tree)


class _Comp2Loop(_BlockRewriter):
    """`L = [E for x in I if c]` -> `L = []; for x in I: if c: L.append(E)` when neither L nor the loop variables occur elsewhere
    in a way that could observe the difference (L not read in the comprehension, loop variables not used outside it)"""

    def __init__(self):
        self.fn_names = [{}]

    def visit_FunctionDef(self, node):
        counts = {}
        for n in ast.walk(node):
            if isinstance(n, ast.Name):
                counts[n.id] = counts.get(n.id, 0) + 1
            elif isinstance(n, ast.arg):
                counts[n.arg] = counts.get(n.arg, 0) + 1
        nested = any(isinstance(n, (ast.FunctionDef, ast.Lambda, ast.ClassDef)) and n is not node for n in ast.walk(node))
        self.fn_names.append(None if nested else counts)
        try:
            return self.generic_visit(node)
        finally:
            self.fn_names.pop()

    def _block(self, stmts):
        counts = self.fn_names[-1]
        if not counts:
            return stmts
        out = []
        for st in stmts:
            ok = False
            if isinstance(st, ast.Assign) and len(st.targets) == 1 and isinstance(st.targets[0], ast.Name) and isinstance(st.value, ast.ListComp) \
                    and len(st.value.generators) == 1 and not st.value.generators[0].is_async:
                g = st.value.generators[0]
                tv = [n.id for n in ast.walk(g.target) if isinstance(n, ast.Name)]
                inside = {}
                for n in ast.walk(st.value):
                    if isinstance(n, ast.Name):
                        inside[n.id] = inside.get(n.id, 0) + 1
                lname = st.targets[0].id
                nested_comp = any(isinstance(n, (ast.ListComp, ast.SetComp, ast.DictComp, ast.GeneratorExp, ast.Lambda, ast.NamedExpr)) and n is not st.value for n in ast.walk(st.value))
                if lname not in inside and not nested_comp and all(counts.get(v, 0) == inside.get(v, 0) for v in tv) \
                        and isinstance(g.target, (ast.Name, ast.Tuple)):
                    ok = True
            if not ok:
                out.append(st)
                continue
            body = [ast.Expr(value=ast.Call(func=ast.Attribute(value=ast.Name(id=lname, ctx=ast.Load()), attr="append", ctx=ast.Load()), args=[st.value.elt], keywords=[]))]
            for c in reversed(g.ifs):
                body = [ast.If(test=c, body=body, orelse=[])]
            out.append(ast.copy_location(ast.Assign(targets=[ast.Name(id=lname, ctx=ast.Store())], value=ast.List(elts=[], ctx=ast.Load()), lineno=st.lineno), st))
            out.append(ast.copy_location(ast.For(target=g.target, iter=g.iter, body=body, orelse=[], lineno=st.lineno), st))
        return out


def t_comp2loop(tree, src):
    for n in ast.walk(tree):
        if isinstance(n, (ast.ListComp,)):
            for g in n.generators:
                for t in ast.walk(g.target):
                    if isinstance(t, ast.Name):
                        t.ctx = ast.Store()
    return _Comp2Loop().visit(tree)


_METHOD_SIGS = None


def _method_signatures():
    """method name -> positional parameter names (without self), for names defined exactly once in the package with a
    plain positional signature; property setters / overloads / *args make the name ineligible"""
    global _METHOD_SIGS
    if _METHOD_SIGS is None:
        seen = {}
        for root, _d, files in os.walk(os.path.join("/repo", PKG)):
            for f in files:
                if f.endswith(".py"):
                    try:
                        t = ast.parse(open(os.path.join(root, f)).read())
                    except SyntaxError:
                        continue
                    for cls in ast.walk(t):
                        if isinstance(cls, ast.ClassDef):
                            for fn in cls.body:
                                if isinstance(fn, ast.FunctionDef):
                                    a = fn.args
                                    static = any(isinstance(d, ast.Name) and d.id == "staticmethod" for d in fn.decorator_list)
                                    plain = not a.vararg and not a.kwarg and not a.posonlyargs and (not fn.decorator_list or static)
                                    names = [x.arg for x in a.args][0 if static else 1:]
                                    seen.setdefault(fn.name, []).append(names if plain else None)
                    for fn in t.body:
                        if isinstance(fn, ast.FunctionDef):
                            seen.setdefault(fn.name, []).append(None)     # module-level functions: not touched
        _METHOD_SIGS = {k: v[0] for k, v in seen.items() if len(v) == 1 and v[0] is not None and not k.startswith("__")}
    return _METHOD_SIGS


class _Kwargs(ast.NodeTransformer):
    """`self.m(a, b)` -> `self.m(a, p2=b)`: all positional arguments after the first are passed by keyword when the method name is
    defined exactly once in the whole package (so every subclass binds the same way)"""

    def visit_Call(self, node):
        self.generic_visit(node)
        sigs = _method_signatures()
        if isinstance(node.func, ast.Attribute) and node.func.attr in sigs and not any(isinstance(a, ast.Starred) for a in node.args) \
                and not any(k.arg is None for k in node.keywords) and isinstance(node.func.value, ast.Name) and node.func.value.id == "self":
            names = sigs[node.func.attr]
            if 2 <= len(node.args) <= len(names) and not ({k.arg for k in node.keywords} & set(names[:len(node.args)])):
                kw = [ast.keyword(arg=names[i], value=node.args[i]) for i in range(1, len(node.args))]
                node.args = node.args[:1]
                node.keywords = kw + node.keywords
        return node


def t_kwargs(tree, src):
    return _Kwargs().visit(tree)


TRANSFORMS = {"tryfinally": t_tryfinally, "logging": t_logging, "cmpswap": t_cmpswap, "mergeif": t_mergeif, "hoist": t_hoist, "unparse": t_unparse, "rename": t_rename, "renameparams": t_renameparams, "flipif": t_flipif, "rettemp": t_rettemp,
              "docstring": t_docstring, "reorder": t_reorder,
              "noelse": t_noelse, "addelse": t_addelse, "demorgan": t_demorgan, "chaincmp": t_chaincmp, "ifexp": t_ifexp,
              "comp2loop": t_comp2loop, "kwargs": t_kwargs}


# ------------------------------------------------------------------------------------------------------------- driver
def transformed_copy(name):
    base = tempfile.mkdtemp(prefix="sa-neutral-")
    shutil.copytree(os.path.join("/repo", PKG), os.path.join(base, PKG), ignore=shutil.ignore_patterns("__pycache__", "*.pyc"))
    n = 0
    for root, _d, files in os.walk(os.path.join(base, PKG)):
        for f in files:
            if not f.endswith(".py"):
                continue
            p = os.path.join(root, f)
            src = open(p).read()
            try:
                tree = ast.parse(src)
            except SyntaxError:
                continue
            tree = TRANSFORMS[name](tree, src)
            ast.fix_missing_locations(tree)
            out = ast.unparse(tree)
            compile(out, p, "exec")
            open(p, "w").write(out + "\n")
            n += 1
    return base, n


def one(job):
    import warnings
    warnings.simplefilter("ignore")
    name, props = job
    base, n = transformed_copy(name)
    res = {}
    try:
        for prop in props:
            try:
                ctx, _m = run_property(prop, base)
                viol, kn, tr = report.classify(prop, ctx.instances)
                if viol:
                    res[prop] = ["%s %s @%s: %s" % (v.rule, v.key, v.loc, v.detail[:160]) for v in viol]
            except AnalysisError as e:
                res[prop] = ["ANALYSIS-ERROR %s" % e]
            except Exception as e:                                   # noqa: BLE001
                res[prop] = ["CRASH %s: %s" % (type(e).__name__, e)]
    finally:
        if "--keep" not in sys.argv:
            shutil.rmtree(base, ignore_errors=True)
        else:
            print("kept", name, base)
    return name, n, res


def main():
    args = [a for a in sys.argv[1:] if not a.startswith("--")]
    props = available()
    for a in sys.argv[1:]:
        if a.startswith("--props"):
            props = a.split("=", 1)[1].split(",")
    names = args or list(TRANSFORMS)
    with multiprocessing.get_context("fork").Pool(min(8, len(names))) as pool:
        out = pool.map(one, [(n, props) for n in names])
    bad = 0
    for name, n, res in out:
        print("%-10s modules=%d %s" % (name, n, "silent" if not res else "ALARMS"))
        for p, lines in sorted(res.items()):
            for ln in lines:
                bad += 1
                print("    %s: %s" % (p, ln))
    return 1 if bad else 0


if __name__ == "__main__":
    sys.exit(main())
