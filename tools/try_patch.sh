#!/bin/sh
# usage: tools/try_patch.sh <patch.diff> [Cxx ...]   -- applies the patch to /repo, runs the checks, reverts
p="$1"; shift
props="$@"
[ -z "$props" ] && props="all"
git -C /repo apply "$p" || { echo "PATCH DOES NOT APPLY"; exit 3; }
for c in $props; do
  /verif/check $c 2>&1 | grep -E "^VIOLATION|^ANALYSIS-ERROR|^  rule=" | cut -c1-260
done
git -C /repo checkout -- . 
git -C /repo status --short | grep -v egg-info
