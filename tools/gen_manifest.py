#!/usr/bin/env python3
"""Regenerates /verif/MANIFEST.json from the table below (one entry per claimed property)."""
import json
import os

VERIF = os.path.dirname(os.path.dirname(os.path.abspath(__file__)))

NOTE_COMMON = ("Trusted base: the python ast parser and the engine in /verif/sa (CFG + dominators, value terms with copy "
               "propagation, class-hierarchy call resolution). The check reads /repo/sparseSpACE/*.py as they are on disk at "
               "every run; nothing of sparseSpACE is imported or executed. Assumes numpy/scipy/sklearn calls behave as "
               "their documented summaries and that external callbacks do not write the anchored attributes.")

CLAIMED = {
    "C12": {
        "text": "Decides the structural clauses D1-D6 of C12 on every path of Function.py: definite assignment on the whole "
                "evaluation path (incl. caching off), an emptiness guard dominating the batch/single dispatch, a value returned on "
                "every path of every offered analytic integral, cache key/value correspondence and reset, result shape, and "
                "parameter-dependence agreement of eval/eval_vectorized siblings. These are necessary conditions that hold for "
                "every input/history because they hold on every CFG path; numerical equality (scalar vs vectorised, analytic vs "
                "numerical integral) is NOT decided. Added during the build: single-point result is a copy (D7), declared output length (D8), vectorised buffer dtype (D9), dimension-subset index spaces and the sign exponent counting the subset it accompanies (D10). Round 3: no evaluation / analytic-integral routine modifies a received sequence or a numpy view of it (D11); every return on the batch side of the dispatch is the reshaped array (D5); S1-S3.",
        "technique": "guard-correlated definite-assignment dataflow, CFG dominance, return-path analysis, value-term equality, "
                     "attribute-dependence comparison of sibling methods (stdlib ast)",
        "design_ref": "DESIGN.md section 3, C12",
    },
    "C01": {
        "text": "Decides the code-shape premises D1-D6 of the inductive argument for C01 (holds after initialisation, preserved by every "
                "update, nobody else touches the sets): package-wide ownership of the index sets / lmin and no mutation through the "
                "getter; typestate of lmin; the refined index moves active->old as one tuple behind the is-active guard; a forward "
                "neighbour is activated only after a loop over ALL dimensions found every backward neighbour in the OLD set or below "
                "lmin; the stencil contribution is +1/-1 by stencil-sum parity (abstract interpretation, spelling-independent); the "
                "stencil is {0} iff level <= lmin; returned grids pair key and coefficient. The arithmetic facts (coefficients sum to "
                "1, closed form == adaptive initialisation) are NOT decided. Round 3: observers do not modify the index sets, directly or through a local alias (D9); generic state rules S1-S3 over CombiScheme.",
        "technique": "who-may-write / escape analysis over the package, CFG dominance + post-dominance, value-term identity, parity "
                     "abstract interpretation of the sign expression, constant-set checks",
        "design_ref": "DESIGN.md section 3, C01",
    },
    "C02": {
        "text": "Decides structural clauses D1-D3 of C02: at every site that combines component results (point-wise and grid "
                "interpolation, combined quadrature rule, integral, dimension-adaptive driver, parallel helper) the accumulator starts "
                "empty, the loop visits the whole scheme without early exit (only zero-coefficient skips), and the update adds the "
                "result computed for THIS element times THIS element's coefficient; perform_operation initialises before and reads the "
                "result after the complete loop; points and weights use the same tensor enumerator, are filled from the same 1-D "
                "source in the same loop, with the same boundary slice. Exactness / reproduction at grid points is NOT decided. Round 3: the scheme combined by perform_operation is recomputed from this call's levels and the operation re-initialised on every path (D5), every run starts with a freshly allocated accumulator because get_result hands out the accumulator itself (D6), the (n_points, n_components) value buffer is never reshaped with the component count first (D7); the half weight of the trapezoidal rule is decided on with-boundary positions (D3, round 4); generic state rules S1-S3.",
        "technique": "loop-shape and accumulator discipline on the CFG, same-object value terms, sibling agreement of enumerators "
                     "and slices",
        "design_ref": "DESIGN.md section 3, C02",
    },
    "C03": {
        "text": "Decides structural clauses D1-D5 of C03: the 1-D point selection uses the component level vector only through the "
                "current dimension's entry (depends-only-on scan over all 11 uses in the three selection routines); the selection bound "
                "is clamped from below by a constant >= 1 and the left end point is appended unconditionally, so end points and the "
                "root midpoint are in every component grid; apply_remove(sort=True) reaches the ascending re-sort after every step; the "
                "scheme is re-read after every raise_lmax; the position-keyed caches are reset each step and have no other writer. "
                "Monotone growth, coefficient sums and reproduction at the points are NOT decided. Round 3: new dict caches are judged by the generic memoisation rule S2 (key covers the parameters, attribute inputs drop the cache), D5 demands the per-step reset only of caches that depend on what a refinement step changes; S1, S3.",
        "technique": "depends-only-on (use-site classification of a parameter), interval lower bound of the selection bound, constant "
                     "flag propagation, must-pass-through on the CFG, who-may-write",
        "design_ref": "DESIGN.md section 3, C03",
    },
    "C06": {
        "text": "Decides the code-shape premises D0-D6 of the inductive well-formedness argument for C06: the initial intervals are "
                "(p[i], p[i+1]) with levels (l[i], l[i+1]); a split yields (start, m), (m, end) with one midpoint term, levels (l0, n), "
                "(n, l1) with n = max(levels)+1 (polynomial identity), non-negative child coarsening, midpoint assertion dominating "
                "both constructions; the refined position is removed and exactly its children added on every path and only "
                "RefinementContainer mutates its list; lmax and object coarsening get the same positive increment; the margin-based "
                "selection (benefit >= benefit_max*margin, cursor, exclusion of new children, loop until exhausted, do_refinement "
                "always False, fresh benefit_max); every rebalancing level change is paired with the successor's shared end. The "
                "binary-tree relation after rebalancing and tiling as numbers are NOT decided. Round 3: removal is applied with sort=True on every path of the post-processing (D7, shared with C03.D3); S1-S3 over the refinement objects / containers.",
        "technique": "value-term identity, polynomial identity, guard-based interval reasoning, post-dominance, who-may-write, paired "
                     "stores with successor-index polynomial check",
        "design_ref": "DESIGN.md section 3, C06",
    },
    "C07": {
        "text": "Decides the code-shape premises D1-D6 of C07: both split routines tile the parent (complementary conditionals with the "
                "same test, one midpoint of the parent's bounds per dimension, 2 resp. 2**dim children, counter + 1, inherited "
                "coarsening); extend keeps the box and never produces a negative coarsening; the field invariant coarseningValue >= 0 "
                "holds at every store in the package with constructor arguments followed to all call sites and the update increment "
                "followed to its sources; start/end are written only by the constructor; the collision bookkeeping uses one "
                "(coarsened, original) pair and is cleared when the coarsening of a live area changes; evaluation points are removed "
                "from the candidate set once a child took them. Disjointness/union as geometry and coefficient sums per area are NOT "
                "decided. Round 3: the forward-problem test of the counted coarsening loops reads the coarsening value the area was given, not the running counter (D7); evolved state (lmax) is initialised for a fresh start only (D8, shared with C14.D8); S1-S3.",
        "technique": "complementary-conditional and shared-term checks, field-invariant analysis over all stores with "
                     "inter-procedural argument following, init-only ownership, paired-call and set-difference idiom checks",
        "design_ref": "DESIGN.md section 3, C07",
    },
    "C09": {
        "text": "Decides the two structural clauses of C09 and nothing else: (D1) with modified_basis specialised to False every "
                "reachable element store into the returned trapezoidal weight array adds a term that is >= 0 in the sign domain under the "
                "sortedness axiom, and that axiom is an assertion dominating every weight computation in GlobalGrid.set_grid; (D2) the "
                "weights are a function of the point set, the interval ends and the construction-time flag only (no attribute, level "
                "array, cache or global read; flag init-only). Exactness of any 1-D rule is numerical and NOT decided. Added during the build: overlap-add of the split rule (D3), 3-/4-point modified-basis weights as polynomial identities (D4, followed into helpers), shared Gauss nodes not modified (D5), point-wise integrator skips only zero weights (D6), weight branches scaled alike (D7), and the Gauss rule for the moments is exact for every degree of the loop: 2 n(d) - 1 >= d decided per residue class of the integer variables under the loop guard (D8, sa/gauss.py). Round 3: whole-array forms of the trapezoidal rule (gaps g[1:] - g[:-1] of the sorted grid) are signed like the loop form; generic state rules S1-S3 over the global grids, integrators, hierarchisation and bases (a collocation-matrix cache that forgets the point levels is S2).",
        "technique": "CFG specialisation by a constant flag, sign abstract interpretation with a sortedness axiom, depends-only-on / "
                     "effect scan, init-only ownership",
        "design_ref": "DESIGN.md section 3, C09",
    },
    "C15": {
        "text": "Decides structural clauses D1-D6 of C15: every non-constant return of the unmodified weighted rule is dominated by the "
                "clipping loop over all entries and only non-negative scalings follow; the two weights of an interval add up to its "
                "zeroth moment on every branch (polynomial identity), are derived for that very interval and go to entries i, i+1; "
                "without boundary the end entries are zeroed before the inner ones are scaled by the reciprocal of their own sum; "
                "negative variance entries are flipped and the variance formula pairs matching indices; producer ([1,2]) and "
                "consumers (first/second half at len//2) of the combined moment vector agree; midpoint fallbacks are taken only "
                "after a < mid < b failed and the split asserts it. Sum == 1 with boundary, uniform agreement, equal-probability "
                "split and affine covariance are numerical and NOT decided. Added during the build: closures kept beyond a loop iteration bind their loop-variant parameters at definition (D8); nodes, weights and model evaluations paired index by index are refreshed together on every path (D9); cached interval moments are keyed by the full interval and slot (D7). Round 2: no method of UncertaintyQuantification modifies a received sequence / call result or a view of it in place (D10, parameter-alias analysis; the variance is also accepted in whole-array form); distribution objects shared between dimensions are keyed by every loop-variant input of their construction (D11; found F-C15-1, repaired). Round 3: vectorised clipping (mask assignment) and conditional-expression sign fixes are recognised as the same constructs as their loop forms; S1-S3.",
        "technique": "dominance of a sanitiser loop + sign domain, polynomial identity, normalisation idiom, guarded-store checks, "
                     "constant/slice layout agreement across producer and consumers",
        "design_ref": "DESIGN.md section 3, C15",
    },
    "C05": {
        "text": "Decides structural clauses D1-D5 of C05: every accumulator (area, container, operation) receives the same "
                "coefficient-weighted term in all four evaluation routines; removals subtract value and evaluations of the popped position "
                "before the pop, in descending order, and the removed objects reach the subtracting routine; each concrete strategy is "
                "either incremental with paired removal or resets every accumulator it augments before each evaluation; any construct "
                "that re-marks or re-evaluates all areas must reset the operation accumulator (three constructs violate this today: "
                "known findings F-C05-1..3, each confirmed with a concrete doubled result); the dimension-adaptive integral cache is keyed "
                "by the component it stores. Numerical equality with a from-scratch recomputation is NOT decided. Round 3: generic state rules S1 (mutable default objects that are grown / kept, e.g. a component-integral cache as default argument), S2 (memoisations new to the pinned tree), S3 (constructor arguments reach their attributes).",
        "technique": "value-term equality across accumulator stores, CFG dominance/pairing inside the removal loop, class-hierarchy "
                     "resolution of strategy hooks, must-pass-through (reset after re-mark) on the CFG",
        "design_ref": "DESIGN.md section 3, C05",
    },
    "C10": {
        "text": "Decides structural clauses D1-D4 of C10: Lagrange evaluation and normalisation multiply over all knots i != index with "
                "one shared range and filter (cardinality is structural), the restricted variant is 0 outside its support; the "
                "collocation matrix has row = grid point / column = basis function, the pole values are read from and the surpluses "
                "written back to the same positions, and both solve branches solve that system; the QR factors are defined on exactly "
                "the paths that use them (guard-correlated definite assignment); integrate stores and the interpolation routines look "
                "up surpluses under the same key, storing the integrator's surpluses after the integration. Unique solvability and "
                "reproduction of polynomials are numerical and NOT decided. Added during the build: derivative recursions as formal derivatives (D5), per-grid surplus tables (D6), knot spacing of the area (D7), shared quadrature nodes not modified (D8), the stored Gauss rule leggauss(int(p/2)+1) is exact for degree p for every integer p (D9, sa/gauss.py). Round 3: the value buffer handed to the in-place hierarchisation is a float array by construction (D11); whole-pole gather / scatter accepted in D2; S1-S3 (memoised collocation matrices).",
        "technique": "sibling agreement of filtered product loops, index dataflow by value terms, guard-correlated definite "
                     "assignment, key-term equality",
        "design_ref": "DESIGN.md section 3, C10",
    },
    "C11": {
        "text": "Decides structural clauses D1-D4 of C11: every member of the three version enums is dispatched by its factory with a "
                "returned instance on each branch and a raising fall-through; the two support-point weights of a Romberg / "
                "trapezoidal slice add up to the slice width and one extrapolation step uses coefficients adding up to 1 (also for "
                "points missing in the finer table), both as polynomial identities independent of spelling; the Romberg weight cache "
                "is keyed by points and levels, its other inputs are init-only, and store/lookup use the same key; the tree "
                "completion adds only the missing side at the mirror point over a snapshot of the nodes. Exactness to order 2m+1 etc. "
                "is numerical and NOT decided. Round 3: normalised container levels of multi-slice containers come from the index structure, not from the tree levels (D7); the recursive leaf collection descends only below nodes known not to be leaves (D8, round 4); S2 judges lazily memoised weights (every setter drops them) and keys of new weight caches; S1, S3.",
        "technique": "exhaustiveness of enum dispatch + return-on-all-paths, polynomial identity checking, cache-key coverage with "
                     "init-only ownership, complementary-branch checks",
        "design_ref": "DESIGN.md section 3, C11",
    },
    "C13": {
        "text": "Decides structural clauses D1-D5 of C13 on the driver loop and the error estimators: exactly one history entry per "
                "evaluation before any stop test; the two documented stop conditions as normalised relations between the error and "
                "point count OF THIS ITERATION and the caller's limits (operands identified by dataflow origin, so <= vs <, wrong "
                "operand, stale count are caught while renamings / flipped comparisons are not), evaluated before refining; refine "
                "only inside the loop; every error estimate's returned expression is >= 0 in the sign domain; the three global error "
                "estimates share the None / absolute / relative-to-reference structure. Monotone point counts and count == distinct "
                "evaluations are NOT decided. Round 3: one dictionary key per evaluated point on every path of Function.__call__ (D6, shared with C12.D4: the point count is the dictionary size); constructor arguments (norm, operation, ...) reach their attributes (S3); S1, S2.",
        "technique": "CFG dominance and must-pass-through, guard sets as normalised comparison terms with reaching-definition "
                     "resolution, sign abstract interpretation of return expressions, sibling agreement modulo renaming",
        "design_ref": "DESIGN.md section 3, C13",
    },
    "C14": {
        "text": "Decides structural clauses D1-D4 of C14: the event language of continue_adaptive_refinement allows evaluate-evaluate "
                "adjacency across a stop/continue, which is harmless only for strategies with the reset discipline (violated for "
                "extend-split and cell: known finding F-C14-1, both confirmed with concrete runs); save/restore dump the whole instance "
                "and return the loaded object through the same file parameter and serialiser; all state the continuation reads is stored "
                "on the instance by the initial call and is not re-initialised by the continuation; the meta container delegates marker "
                "resets to every per-dimension container. Equality of final structures as values is NOT decided. Round 3: generic state rules S1-S3 over the driver, the operation, Function and the refinement containers / objects.",
        "technique": "typestate/event-adjacency on the CFG combined with per-strategy accumulator discipline, attribute "
                     "read-before-store over a two-call sequence, pairing check of dump/load sites",
        "design_ref": "DESIGN.md section 3, C14",
    },
    "C16": {
        "text": "Decides structural clauses D1-D5 of C16: the full R matrices are filled with mirrored stores in their triangular loops; "
                "lambda enters the full matrices only on the diagonal, once per entry and after the plain store; every path through the "
                "right-hand-side builders scales each entry by 1/len(data) exactly once (whole-vector scaling vs. the reuse branch's "
                "per-entry scaling); at every accumulation the sign factor is the class label of the very sample being evaluated; the "
                "normalising division is guarded by a non-zero test and uses the clipped values. The Gram entries, definiteness and "
                "the agreement of the hat evaluations are numerical and NOT decided; nothing is claimed for the mass-lumped forms. Added during the build: the three hat evaluations count the centre of a hat exactly once (D7, sa/hats.py); the matrix-entry cache of the reuse branch holds lambda-free entries (D2, shared with C17.D1); uniform Gram constants as polynomial identities (D6). Round 2: cache hits receive lambda like misses (D2); the floor/ceil candidates of the per-sample right-hand-side path are de-duplicated so that a sample on a grid line names one hat (D7). Round 3: triangular loop pairs enumerate the whole triangle (D1 whole-triangle: no band); one cache object per dimension (D8, shared with C17.D5); S1-S3.",
        "technique": "paired-store check in triangular loops, guard analysis of lambda uses, exactly-once path argument on the CFG, "
                     "same-index (parallel array) checks, guarded-division check",
        "design_ref": "DESIGN.md section 3, C16",
    },
    "C17": {
        "text": "Decides only the structural clauses of C17: (D1) the matrix-entry cache stores the lambda-free value computed for the very "
                "(i, j) pair its key was computed for, and a hit is read under the membership test of the same key and flows into the "
                "same mirrored stores as a fresh value; (D2) an old right-hand-side entry is copied only for a point of the old grid "
                "whose support domain matched in both ends and all dimensions, from the matched position; (D3) the hand-over empties the "
                "old caches, refills them from all of the new ones under the same keys and restarts the new ones. Equality of results "
                "with reuse on/off and small-grid vs large-grid equality are NOT decided. Added during the build: old support domains / old points come from the stored mesh of the same key as the copied right-hand side (D2); hat centre counted once in the implementations behind the small- and large-grid paths (D4); per-dimension caches are distinct objects (D5). Round 2: cache hits regularised like misses (D1); the old point list is listed from the old mesh like the current one from the current mesh, per boundary branch (D2; found F-C17-2, repaired); stored index ranges of the data bins contain both ends when sliced (D6, constants read off with the polynomial domain; found F-C17-1, repaired); each hat listed once per sample (D4). Round 3: S2 judges caches added to the density estimation / its base class (key covers parameters such as the mesh; attribute inputs drop the cache); pair routines receive the support of the hat they receive the point of, through local temporaries too.",
        "technique": "dominance + value-term checks around the cache store/read, guard-set and index checks of the copy, hand-over "
                     "assignment ordering on the CFG",
        "design_ref": "DESIGN.md section 3, C17",
    },
    "C18": {
        "text": "Decides structural clauses D1-D4 of C18 on DataSet: the refusal in concatenate must depend on the other set's scaling "
                "(violated today: recorded known finding), every scaling attribute written by the scaling methods is carried by "
                "_update_internal and every DataSet constructed in a DataSet method flows through it, samples and labels are always "
                "rebuilt with the same selector (delete / slice / predicate / shuffle / swap), and remove_samples rejects before it stores. "
                "Necessary conditions on every path; the numerical clauses (min/max on range ends, revert restores samples) are NOT decided. Added during the build: scaling bookkeeping (D5, branch membership by evaluating the tests over (override, scaled)); split_labels makes one piece per label value present, each piece holding exactly its samples (D6). Round 2: array ownership (D7): no in-place element store into the sample / label arrays of a DataSet that was not built from fresh arrays in the same function, and no in-place modification of attributes that _update_internal hands over by reference (found F-C18-2 and F-C18-3, both repaired); move_boundaries_to_front reorders both arrays with one permutation. Round 3: D7 follows numpy views of the sample arrays (np.asarray / reshape / .T) and reports whole-array in-place updates through locals; S1-S3.",
        "technique": "field-sensitive guard dependence, attribute-set inclusion, must-pass-through on the CFG, selector value-term equality "
                     "for parallel arrays, dominance of raising guards over stores",
        "design_ref": "DESIGN.md section 3, C18",
    },
    "C19": {
        "text": "Decides structural clauses D1-D6 of C19: no result of a pure value-returning DataSet method is dropped anywhere in the "
                "package (effect analysis; this rule found the repaired test_data defect), learning-time scaling attributes are init-only "
                "and re-applied by the same shift/scale/shift triple with consistent constants, _classificate takes the arg-max over all "
                "classifiers on the class axis, evaluation summaries are computed from the same sequences and total, earlier calculated "
                "classes are only extended, and only range-filtered data is classified. Correctness of densities / label = index is NOT decided. Added during the build: quantifier analysis of the out-of-range test (any / min below, any / max above, joined by or) in D6; unlabelled samples set aside (D7); memo tables of the density evaluation live no longer than the inputs of their values (D8). Round 2: learning-time scaling attributes are not stored again once _initialize used them (D2, None-guards correlated); calculated classes and stored testing data are extended by the same samples on the same paths (D5). Round 3/4: removal thresholds lie strictly outside the learning range and the learning scaling is applied only to data that is not scaled yet (D6); re-applying the learning scaling does not write into arrays handed in by the caller (D10, shared with C18.D7); S1-S3.",
        "technique": "method effect (purity) analysis + dropped-result scan, init-only ownership, sibling call-sequence agreement, value-term "
                     "pattern checks, def-use derivation from the out-of-range filter",
        "design_ref": "DESIGN.md section 3, C19",
    },
    "C20": {
        "text": "Decides structural clauses D1-D4 of C20: literal-kind flow from Regression's default arguments to "
                "MinMaxScaler(feature_range=...) against the constraint declared in the installed scikit-learn source (found the repaired "
                "default-construction defect), identical 1/m factor and design matrix on both sides of the normal equations in both "
                "solvers with lambda on the selected matrix and plain lstsq iff lambda == 0, mirrored stores in triangular matrix "
                "builders, and a sum-normalisation at every coefficient store of the six Opticom variants. Gram-matrix values and "
                "definiteness are NOT decided. Added during the build: structure of the uniform gradient Gram matrix incl. the level of the integrated dimension (D5, known finding F-C20-2), hat centre counted once (D6), surpluses solved in the same call (D7), structure of the non-uniform smoothing matrix (D8, known findings F-C20-3a/b/c). Round 3: triangular loop pairs of the matrix builders enumerate the whole triangle (D3 whole-triangle); S1 (surplus table as default argument), S2, S3.",
        "technique": "inter-procedural literal-kind dataflow, value-term decomposition of the normal equations, paired-store check in "
                     "triangular loops, reaching-definition based normalisation idiom",
        "design_ref": "DESIGN.md section 3, C20",
        "note": "The sklearn constraint is read by parsing /venv/lib/python3*/site-packages/sklearn/preprocessing/_data.py (not imported); "
                "if absent, `tuple` is assumed and recorded in the evidence.",
    },
}

NOT_APPLICABLE = {
    "C04": "every clause is a floating-point equality over refinement histories; the one structural candidate (lmin clamp of the "
           "subtraction value) is not uniform in the code and has no failing input, so arming it would be a brittle proxy "
           "(DESIGN.md section 5); its structural premises are claimed under C03, C05, C06, C07",
    "C08": "point counts, containment, weight sums and polynomial exactness degrees are arithmetic over runtime levels and box "
           "coordinates; no sound static argument in reach (DESIGN.md section 5)",
}


def main():
    props = [json.loads(l) for l in open(os.path.join(VERIF, "properties.jsonl"))]
    checks = []
    na = []
    for p in props:
        pid = p["id"]
        if pid in CLAIMED and os.path.exists(os.path.join(VERIF, "sa", "props", pid + ".py")):
            c = CLAIMED[pid]
            checks.append({
                "property_id": pid,
                "quick_cmd": "./check %s" % pid,
                "thorough_cmd": "./check %s --tier thorough" % pid,
                "evidence_file": "/verif/evidence/%s.json" % pid,
                "replay_cmd_template": "./check %s --replay {path}" % pid,
                "engine": "sa",
                "level_claimed": {"category": "other", "text": c["text"], "design_ref": c["design_ref"]},
                "level_note": NOTE_COMMON + (" " + c["note"] if c.get("note") else ""),
                "technique": c["technique"],
            })
        elif pid in NOT_APPLICABLE:
            na.append({"property_id": pid, "reason": NOT_APPLICABLE[pid]})
        else:
            na.append({"property_id": pid, "reason": "check not built yet (work in progress); planned clauses are in DESIGN.md section 3"})
    m = {
        "version": 1,
        "setup_cmd": "./check --selfcheck",
        "hooks": {
            "guard": "SPARSESPACE_VERIF",
            "enable": "none needed: the checks parse /repo/sparseSpACE/*.py as they are on disk; there is no instrumentation and no hook commit",
            "baseline_off_cmd": "cd /repo && /venv/bin/python -m pytest -ra -q -p no:cacheprovider --timeout=900 --continue-on-collection-errors",
            "source_commits": [],
            "add_only": True,
        },
        "engines": [{"name": "sa", "path": "/verif/sa", "serves_properties": [c["property_id"] for c in checks],
                     "kind_free_text": "stdlib-ast static analysis: per-function CFG with dominators, guard-correlated dataflow, "
                                       "value terms, class-hierarchy call graph, small abstract domains; self-tested by source variants"}],
        "checks": checks,
        "notes": "Static analysis only (DESIGN.md). exit 0 ok / 1 VIOLATION / 2 ANALYSIS-ERROR. Known findings: known_findings.json; "
                 "triaged reports: triage.json. Thorough tier additionally runs the checker self-test (breaking + neutral source "
                 "variants and the seeded patches) against the current tree.",
        "not_applicable": na,
    }
    with open(os.path.join(VERIF, "MANIFEST.json"), "w") as fh:
        json.dump(m, fh, indent=1)
    print("MANIFEST: %d checks, %d not applicable" % (len(checks), len(na)))


if __name__ == "__main__":
    main()
