#!/usr/bin/env python3
"""Apply each diff (default: /tmp/wt/out/*/{mut,ref}*.diff) to a scratch copy of /repo/sparseSpACE (removed afterwards) and
run all checks (or --props=C01,C02) on it.  Prints which properties report an unlisted violation / analysis error.
  mut*.diff are expected to be detected by the property of their directory name, ref*.diff (neutral) by nothing."""
import glob
import multiprocessing
import os
import shutil
import subprocess
import sys
import tempfile

VERIF = os.path.dirname(os.path.dirname(os.path.abspath(__file__)))
sys.path.insert(0, VERIF)
from sa import report                       # noqa: E402
from sa.loader import AnalysisError, PKG    # noqa: E402
from sa.main import available, run_property  # noqa: E402

PROPS = None


def one(path):
    import warnings
    warnings.simplefilter("ignore")
    base = tempfile.mkdtemp(prefix="sa-diff-")
    try:
        shutil.copytree(os.path.join("/repo", PKG), os.path.join(base, PKG), ignore=shutil.ignore_patterns("__pycache__", "*.pyc"))
        r = subprocess.run(["patch", "-p1", "-s", "-d", base, "-i", path], capture_output=True, text=True)
        if r.returncode != 0:
            return path, None, "patch does not apply: " + (r.stdout + r.stderr)[:200]
        hits = {}
        for prop in (PROPS or available()):
            try:
                ctx, _m = run_property(prop, base)
                viol, kn, tr = report.classify(prop, ctx.instances)
                if viol:
                    hits[prop] = sorted({"%s %s: %s" % (v.rule, v.key.split("::")[-1], v.detail[:150]) for v in viol})
            except AnalysisError as e:
                hits[prop] = ["ANALYSIS-ERROR %s" % e]
            except Exception as e:                       # noqa: BLE001
                hits[prop] = ["CRASH %s %s" % (type(e).__name__, e)]
        return path, hits, None
    finally:
        shutil.rmtree(base, ignore_errors=True)


def main():
    global PROPS
    paths = [a for a in sys.argv[1:] if not a.startswith("-")]
    for a in sys.argv[1:]:
        if a.startswith("--props="):
            PROPS = a.split("=", 1)[1].split(",")
    if not paths:
        paths = sorted(glob.glob("/tmp/wt/out/*/mut*.diff") + glob.glob("/tmp/wt/out/*/ref*.diff"))
    with multiprocessing.get_context("fork").Pool(8) as pool:
        res = pool.map(one, paths)
    bad = 0
    for path, hits, err in res:
        d = os.path.basename(os.path.dirname(path))
        name = d + "/" + os.path.basename(path)
        if err:
            print("%-22s %s" % (name, err))
            continue
        neutral = os.path.basename(path).startswith("ref")
        target = d[-3:] if d.startswith("R") else d
        if neutral:
            status = "silent" if not hits else "FALSE ALARM"
        else:
            real = {p_: l_ for p_, l_ in hits.items() if not all(x.startswith(("ANALYSIS-ERROR", "CRASH")) for x in l_)}
            if hits and not real:
                status = "ONLY-ANALYSIS-ERROR"
            else:
                status = "detected" if target in real else ("detected elsewhere " + ",".join(sorted(real)) if real else "MISSED")
        if status in ("FALSE ALARM", "MISSED", "ONLY-ANALYSIS-ERROR"):
            bad += 1
        print("%-22s %s %s" % (name, status, "" if neutral and not hits else sorted(hits)))
        if neutral or "-v" in sys.argv:
            for p, lines in sorted(hits.items()):
                for ln in lines:
                    print("        %s: %s" % (p, ln))
    return 1 if bad else 0


if __name__ == "__main__":
    sys.exit(main())
