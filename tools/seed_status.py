#!/usr/bin/env python3
"""For every confirmed seeded change under /verif/seeded/<id>/ apply patch.diff to a scratch copy of /repo/sparseSpACE
(outside /repo and /verif, removed afterwards), run every claimed check on it and record which properties / rules report
it in meta.json (`detected_by`, `detecting_rules`).  Prints a table; `--markdown` prints the DESIGN.md table."""
import glob
import json
import multiprocessing
import os
import shutil
import subprocess
import sys
import tempfile

VERIF = os.path.dirname(os.path.dirname(os.path.abspath(__file__)))
sys.path.insert(0, VERIF)
from sa import report                      # noqa: E402
from sa.loader import AnalysisError, PKG   # noqa: E402
from sa.main import available, run_property  # noqa: E402


def one(sid):
    import warnings
    warnings.simplefilter("ignore")
    d = os.path.join(VERIF, "seeded", sid)
    base = tempfile.mkdtemp(prefix="sa-seed-")
    try:
        shutil.copytree(os.path.join("/repo", PKG), os.path.join(base, PKG), ignore=shutil.ignore_patterns("__pycache__", "*.pyc"))
        r = subprocess.run(["patch", "-p1", "-s", "-d", base, "-i", os.path.join(d, "patch.diff")], capture_output=True, text=True)
        if r.returncode != 0:
            return sid, None, "patch does not apply: " + (r.stdout + r.stderr)[:200]
        hits = {}
        for prop in available():
            try:
                ctx, _m = run_property(prop, base)
                viol, kn, tr = report.classify(prop, ctx.instances)
                if viol:
                    hits[prop] = sorted({"%s %s" % (v.rule, v.key.split("::")[-1]) for v in viol})
            except AnalysisError as e:
                hits.setdefault("_errors", []).append("%s: %s" % (prop, e))
        return sid, hits, None
    finally:
        shutil.rmtree(base, ignore_errors=True)


def main():
    sids = sorted(os.path.basename(os.path.dirname(p)) for p in glob.glob(os.path.join(VERIF, "seeded", "*", "meta.json")))
    with multiprocessing.get_context("fork").Pool(min(12, max(1, len(sids)))) as pool:
        res = pool.map(one, sids)
    rows = []
    for sid, hits, err in res:
        mp = os.path.join(VERIF, "seeded", sid, "meta.json")
        m = json.load(open(mp))
        if err:
            print("%-12s %s" % (sid, err))
            continue
        errors = hits.pop("_errors", [])
        m["detected_by"] = sorted(hits)
        m["detecting_rules"] = hits
        if errors:
            m["analysis_errors_on_patched_tree"] = errors
        json.dump(m, open(mp, "w"), indent=1)
        rows.append((sid, m.get("property"), sorted(hits), hits, errors, m.get("what_it_breaks", "")))
        print("%-12s target=%s detected_by=%s %s" % (sid, m.get("property"), sorted(hits) or "-", ("ERRORS " + str(errors)) if errors else ""))
        for p, rs in hits.items():
            for r_ in rs:
                print("             %s" % r_)
    if "--markdown" in sys.argv:
        print()
        print("| seed | breaks | detected by |")
        print("|------|--------|-------------|")
        for sid, prop, props, hits, errors, what in rows:
            det = "; ".join("%s (%s)" % (p, ", ".join(x.split(" ")[0] for x in hits[p])) for p in props) or "**not detected**"
            print("| %s | %s | %s |" % (sid, (what or "")[:230], det))
    return 0


if __name__ == "__main__":
    sys.exit(main())
