#!/usr/bin/env python3
"""Freeze which attributes every class of the pinned tree stores (self.X = ..., class-level names) and which module-level names exist:
sa/known_attrs.json.  sa/statecheck.py judges only caches kept in attributes that are NOT in this table (new to the pinned tree).
Run once against the tree the rules were written for: tools/gen_known_attrs.py [/repo]"""
import json
import os
import sys

VERIF = os.path.dirname(os.path.dirname(os.path.abspath(__file__)))
sys.path.insert(0, VERIF)
from sa.loader import Program          # noqa: E402
from sa import statecheck              # noqa: E402
import ast                             # noqa: E402


def main():
    repo = sys.argv[1] if len(sys.argv) > 1 else "/repo"
    prog = Program(repo)
    raw = statecheck.raw_of(prog)
    classes = {q: sorted(statecheck.class_attrs_written(cd)) for q, cd in sorted(raw.classes.items())}
    modules = {}
    for m, tree in sorted(raw.trees.items()):
        names = set()
        for st in tree.body:
            if isinstance(st, ast.Assign):
                for t in st.targets:
                    if isinstance(t, ast.Name):
                        names.add(t.id)
        modules[m] = sorted(names)
    ctor = {q: [list(x) for x in statecheck.ctor_param_table(cd)] for q, cd in sorted(raw.classes.items())}
    ctor = {q: v for q, v in ctor.items() if v}
    with open(os.path.join(VERIF, "sa", "known_attrs.json"), "w") as fh:
        functions = sorted(["%s.%s" % (q, m.name) for q, cd in raw.classes.items() for m in statecheck.methods_of(cd)] +
                           ["%s.%s" % (m, st.name) for m, tree in raw.trees.items() for st in tree.body if isinstance(st, ast.FunctionDef)])
        json.dump({"classes": classes, "modules": modules, "ctor": ctor, "functions": functions}, fh, indent=0, sort_keys=True)
    print("%d constructor argument -> attribute pairs" % sum(len(v) for v in ctor.values()))
    print("%d classes, %d attributes" % (len(classes), sum(len(v) for v in classes.values())))


if __name__ == "__main__":
    main()
