#!/usr/bin/env python3
"""Dev aid: list string literals in the rule modules that coincide with LOCAL variable or PARAMETER names of the analysed
package (a rule keyed on such a name breaks under a neutral rename).  Attribute, method, class and keyword names are not
listed (they are API)."""
import ast, glob, os, sys
locs, attrs = set(), set()
for f in glob.glob("/repo/sparseSpACE/*.py"):
    t = ast.parse(open(f).read())
    for n in ast.walk(t):
        if isinstance(n, (ast.FunctionDef, ast.Lambda)):
            a = n.args
            for x in a.posonlyargs + a.args + a.kwonlyargs:
                locs.add(x.arg)
        if isinstance(n, ast.Name) and isinstance(n.ctx, ast.Store):
            locs.add(n.id)
        if isinstance(n, ast.Attribute):
            attrs.add(n.attr)
        if isinstance(n, (ast.FunctionDef, ast.ClassDef)):
            attrs.add(n.name)
        if isinstance(n, ast.keyword) and n.arg:
            attrs.add(n.arg)
import builtins
locs -= {"self", "cls", "np", "math"}
locs -= set(dir(builtins))
locs -= {"call", "cmp", "copy", "list", "tuple", "comp", "slice", "elem", "idx", "lambda", "bool", "not", "neg", "unpack", "ifexp", "op",
         "stmt", "test", "for", "with", "join", "entry", "exit", "raise", "assign", "aug", "plain", "key", "kind", "override", "break", "neutral"}
locs = {x for x in locs if len(x) >= 3}
for f in sorted(glob.glob(os.path.join(os.path.dirname(__file__), "..", "sa", "props", "C*.py"))):
    if len(sys.argv) > 1 and os.path.basename(f)[:3] not in sys.argv[1:]:
        continue
    t = ast.parse(open(f).read())
    doc = {id(n.value) for n in ast.walk(t) if isinstance(n, ast.Expr) and isinstance(n.value, ast.Constant)}
    for n in ast.walk(t):
        if isinstance(n, ast.Constant) and isinstance(n.value, str) and id(n) not in doc and n.value in locs:
            tag = "" if n.value not in attrs else " (also an attribute/method/keyword name)"
            print("%s:%d  %r%s" % (os.path.basename(f), n.lineno, n.value, tag))
