#!/usr/bin/env python3
"""File behaviour-preserving refactorings (produced by independent sub-agents that saw only a property text and a scratch
worktree) as permanent false-alarm regressions:  /verif/neutral/<RCxx-refN>/{patch.diff, meta.json}.

usage: tools/file_neutral.py [--src=/tmp/wt/out3 --tag=r2] RC01 [RC02 ...]     (reads <src>/<RCxx>/ref*.diff, default src /tmp/wt/out;
       with --tag=r2 the ids are RCxx-r2refN)

A patch is filed only if every claimed check is silent on the patched tree.  meta.json lists the properties whose analysed
modules the patch touches; the self-test of those properties applies the patch and demands silence."""
import glob
import json
import os
import re
import shutil
import sys

VERIF = os.path.dirname(os.path.dirname(os.path.abspath(__file__)))
sys.path.insert(0, VERIF)
from tools.try_diffs import one                     # noqa: E402
from sa.loader import Program                       # noqa: E402
from sa.main import available, run_property         # noqa: E402


def modules_of_props():
    prog = Program("/repo")
    out = {}
    for p in available():
        ctx, _m = run_property(p, "/repo", prog=None)
        mods = set()
        for q in ctx.analysed_functions:
            mods.add(q.split(".")[0])
        for i in ctx.instances:
            m = re.match(r"sparseSpACE/(\w+)\.py", i.loc or "")
            if m:
                mods.add(m.group(1))
        out[p] = mods
    return out


def main():
    mods = modules_of_props()
    rc = 0
    import multiprocessing
    SRC, TAG = "/tmp/wt/out", ""
    dirs = []
    for a in sys.argv[1:]:
        if a.startswith("--src="):
            SRC = a.split("=", 1)[1]
        elif a.startswith("--tag="):
            TAG = a.split("=", 1)[1]
        else:
            dirs.append(a)
    paths = [p_ for d in dirs for p_ in sorted(glob.glob("%s/%s/ref*.diff" % (SRC, d)))]
    with multiprocessing.get_context("fork").Pool(8) as pool:
        results = dict((r[0], r) for r in pool.map(one, paths))
    for d in dirs:
        for path in sorted(glob.glob("%s/%s/ref*.diff" % (SRC, d))):
            sid = "%s-%s%s" % (d, TAG, os.path.basename(path)[:-5])
            _p, hits, err = results[path]
            if err or hits:
                print("%-14s NOT filed: %s" % (sid, err or sorted(hits)))
                rc = 1
                continue
            files = set(re.findall(r"^\+\+\+ b/sparseSpACE/(\w+)\.py", open(path).read(), re.M))
            props = sorted(p for p, ms in mods.items() if ms & files)
            own = d[1:] if d.startswith("R") else d
            if own in available() and own not in props:
                props.append(own)
            out = os.path.join(VERIF, "neutral", sid)
            os.makedirs(out, exist_ok=True)
            shutil.copy(path, os.path.join(out, "patch.diff"))
            json.dump({"id": sid, "written_for": own, "files": sorted(files), "props": sorted(props),
                       "origin": "independent sub-agent given only the property text and a scratch worktree; asked for behaviour-preserving "
                                 "refactorings; equivalence shown by the agent with trace comparison and the touching tests"},
                      open(os.path.join(out, "meta.json"), "w"), indent=1)
            print("%-14s filed, props=%s" % (sid, sorted(props)))
    return rc


if __name__ == "__main__":
    sys.exit(main())
