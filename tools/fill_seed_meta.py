#!/usr/bin/env python3
"""Copy the hand-written descriptions (seeded/descriptions_r2.json: what_it_breaks / needs_to_manifest, each written from
the patch and the seeding agent's demonstration) into the meta.json of every confirmed seed that still lacks them."""
import json
import os

VERIF = os.path.dirname(os.path.dirname(os.path.abspath(__file__)))
desc = json.load(open(os.path.join(VERIF, "seeded", "descriptions_r2.json")))
for sid, d in sorted(desc.items()):
    mp = os.path.join(VERIF, "seeded", sid, "meta.json")
    if not os.path.exists(mp):
        print("%-12s not filed (yet)" % sid)
        continue
    m = json.load(open(mp))
    changed = False
    for k in ("what_it_breaks", "needs_to_manifest"):
        if not m.get(k):
            m[k] = d[k]
            changed = True
    if changed:
        json.dump(m, open(mp, "w"), indent=1)
        print("%-12s filled" % sid)
