#!/usr/bin/env python3
"""Run only the generic state rules (sa/statecheck.py, S1/S2) of every property on each diff applied to a scratch copy.
usage: tools/try_state.py [diff ...]   (default: every filed neutral refactoring, which must all be silent)"""
import glob
import multiprocessing
import os
import shutil
import subprocess
import sys
import tempfile

VERIF = os.path.dirname(os.path.dirname(os.path.abspath(__file__)))
sys.path.insert(0, VERIF)
from sa import report, statecheck            # noqa: E402
from sa.loader import PKG, Program           # noqa: E402


def one(path):
    import warnings
    warnings.simplefilter("ignore")
    base = tempfile.mkdtemp(prefix="sa-state-")
    try:
        shutil.copytree(os.path.join("/repo", PKG), os.path.join(base, PKG), ignore=shutil.ignore_patterns("__pycache__", "*.pyc"))
        r = subprocess.run(["patch", "-p1", "-s", "-d", base, "-i", path], capture_output=True, text=True)
        if r.returncode != 0:
            return path, ["patch does not apply"]
        prog = Program(base)
        hits = []
        for prop in sorted(statecheck.SCOPES):
            ctx = report.Ctx(prop, prog, "quick")
            try:
                statecheck.run(prog, ctx, prop)
            except Exception as e:          # noqa: BLE001
                hits.append("%s: %s %s" % (prop, type(e).__name__, e))
            hits += ["%s %s: %s" % (i.rule, i.key, i.detail[:200]) for i in ctx.instances if i.status == "violation"]
        return path, hits
    finally:
        shutil.rmtree(base, ignore_errors=True)


def main():
    paths = sys.argv[1:] or sorted(glob.glob(os.path.join(VERIF, "neutral", "*", "patch.diff")))
    with multiprocessing.get_context("fork").Pool(12) as pool:
        res = pool.map(one, paths)
    bad = 0
    for path, hits in res:
        if hits:
            bad += 1
            print(os.path.basename(os.path.dirname(path)) + "/" + os.path.basename(path))
            for h in hits:
                print("     " + h)
    print("%d diffs, %d with reports" % (len(res), bad))
    return 1 if bad else 0


if __name__ == "__main__":
    sys.exit(main())
