"""Rule instances, verdict bookkeeping, known findings / triage matching and the
evidence writer."""
import hashlib
import json
import os
import time

from .loader import AnalysisError

VERIF = os.path.dirname(os.path.dirname(os.path.abspath(__file__)))


class Instance:
    __slots__ = ("rule", "key", "loc", "status", "detail", "slots")

    def __init__(self, rule, key, loc, status, detail="", slots=None):
        self.rule = rule
        self.key = key
        self.loc = loc
        self.status = status      # ok | violation | note
        self.detail = detail
        self.slots = slots or {}

    def as_dict(self):
        return {"rule": self.rule, "key": self.key, "loc": self.loc, "status": self.status,
                "detail": self.detail, "slots": self.slots}


class Ctx:
    """Collects rule instances for one property run."""

    def __init__(self, prop, prog, tier="quick"):
        self.prop = prop
        self.prog = prog
        self.tier = tier
        self.instances = []
        self.floors = {}         # rule -> (found, floor)
        self.analysed_functions = set()
        self.assumptions = []

    def touch(self, *funcs):
        for f in funcs:
            self.analysed_functions.add(getattr(f, "qual", str(f)))
            # a whole-method memo that was set aside for the analysis (loader.strip_unknown_memoisations) is reported once
            mod = getattr(f, "module", None)
            for (cname, mname, attr, line) in getattr(mod, "memos", []) or []:
                if getattr(f, "cls", None) is not None and f.cls.name == cname and f.name == mname:
                    key = "%s::memoised:%s" % (f.qual, attr)
                    if not any(i.key == key for i in self.instances):
                        self.note("memo", key, f.loc(), "%s keeps its result in self.%s per argument; the computation is analysed as if it ran on every "
                                  "call, dropping the cache when its inputs change is decided only where a rule says so" % (mname, attr))

    def ok(self, rule, key, loc, detail="", **slots):
        self.instances.append(Instance(rule, key, loc, "ok", detail, slots))

    def violation(self, rule, key, loc, detail="", **slots):
        self.instances.append(Instance(rule, key, loc, "violation", detail, slots))

    def note(self, rule, key, loc, detail="", **slots):
        self.instances.append(Instance(rule, key, loc, "note", detail, slots))

    def check(self, cond, rule, key, loc, ok_detail="", bad_detail="", **slots):
        if cond:
            self.ok(rule, key, loc, ok_detail, **slots)
        else:
            self.violation(rule, key, loc, bad_detail or ok_detail, **slots)
        return cond

    def floor(self, rule, found, floor, what=""):
        """Fail closed: a rule that finds fewer instances than were confirmed by hand
        means the anchor moved; that is an analysis error, not a pass."""
        self.floors[rule] = (found, floor)
        if found < floor:
            raise AnalysisError("floor not met for %s: found %d %s, confirmed floor is %d (anchor vanished or idiom not recognised)"
                                % (rule, found, what, floor))

    def assume(self, text):
        if text not in self.assumptions:
            self.assumptions.append(text)


def load_json(path, default):
    if not os.path.exists(path):
        return default
    with open(path) as fh:
        return json.load(fh)


def _match(entry, inst):
    return entry.get("rule") == inst.rule and entry.get("key") == inst.key


def classify(prop, instances):
    """Split violations into unlisted violations, known findings and triaged reports."""
    known = load_json(os.path.join(VERIF, "known_findings.json"), {"findings": []})["findings"]
    triage = load_json(os.path.join(VERIF, "triage.json"), {"entries": []})["entries"]
    viol, kn, tr = [], [], []
    for inst in instances:
        if inst.status != "violation":
            continue
        hit = None
        for e in known:
            if e.get("property") == prop and e.get("status") == "known" and _match(e, inst):
                hit = e
                break
        if hit is not None:
            kn.append((inst, hit))
            continue
        thit = None
        for e in triage:
            if e.get("property") == prop and _match(e, inst):
                thit = e
                break
        if thit is not None:
            tr.append((inst, thit))
            continue
        viol.append(inst)
    return viol, kn, tr


def write_violation(prop, inst, repo_root):
    d = os.path.join(VERIF, "out", "violations")
    os.makedirs(d, exist_ok=True)
    h = hashlib.sha1((inst.rule + "|" + inst.key).encode()).hexdigest()[:10]
    path = os.path.join(d, "%s-%s.json" % (prop, h))
    with open(path, "w") as fh:
        json.dump({"property": prop, "repo": repo_root, **inst.as_dict()}, fh, indent=1)
    return path


def write_evidence(prop, ctx, tier, seed, wall, viol, kn, tr, explanation, extra=None, path=None):
    insts = ctx.instances
    per_rule = {}
    for i in insts:
        r = per_rule.setdefault(i.rule, {"ok": 0, "violation": 0, "note": 0})
        r[i.status] += 1
    obligations = sum(1 for i in insts if i.status in ("ok", "violation"))
    discharged = sum(1 for i in insts if i.status == "ok")
    keys = {(i.rule, i.key) for i in insts if i.status in ("ok", "violation")}
    samples = [i.as_dict() for i in insts if i.status != "note"]
    stats = ctx.prog.stats()
    cov = {
        "explanation": explanation,
        "obligations": obligations,
        "discharged": discharged,
        "evaluations": max(obligations, 1),
        "distinct_nontrivial": len(keys),
        "rule": "one evaluation = one rule instance (rule id + construct key) found by role in the current source and decided "
                "on its CFG / call graph / value terms; distinct = distinct (rule, construct key) pairs; every instance is "
                "non-trivial in that it names a concrete construct of /repo",
        "samples": samples[:400],
        "instances_per_rule": per_rule,
        "floors": {k: {"found": v[0], "floor": v[1]} for k, v in ctx.floors.items()},
        "functions_analysed": sorted(ctx.analysed_functions),
        "modules_parsed": stats["modules"],
        "classes": stats["classes"],
        "functions_in_package": stats["functions"],
        "module_digests": stats["module_digests"],
        "known_findings_hit": [{"rule": i.rule, "key": i.key, "loc": i.loc} for i, _ in kn],
        "triage_hit": [{"rule": i.rule, "key": i.key, "reason": e.get("reason", "")} for i, e in tr],
        "notes": [i.as_dict() for i in insts if i.status == "note"][:100],
        "checker_cmd": "./check %s --tier %s" % (prop, tier),
        "trusted_base": ["python ast parser", "the engine in /verif/sa (CFG, dominators, terms, CHA)"],
        "repo_root": ctx.prog.repo_root,
    }
    if extra:
        cov.update(extra)
    ev = {
        "property_id": prop,
        "tier": tier,
        "seed": int(seed),
        "level": "other",
        "coverage": cov,
        "assumptions": ctx.assumptions,
        "wall_s": round(wall, 3),
        "violations": len(viol),
    }
    path = path or os.path.join(VERIF, "evidence", "%s.json" % prop)
    os.makedirs(os.path.dirname(path), exist_ok=True)
    tmp = path + ".tmp%d" % os.getpid()
    with open(tmp, "w") as fh:
        json.dump(ev, fh, indent=1, default=str)
    os.replace(tmp, path)
    return path
