"""Guard-correlated definite assignment and a few def/use helpers.

The definite-assignment analysis is a forward must-analysis on the CFG whose
state is a set of (assigned-names, known-branch-facts) pairs: two branch tests
are correlated when they are the same normalised expression and none of its
operands is written in between (facts are killed by stores to the names /
attributes they mention and by calls that may store those attributes)."""
import ast

from .cfg import cfg_of, walk_local
from .terms import Env, Terms, negate, subterms

MAX_STATES = 48


def bound_names(stmt):
    """Names bound by executing the CFG node of this statement (not its nested blocks)."""
    out = set()
    if isinstance(stmt, ast.Assign):
        for t in stmt.targets:
            out |= _names_in_target(t)
    elif isinstance(stmt, (ast.AnnAssign, ast.AugAssign)):
        if not (isinstance(stmt, ast.AnnAssign) and stmt.value is None):
            out |= _names_in_target(stmt.target)
    elif isinstance(stmt, (ast.Import, ast.ImportFrom)):
        for al in stmt.names:
            out.add((al.asname or al.name).split(".")[0])
    elif isinstance(stmt, (ast.FunctionDef, ast.ClassDef, ast.AsyncFunctionDef)):
        out.add(stmt.name)
    for n in walk_local(stmt) if not isinstance(stmt, (ast.FunctionDef, ast.ClassDef, ast.For, ast.While, ast.If,
                                                       ast.With, ast.Try)) else ():
        if isinstance(n, ast.NamedExpr) and isinstance(n.target, ast.Name):
            out.add(n.target.id)
    return out


def _names_in_target(t):
    out = set()
    if isinstance(t, ast.Name):
        out.add(t.id)
    elif isinstance(t, (ast.Tuple, ast.List)):
        for e in t.elts:
            out |= _names_in_target(e)
    elif isinstance(t, ast.Starred):
        out |= _names_in_target(t.value)
    return out


def stored_attrs(stmt):
    """Attribute names stored (plain, augmented, element store, mutator call) by this statement."""
    out = set()
    for n in walk_local(stmt):
        if isinstance(n, (ast.Attribute, ast.Subscript)) and isinstance(getattr(n, "ctx", None), (ast.Store, ast.Del)):
            root = n
            while isinstance(root, ast.Subscript):
                root = root.value
            if isinstance(root, ast.Attribute):
                out.add(root.attr)
    return out


def loads_in(node, skip_bound=True):
    """(Name node) loads inside an expression/statement, skipping names bound by enclosed
    comprehensions / lambdas."""
    res = []

    def visit(n, bound):
        if isinstance(n, ast.Name):
            if isinstance(n.ctx, ast.Load) and n.id not in bound:
                res.append(n)
            return
        if isinstance(n, (ast.ListComp, ast.SetComp, ast.GeneratorExp, ast.DictComp)):
            b = set(bound)
            for g in n.generators:
                # the first iterable is evaluated in the enclosing scope
                visit(g.iter, b if g is not n.generators[0] else bound)
                b |= _names_in_target(g.target)
                for c in g.ifs:
                    visit(c, b)
            if isinstance(n, ast.DictComp):
                visit(n.key, b)
                visit(n.value, b)
            else:
                visit(n.elt, b)
            return
        if isinstance(n, ast.Lambda):
            a = n.args
            b = set(bound) | {x.arg for x in a.posonlyargs + a.args + a.kwonlyargs}
            if a.vararg:
                b.add(a.vararg.arg)
            if a.kwarg:
                b.add(a.kwarg.arg)
            for d in a.defaults + [k for k in a.kw_defaults if k is not None]:
                visit(d, bound)
            visit(n.body, b)
            return
        if isinstance(n, (ast.FunctionDef, ast.AsyncFunctionDef, ast.ClassDef)):
            for d in n.decorator_list:
                visit(d, bound)
            return
        for ch in ast.iter_child_nodes(n):
            visit(ch, bound)
    visit(node, set())
    return res


class Effects:
    """Name-based may-store summary: attribute names a call to a function *named* f may store,
    closed transitively over calls resolved by simple name (a sound over-approximation of
    any receiver-type-based resolution inside the package)."""

    def __init__(self, prog):
        self.prog = prog
        direct = {}
        calls = {}
        for fi in prog.functions.values():
            st = set()
            cs = set()
            for n in walk_local(fi.node):
                if isinstance(n, ast.stmt):
                    pass
                if isinstance(n, (ast.Attribute, ast.Subscript)) and isinstance(getattr(n, "ctx", None), (ast.Store, ast.Del)):
                    root = n
                    while isinstance(root, ast.Subscript):
                        root = root.value
                    if isinstance(root, ast.Attribute):
                        st.add(root.attr)
                if isinstance(n, ast.Call):
                    if isinstance(n.func, ast.Attribute):
                        cs.add(n.func.attr)
                        if n.func.attr in ("append", "add", "pop", "remove", "update", "extend", "sort", "clear", "insert"):
                            r = n.func.value
                            while isinstance(r, ast.Subscript):
                                r = r.value
                            if isinstance(r, ast.Attribute):
                                st.add(r.attr)
                    elif isinstance(n.func, ast.Name):
                        cs.add(n.func.id)
                    # bound methods passed as arguments (time_func idiom)
                    for a in n.args:
                        if isinstance(a, ast.Attribute):
                            cs.add(a.attr)
            direct.setdefault(fi.name, set()).update(st)
            calls.setdefault(fi.name, set()).update(cs)
        # class instantiation calls __init__
        for ci in prog.classes.values():
            calls.setdefault(ci.name, set()).add("__init__")
            direct.setdefault(ci.name, set())
        self.may_store = {k: set(v) for k, v in direct.items()}
        changed = True
        while changed:
            changed = False
            for f, cs in calls.items():
                cur = self.may_store.setdefault(f, set())
                before = len(cur)
                for c in cs:
                    if c in self.may_store:
                        cur |= self.may_store[c]
                if len(cur) != before:
                    changed = True

    def call_may_store(self, callnode):
        f = callnode.func
        name = f.attr if isinstance(f, ast.Attribute) else (f.id if isinstance(f, ast.Name) else None)
        out = set(self.may_store.get(name, ())) if name else set()
        for a in callnode.args:
            if isinstance(a, ast.Attribute):
                out |= self.may_store.get(a.attr, set())
        return out


def effects_of(prog):
    e = getattr(prog, "_sa_effects", None)
    if e is None:
        e = prog._sa_effects = Effects(prog)
    return e


_fk_cache = {}


def _fact_keys(t):
    """Names and attribute names a fact term mentions."""
    if t in _fk_cache:
        return _fk_cache[t]
    r = _fact_keys_uncached(t)
    _fk_cache[t] = r
    return r


def _fact_keys_uncached(t):
    names, attrs = set(), set()
    for s in subterms(t):
        if s[0] == "n":
            names.add(s[1])
        elif s[0] == "a":
            attrs.add(s[2])
    return names, attrs


class DefiniteAssignment:
    def __init__(self, prog, funcinfo):
        self.prog = prog
        self.fi = funcinfo
        self.cfg = cfg_of(funcinfo)
        self.env = Env(funcinfo.node)
        self.terms = Terms(funcinfo.node, self.env, max_depth=0)
        self.eff = effects_of(prog)
        self.states = {}
        self._info = {}
        self._run()

    def _kill(self, facts, names, attrs):
        if not names and not attrs:
            return facts
        out = []
        for (t, v) in facts:
            ns, ats = _fact_keys(t)
            if ns & names or ats & attrs:
                continue
            out.append((t, v))
        return frozenset(out)

    def _node_info(self, node):
        """(bound names, deleted names, killed attribute names, none-fact) -- computed once per node."""
        k = node.idx
        if k in self._info:
            return self._info[k]
        names, dels, attrs, nf = set(), set(), set(), None
        if node.kind == "stmt":
            st = node.ast
            names = bound_names(st)
            attrs = stored_attrs(st)
            for n in walk_local(st):
                if isinstance(n, ast.Call):
                    attrs |= self.eff.call_may_store(n)
            if isinstance(st, ast.Delete):
                dels = {t.id for t in st.targets if isinstance(t, ast.Name)}
            if isinstance(st, ast.Assign) and len(st.targets) == 1 and isinstance(st.targets[0], ast.Name) \
                    and isinstance(st.value, ast.Constant) and st.value.value is None:
                nf = (("cmp", "Is", ("n", st.targets[0].id), ("c", "None")), True)
        elif node.kind == "for":
            for n in walk_local(node.ast.iter):
                if isinstance(n, ast.Call):
                    attrs |= self.eff.call_may_store(n)
            dels = _names_in_target(node.ast.target)    # killed as fact operands, bound on the True edge
        elif node.kind == "with":
            for it in node.ast.items:
                if it.optional_vars is not None:
                    names |= _names_in_target(it.optional_vars)
        elif node.kind == "test":
            for n in walk_local(node.ast):
                if isinstance(n, ast.Call):
                    attrs |= self.eff.call_may_store(n)
        self._info[k] = (frozenset(names), frozenset(dels), frozenset(attrs), nf)
        return self._info[k]

    def _transfer(self, node, state):
        if node.kind not in ("stmt", "for", "with", "test"):
            return state
        assigned, facts = state
        names, dels, attrs, nf = self._node_info(node)
        if facts and (names or dels or attrs):
            facts = self._kill(facts, names | dels, attrs)
        if node.kind == "stmt" and dels:
            assigned = assigned - dels
        if names:
            assigned = assigned | names
        if nf is not None:
            facts = facts | {nf}
        return (assigned, facts)

    def _edge(self, node, label, state):
        """State after taking the edge; None if the edge contradicts a known fact."""
        assigned, facts = state
        if node.kind == "for" and label is True:
            return (assigned | _names_in_target(node.ast.target), facts)
        if node.kind == "test" and label in (True, False):
            t = self.terms.term(node.ast)
            fd = dict(facts)
            if t in fd:
                if fd[t] != label:
                    return None
                return state
            nt = negate(t)
            if nt in fd:
                if fd[nt] == label:
                    return None
                return state
            return (assigned, facts | {(t, label)})
        return state

    def _run(self):
        cfg = self.cfg
        params = frozenset(b for b, bs in self.env.bindings.items() if any(x.kind == "param" for x in bs))
        init = (params, frozenset())
        self.states = {cfg.entry.idx: {init}}
        work = [cfg.entry]
        while work:
            n = work.pop()
            ins = self.states.get(n.idx, set())
            outs = {self._transfer(n, s) for s in ins}
            for (s, lab) in n.succ:
                new = set()
                for o in outs:
                    e = self._edge(n, lab, o)
                    if e is not None:
                        new.add(e)
                cur = self.states.setdefault(s.idx, set())
                add = new - cur
                if add:
                    cur |= add
                    if len(cur) > MAX_STATES:
                        # widen, first step: one state per set of branch facts (the assigned sets of states that know the same facts are
                        # intersected: still "assigned on every path that establishes these facts")
                        groups = {}
                        for (a, f_) in cur:
                            groups[f_] = a if f_ not in groups else (groups[f_] & a)
                        cur.clear()
                        if len(groups) <= MAX_STATES:
                            for f_, a in groups.items():
                                cur.add((a, f_))
                        else:
                            # second step: drop all facts, intersect assigned sets
                            inter = None
                            for a in groups.values():
                                inter = a if inter is None else (inter & a)
                            cur.add((inter, frozenset()))
                    work.append(s)

    def possibly_undefined(self):
        """[(name, Name node, cfg node)] for loads of local names not assigned on every
        feasible path."""
        out = []
        localnames = set(self.env.bindings)
        for n in self.cfg.nodes:
            if n.idx not in self.states or n.kind not in ("stmt", "test", "for", "with"):
                continue
            if n.kind == "stmt":
                exprs = [n.ast]
                if isinstance(n.ast, (ast.FunctionDef, ast.ClassDef, ast.AsyncFunctionDef)):
                    continue
            elif n.kind == "test":
                exprs = [n.ast]
            elif n.kind == "for":
                exprs = [n.ast.iter]
            else:
                exprs = [it.context_expr for it in n.ast.items]
            loads = []
            for e in exprs:
                loads += loads_in(e)
            if isinstance(n.ast, ast.AugAssign) and isinstance(n.ast.target, ast.Name):
                loads.append(n.ast.target)
            for ld in loads:
                if ld.id not in localnames:
                    continue
                if any(ld.id not in a for (a, _f) in self.states[n.idx]):
                    out.append((ld.id, ld, n))
        return out
