"""Generic state-leak rules, run for every property over the classes the property is about (`SCOPES`).

 S1  mutable default arguments.  A parameter whose default is a dict / list / set object that the function modifies, keeps in an
     attribute or returns is ONE object shared by every call (and every instance): results of one run leak into the next.
 S2  memoisations the pinned tree does not have.  A value kept in `self.<A>` (per key or as a lazily computed attribute), in a
     module-level dict or behind functools.lru_cache is only the value a recomputation would give if
       (a) every parameter the memoised computation reads is part of the key, and
       (b) every instance attribute it reads is either a whole component of the key or cannot change without the cache being
           dropped: every method that re-assigns / modifies it (other than __init__) also resets the cache, itself or through a
           helper, or is only called from methods that do.
     Both are necessary for "the cached result is the result": if (a) or (b) fails there is a call sequence -- same key, other
     argument / re-assigned attribute -- on which the cache answers with a stale value.  Caches that exist on the pinned tree are
     not judged here (the property modules have their own rules for those, e.g. C11.D3, C15.D11, C17.D1); `known_attrs.json` freezes
     which attributes existed.

Everything here works on the module source as written (a fresh `ast.parse`), not on the normalised trees the other rules see: the
loader sets whole-method memoisations aside before normalisation, and this module is what judges them.
"""
import ast
import json
import os

from .loader import AnalysisError

HERE = os.path.dirname(os.path.abspath(__file__))

# classes a property is about: "Module.Class" or "Module.*"
SCOPES = {
    "C01": ["combiScheme.CombiScheme"],
    "C02": ["StandardCombi.StandardCombi", "combiScheme.CombiScheme", "Grid.Grid", "Grid.Grid1d", "Grid.TrapezoidalGrid", "Grid.TrapezoidalGrid1D",
            "GridOperation.GridOperation", "GridOperation.AreaOperation", "GridOperation.Integration", "GridOperation.Interpolation",
            "Integrator.IntegratorArbitraryGridScalarProduct", "Integrator.IntegratorArbitraryGrid", "ComponentGridInfo.*"],
    "C03": ["spatiallyAdaptiveSingleDimension2.*", "RefinementContainer.RefinementContainer", "RefinementContainer.MetaRefinementContainer",
            "RefinementObject.RefinementObjectSingleDimension", "Grid.GlobalGrid", "Grid.GlobalTrapezoidalGrid"],
    "C05": ["spatiallyAdaptiveBase.*", "StandardCombi.StandardCombi", "DimAdaptiveCombi.*", "spatiallyAdaptiveExtendSplit.*",
            "spatiallyAdaptiveSingleDimension2.*", "RefinementContainer.*", "RefinementObject.*", "GridOperation.GridOperation",
            "GridOperation.AreaOperation", "GridOperation.Integration"],
    "C06": ["RefinementObject.RefinementObjectSingleDimension", "RefinementContainer.RefinementContainer",
            "RefinementContainer.MetaRefinementContainer"],
    "C07": ["spatiallyAdaptiveExtendSplit.*", "RefinementObject.RefinementObjectExtendSplit", "RefinementContainer.RefinementContainer"],
    "C09": ["Grid.GlobalGrid", "Grid.GlobalTrapezoidalGrid", "Grid.GlobalTrapezoidalGridWeighted", "Grid.GlobalHighOrderGrid",
            "Grid.GlobalHighOrderGridWeighted", "Grid.GlobalBasisGrid", "Grid.GlobalLagrangeGrid", "Grid.GlobalLagrangeGridWeighted",
            "Grid.GlobalBSplineGrid", "Grid.GlobalSimpsonGrid", "Integrator.*", "Hierarchization.*", "BasisFunctions.*"],
    "C10": ["Grid.BasisGrid", "Grid.LagrangeGrid", "Grid.LagrangeGrid1D", "Grid.BSplineGrid", "Grid.BSplineGrid1D", "Grid.GlobalBasisGrid",
            "Grid.GlobalBSplineGrid", "Grid.GlobalLagrangeGrid", "Hierarchization.*", "BasisFunctions.*",
            "Integrator.IntegratorHierarchicalBasisFunctions"],
    "C11": ["Extrapolation.*", "Grid.GlobalRombergGrid", "Grid.GlobalBalancedRombergGrid"],
    "C12": ["Function.*"],
    "C13": ["spatiallyAdaptiveBase.*", "StandardCombi.StandardCombi", "GridOperation.GridOperation", "GridOperation.AreaOperation",
            "GridOperation.Integration", "ErrorCalculator.*", "Function.Function"],
    "C14": ["spatiallyAdaptiveBase.*", "StandardCombi.StandardCombi", "GridOperation.GridOperation", "GridOperation.AreaOperation",
            "GridOperation.Integration", "Function.Function", "RefinementContainer.*", "RefinementObject.*"],
    "C15": ["GridOperation.UncertaintyQuantification", "GridOperation.UQDistribution", "GridOperation.Integration",
            "Grid.GlobalTrapezoidalGridWeighted", "Grid.GlobalLagrangeGridWeighted", "Grid.GlobalHighOrderGridWeighted"],
    "C16": ["GridOperation.MachineLearning", "GridOperation.DensityEstimation"],
    "C17": ["GridOperation.MachineLearning", "GridOperation.DensityEstimation"],
    "C18": ["DEMachineLearning.DataSet"],
    "C19": ["DEMachineLearning.Classification", "DEMachineLearning.DataSet", "GridOperation.MachineLearning", "GridOperation.DensityEstimation"],
    "C20": ["GridOperation.Regression", "GridOperation.MachineLearning", "DEMachineLearning.DataSet", "DEMachineLearning.DataSetRegression"],
}

# S3 (constructor arguments reach the attributes they configure) is reported only by the properties a class is central to
S3_SCOPES = {
    "C01": ["combiScheme.CombiScheme"],
    "C02": ["StandardCombi.StandardCombi", "Grid.TrapezoidalGrid", "Grid.TrapezoidalGrid1D", "Grid.Grid1d", "GridOperation.Integration",
            "GridOperation.Interpolation"],
    "C03": ["spatiallyAdaptiveSingleDimension2.SpatiallyAdaptiveSingleDimensions2", "Grid.GlobalTrapezoidalGrid"],
    "C05": ["DimAdaptiveCombi.*", "GridOperation.Integration", "GridOperation.AreaOperation"],
    "C06": ["spatiallyAdaptiveSingleDimension2.SpatiallyAdaptiveSingleDimensions2", "RefinementObject.RefinementObjectSingleDimension",
            "RefinementContainer.RefinementContainer", "RefinementContainer.MetaRefinementContainer"],
    "C07": ["spatiallyAdaptiveExtendSplit.SpatiallyAdaptiveExtendScheme", "RefinementObject.RefinementObjectExtendSplit"],
    "C09": ["Grid.GlobalGrid", "Grid.GlobalTrapezoidalGrid", "Grid.GlobalHighOrderGrid", "Grid.GlobalBasisGrid", "Grid.GlobalLagrangeGrid",
            "Grid.GlobalBSplineGrid", "Grid.GlobalSimpsonGrid"],
    "C10": ["Grid.BasisGrid", "Grid.LagrangeGrid", "Grid.LagrangeGrid1D", "Grid.BSplineGrid", "Grid.BSplineGrid1D", "Grid.GlobalBasisGrid",
            "Grid.GlobalBSplineGrid", "Grid.GlobalLagrangeGrid", "Hierarchization.*", "BasisFunctions.*"],
    "C11": ["Extrapolation.*", "Grid.GlobalRombergGrid", "Grid.GlobalBalancedRombergGrid"],
    "C12": ["Function.*"],
    "C13": ["spatiallyAdaptiveBase.*", "ErrorCalculator.*"],
    "C14": ["spatiallyAdaptiveBase.*"],
    "C15": ["GridOperation.UncertaintyQuantification", "GridOperation.UQDistribution", "Grid.GlobalTrapezoidalGridWeighted"],
    "C16": ["GridOperation.DensityEstimation"],
    "C17": ["GridOperation.DensityEstimation"],
    "C18": ["DEMachineLearning.DataSet"],
    "C19": ["DEMachineLearning.Classification"],
    "C20": ["GridOperation.Regression"],
}

MUTATING_METHODS = {"append", "add", "pop", "remove", "update", "extend", "sort", "clear", "insert", "discard", "setdefault", "popitem",
                    "reverse", "fill", "difference_update", "intersection_update", "symmetric_difference_update", "appendleft"}
# only growth makes a shared default object carry state: removing from / reordering the (initially empty) default cannot
GROWING_METHODS = {"append", "add", "update", "extend", "insert", "setdefault", "appendleft"}
KEY_WRAPPERS = {"tuple", "str", "float", "int", "id", "repr", "hash", "frozenset", "sorted", "list", "round", "bool"}
MUTABLE_CTORS = {"dict", "list", "set", "defaultdict", "OrderedDict", "deque", "Counter"}


def _src(n, limit=90):
    try:
        return ast.unparse(n)[:limit]
    except Exception:       # noqa: BLE001
        return "<?>"


_SINGLETONS = (ast.expr_context, ast.operator, ast.boolop, ast.unaryop, ast.cmpop)


def _set_parents(tree):
    # Load() / Add() / ... nodes are singletons shared by every tree the interpreter parses: never hang anything on them
    for p in ast.walk(tree):
        for c in ast.iter_child_nodes(p):
            if not isinstance(c, _SINGLETONS):
                c._sparent = p


def _walk_local(fn):
    """nodes of the function, nested function / class definitions excluded (lambdas and comprehensions included)"""
    todo = list(fn.body)
    while todo:
        n = todo.pop()
        yield n
        for c in ast.iter_child_nodes(n):
            if isinstance(c, (ast.FunctionDef, ast.AsyncFunctionDef, ast.ClassDef)):
                continue
            todo.append(c)


class Raw:
    """the package as written: qualified class name -> ClassDef, module name -> tree"""

    def __init__(self, prog):
        self.classes = {}
        self.trees = {}
        for mi in prog.modules.values():
            try:
                import warnings
                with warnings.catch_warnings():
                    warnings.simplefilter("ignore")
                    tree = ast.parse(mi.source)
            except SyntaxError as e:         # the loader would have failed already
                raise AnalysisError("syntax error in %s: %s" % (mi.path, e))
            _set_parents(tree)
            self.trees[mi.name] = tree
            self._index(tree, mi.name)

    def _index(self, node, prefix):
        for st in node.body:
            if isinstance(st, ast.ClassDef):
                q = prefix + "." + st.name
                self.classes[q] = st
                self._index(st, q)


def raw_of(prog):
    r = getattr(prog, "_raw_model", None)
    if r is None:
        r = prog._raw_model = Raw(prog)
    return r


def methods_of(cdef):
    return [st for st in cdef.body if isinstance(st, (ast.FunctionDef, ast.AsyncFunctionDef))]


def self_name(fn):
    if any(isinstance(d, ast.Name) and d.id == "staticmethod" for d in fn.decorator_list):
        return None
    a = fn.args.posonlyargs + fn.args.args
    return a[0].arg if a else None


def params_of(fn):
    a = fn.args
    out = [x.arg for x in a.posonlyargs + a.args + a.kwonlyargs]
    if a.vararg:
        out.append(a.vararg.arg)
    if a.kwarg:
        out.append(a.kwarg.arg)
    return out


# ------------------------------------------------------------------------------------------------------------- S1
def _is_mutable_default(d):
    if isinstance(d, (ast.Dict, ast.List, ast.Set, ast.ListComp, ast.DictComp, ast.SetComp)):
        return True
    if isinstance(d, ast.Call):
        f = d.func
        nm = f.id if isinstance(f, ast.Name) else (f.attr if isinstance(f, ast.Attribute) else None)
        return nm in MUTABLE_CTORS
    return False


def mutable_default_findings(fn):
    """[(param, node, what)]: parameters with a mutable default object that the function modifies in place, stores into an attribute /
    container or returns"""
    a = fn.args
    pos = a.posonlyargs + a.args
    pairs = list(zip(pos[len(pos) - len(a.defaults):], a.defaults)) + [(p, d) for p, d in zip(a.kwonlyargs, a.kw_defaults) if d is not None]
    cand = {p.arg: d for p, d in pairs if _is_mutable_default(d)}
    out = []
    if not cand:
        return out
    # a parameter that is re-bound before use (`x = x or {}` / `if x is None`) is not the idiom: only the default OBJECT matters, and it
    # is reachable whenever the name is used before any re-binding; we do not prove order, a re-binding `p = {}` under `if p is None`
    # cannot occur for a non-None default, so every use counts.
    for n in _walk_local(fn):
        if isinstance(n, (ast.Assign, ast.AugAssign, ast.Delete)):
            targets = n.targets if isinstance(n, (ast.Assign, ast.Delete)) else [n.target]
            for t in targets:
                r, elem = t, False
                while isinstance(r, ast.Subscript):
                    r, elem = r.value, True
                if isinstance(r, ast.Name) and r.id in cand and (elem or isinstance(n, ast.AugAssign)) and not isinstance(n, ast.Delete):
                    out.append((r.id, n, "is modified in place by `%s`" % _src(n)))
            if isinstance(n, ast.Assign):
                v = n.value
                if isinstance(v, ast.Name) and v.id in cand and any(isinstance(t, (ast.Attribute, ast.Subscript)) for t in n.targets):
                    out.append((v.id, n, "is kept beyond the call by `%s`" % _src(n)))
        elif isinstance(n, ast.Call) and isinstance(n.func, ast.Attribute):
            if n.func.attr in GROWING_METHODS and isinstance(n.func.value, ast.Name) and n.func.value.id in cand:
                out.append((n.func.value.id, n, "is modified in place by `%s`" % _src(n)))
            elif n.func.attr in ("append", "add", "extend", "insert", "update", "setdefault"):
                for x in n.args:
                    if isinstance(x, ast.Name) and x.id in cand:
                        out.append((x.id, n, "is kept beyond the call by `%s`" % _src(n)))
        elif isinstance(n, ast.Return) and isinstance(n.value, ast.Name) and n.value.id in cand:
            out.append((n.value.id, n, "is handed out by `%s`" % _src(n)))
    return out


# ------------------------------------------------------------------------------------------------------------- S2
class Memo:
    def __init__(self, cq, fn, attr, kind, keys, region, lookup):
        self.cq, self.fn, self.attr, self.kind, self.keys, self.region, self.lookup = cq, fn, attr, kind, keys, region, lookup


def _self_attr(n, me):
    if isinstance(n, ast.Attribute) and isinstance(n.value, ast.Name) and n.value.id == me:
        return n.attr
    return None


def _aliases(fn, me):
    """local -> attribute for locals that are bound to exactly `self.<attr>` somewhere in the function, or to one entry of it
    (`self.<attr>[k]`, `self.<attr>.setdefault(k, {})`, `self.<attr>.get(k, ...)`: a two-level cache, k is part of the key)"""
    out = {}
    for n in _walk_local(fn):
        if isinstance(n, ast.Assign) and len(n.targets) == 1 and isinstance(n.targets[0], ast.Name):
            v = n.value
            a = _self_attr(v, me)
            if a is not None:
                out[n.targets[0].id] = a
                continue
            if isinstance(v, ast.Subscript) and _self_attr(v.value, me) is not None:
                out[n.targets[0].id] = v.value.attr
                _OUTER_KEYS.setdefault(id(fn), {}).setdefault(v.value.attr, []).append(v.slice)
            elif isinstance(v, ast.Call) and isinstance(v.func, ast.Attribute) and v.func.attr in ("setdefault", "get") and v.args \
                    and _self_attr(v.func.value, me) is not None:
                out[n.targets[0].id] = v.func.value.attr
                _OUTER_KEYS.setdefault(id(fn), {}).setdefault(v.func.value.attr, []).append(v.args[0])
    return out


_OUTER_KEYS = {}      # id(FunctionDef) -> {attr: [outer key expressions of two-level caches]}


def _cache_ref(n, me, alias, global_dicts=()):
    """attribute (or '::global' name) the expression denotes when it is `self.A`, a local alias of it, or a module-level dict"""
    a = _self_attr(n, me) if me else None
    if a is not None:
        return a
    if isinstance(n, ast.Name):
        if n.id in alias:
            return alias[n.id]
        if n.id in global_dicts:
            return "::" + n.id
    return None


def _test_polarity(test, attr, me, alias, gd):
    """'hit' / 'miss' / None for a branch test that asks whether the cache `attr` already has the value"""
    neg = False
    t = test
    while isinstance(t, ast.UnaryOp) and isinstance(t.op, ast.Not):
        neg, t = not neg, t.operand
    found = None
    parts = t.values if isinstance(t, ast.BoolOp) else [t]
    for p in parts:
        pneg = False
        while isinstance(p, ast.UnaryOp) and isinstance(p.op, ast.Not):
            pneg, p = not pneg, p.operand
        pol = None
        if isinstance(p, ast.Compare) and len(p.ops) == 1:
            op, l, r = p.ops[0], p.left, p.comparators[0]
            if isinstance(op, (ast.In, ast.NotIn)) and _cache_ref(r, me, alias, gd) == attr:
                pol = "hit" if isinstance(op, ast.In) else "miss"
            elif isinstance(op, (ast.Is, ast.IsNot, ast.Eq, ast.NotEq)) and isinstance(r, ast.Constant) and r.value is None:
                base = l
                while isinstance(base, ast.Subscript):
                    base = base.value
                if isinstance(base, ast.Call) and isinstance(base.func, ast.Attribute) and base.func.attr == "get":
                    base = base.func.value
                if _cache_ref(base, me, alias, gd) == attr:
                    pol = "miss" if isinstance(op, (ast.Is, ast.Eq)) else "hit"
        elif _cache_ref(p, me, alias, gd) == attr:
            pol = "hit"
        elif isinstance(p, ast.Call) and isinstance(p.func, ast.Name) and p.func.id == "hasattr" and len(p.args) == 2 \
                and isinstance(p.args[1], ast.Constant) and p.args[1].value == attr:
            pol = "hit"
        if pol is not None:
            if pneg:
                pol = "miss" if pol == "hit" else "hit"
            found = pol
    if found is None:
        return None
    if neg:
        found = "miss" if found == "hit" else "hit"
    return found


def _following(stmt):
    par = getattr(stmt, "_sparent", None)
    for field in ("body", "orelse", "finalbody"):
        blk = getattr(par, field, None)
        if isinstance(blk, list) and stmt in blk:
            return blk[blk.index(stmt) + 1:]
    return []


def find_memos(cq, cdef, is_new, global_dicts=()):
    """memoisations implemented by the methods of the class in attributes for which is_new(attr) holds (module-level dicts: names
    in global_dicts)"""
    out = []
    for fn in methods_of(cdef):
        me = self_name(fn)
        alias = _aliases(fn, me) if me else {}
        # lru_cache / cache decorators
        for d in fn.decorator_list:
            dn = d.func if isinstance(d, ast.Call) else d
            nm = dn.id if isinstance(dn, ast.Name) else (dn.attr if isinstance(dn, ast.Attribute) else None)
            if nm in ("lru_cache", "cache", "cached_property"):
                out.append(Memo(cq, fn, "@" + nm, "decorator", [ast.Name(id=p, ctx=ast.Load()) for p in params_of(fn)[1:]], list(fn.body), fn))
        stores, loads = {}, {}
        for n in _walk_local(fn):
            if isinstance(n, (ast.Assign, ast.AugAssign)):
                for t in (n.targets if isinstance(n, ast.Assign) else [n.target]):
                    if isinstance(t, ast.Subscript):
                        a = _cache_ref(t.value, me, alias, global_dicts)
                        if a is not None:
                            stores.setdefault(a, []).append(("key", t.slice, n))
                    elif isinstance(t, ast.Attribute) and me and _self_attr(t, me) is not None:
                        stores.setdefault(t.attr, []).append(("attr", None, n))
            elif isinstance(n, ast.Call) and isinstance(n.func, ast.Attribute) and n.func.attr == "setdefault" and n.args:
                a = _cache_ref(n.func.value, me, alias, global_dicts)
                if a is not None:
                    stores.setdefault(a, []).append(("key", n.args[0], n))
                    loads.setdefault(a, []).append(("key", n.args[0], n))
            if isinstance(n, ast.Subscript) and isinstance(n.ctx, ast.Load):
                a = _cache_ref(n.value, me, alias, global_dicts)
                if a is not None:
                    loads.setdefault(a, []).append(("key", n.slice, n))
            elif isinstance(n, ast.Call) and isinstance(n.func, ast.Attribute) and n.func.attr == "get" and n.args:
                a = _cache_ref(n.func.value, me, alias, global_dicts)
                if a is not None:
                    loads.setdefault(a, []).append(("key", n.args[0], n))
            elif isinstance(n, ast.Compare) and len(n.ops) == 1 and isinstance(n.ops[0], (ast.In, ast.NotIn)):
                a = _cache_ref(n.comparators[0], me, alias, global_dicts)
                if a is not None:
                    loads.setdefault(a, []).append(("key", n.left, n))
        for a in sorted(stores):
            if not (is_new(a) or a.startswith("::")):
                continue
            keyed = [s for s in stores[a] if s[0] == "key"]
            tests = []
            for n in _walk_local(fn):
                if isinstance(n, (ast.If, ast.IfExp)):
                    pol = _test_polarity(n.test, a, me, alias, global_dicts)
                    if pol is not None:
                        tests.append((n, pol))
            if keyed:
                if a not in loads:
                    continue                      # filled but never consulted here: a result table, not a memo of this method
                kind = "keyed"
                keys = [k for (_, k, _) in keyed] + [k for (_, k, _) in loads.get(a, [])]
            else:
                if not tests:
                    continue                      # plain attribute store without an "already there?" test
                kind = "attribute"
                keys = []
            region, lookup = list(fn.body), fn
            def creates_only(n):
                """`if not hasattr(self, 'A'): self.A = {}` / `if self.A is None: self.A = {}`: lazy creation of the table, not the lookup"""
                body = n.body
                return bool(body) and all(isinstance(b, ast.Assign) and len(b.targets) == 1 and me and _self_attr(b.targets[0], me) == a
                                          and (isinstance(b.value, (ast.Dict, ast.List)) or (isinstance(b.value, ast.Call) and not b.value.args))
                                          for b in body) and not n.orelse
            ifs = [(n, pol) for (n, pol) in tests if isinstance(n, ast.If) and not (keyed and creates_only(n))]
            if ifs:
                n, pol = ifs[0]
                lookup = n
                if pol == "miss":
                    region = list(n.body)
                else:
                    if n.body and isinstance(n.body[-1], ast.Return):
                        region = list(n.orelse) + list(_following(n))
                    elif n.orelse:
                        region = list(n.orelse)
                    else:
                        region = list(_following(n))
                if not region:
                    region = list(fn.body)
            else:
                exps = [(n, pol) for (n, pol) in tests if isinstance(n, ast.IfExp)]
                if exps:
                    n, pol = exps[0]
                    lookup = n
                    region = [n.orelse if pol == "hit" else n.body]
            keys = list(keys) + list(_OUTER_KEYS.get(id(fn), {}).get(a, []))
            out.append(Memo(cq, fn, a, kind, keys, region, lookup))
    return out


def _names_closure(fn, exprs, stop_nodes=()):
    """names and self-attributes a list of expressions / statements depends on, looking through the function's local assignments
    (flow-insensitive).  Returns (names, attribute nodes)"""
    me = self_name(fn)
    defs = {}
    for n in _walk_local(fn):
        if isinstance(n, ast.Assign):
            for t in n.targets:
                for x in ast.walk(t):
                    if isinstance(x, ast.Name) and isinstance(x.ctx, ast.Store):
                        defs.setdefault(x.id, []).append(n.value)
        elif isinstance(n, ast.AugAssign) and isinstance(n.target, ast.Name):
            defs.setdefault(n.target.id, []).append(n.value)
        elif isinstance(n, (ast.For, ast.comprehension)):
            for x in ast.walk(n.target):
                if isinstance(x, ast.Name):
                    defs.setdefault(x.id, []).append(n.iter)
        elif isinstance(n, ast.NamedExpr) and isinstance(n.target, ast.Name):
            defs.setdefault(n.target.id, []).append(n.value)
        elif isinstance(n, ast.withitem) and n.optional_vars is not None:
            for x in ast.walk(n.optional_vars):
                if isinstance(x, ast.Name):
                    defs.setdefault(x.id, []).append(n.context_expr)
    names, attrs, seen = set(), [], set()
    todo = list(exprs)
    while todo:
        e = todo.pop()
        if id(e) in seen:
            continue
        seen.add(id(e))
        for x in ast.walk(e):
            if isinstance(x, ast.Name) and isinstance(x.ctx, ast.Load):
                if x.id not in names:
                    names.add(x.id)
                    todo.extend(defs.get(x.id, []))
            elif me and isinstance(x, ast.Attribute) and _self_attr(x, me) is not None:
                attrs.append(x)
    return names, attrs



def _key_cover(fn, keys):
    """what a key determines: (names, chains) -- local / parameter names the key contains as a whole and attribute / subscript chains
    (`grid.levelvector`, `numPoints[d]`) it contains as a projection.  Only transparent steps are followed: tuple / list elements,
    tuple()/str()/... wrappers, and locals whose single kind of definition is again such an expression.  A local computed by an
    arbitrary call (`hats = self.neighbours(p, mesh)`) determines nothing about the call's arguments."""
    defs = {}
    for n in _walk_local(fn):
        if isinstance(n, ast.Assign) and len(n.targets) == 1 and isinstance(n.targets[0], ast.Name):
            defs.setdefault(n.targets[0].id, []).append(n.value)
        elif isinstance(n, (ast.Assign, ast.For, ast.comprehension, ast.AugAssign)):
            tg = n.targets if isinstance(n, ast.Assign) else [n.target]
            for t in tg:
                for x in ast.walk(t):
                    if isinstance(x, ast.Name):
                        defs.setdefault(x.id, []).append(None)           # opaque
    names, chains, seen = set(), set(), set()

    def comp(e, depth=0):
        if e is None or id(e) in seen or depth > 8:
            return
        seen.add(id(e))
        if isinstance(e, (ast.Tuple, ast.List)):
            for x in e.elts:
                comp(x, depth + 1)
        elif isinstance(e, ast.Call) and not e.keywords and len(e.args) >= 1 and \
                ((isinstance(e.func, ast.Name) and e.func.id in KEY_WRAPPERS) or (isinstance(e.func, ast.Attribute) and e.func.attr in ("array", "asarray"))):
            comp(e.args[0], depth + 1)
        elif isinstance(e, ast.Call) and isinstance(e.func, ast.Attribute) and e.func.attr in ("tobytes", "tolist", "copy", "items") and not e.args:
            comp(e.func.value, depth + 1)
        elif isinstance(e, ast.Name):
            names.add(e.id)
            for d in defs.get(e.id, []):
                comp(d, depth + 1)
        elif isinstance(e, (ast.Attribute, ast.Subscript)):
            chains.add(_src(e, 200))
            if isinstance(e, ast.Subscript):
                comp(e.slice, depth + 1)
        elif isinstance(e, ast.JoinedStr):
            for v in e.values:
                if isinstance(v, ast.FormattedValue):
                    comp(v.value, depth + 1)
        elif isinstance(e, ast.BinOp) and isinstance(e.op, ast.Add):
            comp(e.left, depth + 1)
            comp(e.right, depth + 1)
    for k in keys:
        comp(k)
    return names, chains


def _param_covered(fn, region, p, names, chains):
    """the key determines everything the region reads of parameter p: p itself is in the key, or every read of p in the region is
    inside a chain the key contains"""
    if p in names:
        return True
    loads = [x for r in region for x in ast.walk(r) if isinstance(x, ast.Name) and x.id == p and isinstance(x.ctx, ast.Load)]
    if not loads:
        return None            # read only through locals defined outside the region
    for x in loads:
        e, ok = x, False
        while True:
            par = getattr(e, "_sparent", None)
            if isinstance(par, (ast.Attribute, ast.Subscript)) and par.value is e:
                e = par
                if _src(e, 200) in chains:
                    ok = True
                    break
            else:
                break
        if not ok:
            return False
    return True


def _whole_key_attrs(fn, keys):
    """attributes `self.B` that are a whole component of a key: the key itself, an element of the key tuple, possibly inside
    tuple()/str()/float()/... wrappers; Name keys are resolved through the function's assignments"""
    me = self_name(fn)
    defs = {}
    for n in _walk_local(fn):
        if isinstance(n, ast.Assign) and len(n.targets) == 1 and isinstance(n.targets[0], ast.Name):
            defs.setdefault(n.targets[0].id, []).append(n.value)
    out = set()
    seen = set()

    def comp(e, depth=0):
        if id(e) in seen or depth > 6:
            return
        seen.add(id(e))
        if isinstance(e, (ast.Tuple, ast.List)):
            for x in e.elts:
                comp(x, depth + 1)
        elif isinstance(e, ast.Call) and not e.keywords and len(e.args) >= 1 and \
                ((isinstance(e.func, ast.Name) and e.func.id in KEY_WRAPPERS) or (isinstance(e.func, ast.Attribute) and e.func.attr in ("tobytes", "tolist", "copy"))):
            comp(e.args[0], depth + 1)
        elif isinstance(e, ast.Call) and isinstance(e.func, ast.Attribute) and e.func.attr in ("tobytes", "tolist", "copy", "items") and not e.args:
            comp(e.func.value, depth + 1)
        elif isinstance(e, ast.Name):
            for d in defs.get(e.id, []):
                comp(d, depth + 1)
        elif me and _self_attr(e, me) is not None:
            out.add(e.attr)
    for k in keys:
        comp(k)
    return out


def _family(prog, cq):
    ci = prog.classes.get(cq)
    if ci is None:
        return [cq]
    fam = [c.qual for c in ci.mro] + [c.qual for c in prog.all_subclasses(ci)]
    out = []
    for q in fam:
        if q not in out:
            out.append(q)
    return out


def _attr_reads_through_calls(raw, fam, fn, nodes, depth=2):
    """self-attributes read by the nodes, following `self.m(...)` into the family's implementations of m (bounded depth):
    {attr: first node}, methods are not data attributes"""
    me = self_name(fn)
    method_names = {}
    for q in fam:
        cd = raw.classes.get(q)
        if cd is not None:
            for m in methods_of(cd):
                method_names.setdefault(m.name, []).append(m)
    out = {}
    seen_m = set()

    def scan(f, nds, d):
        s = self_name(f)
        if not s:
            return
        for top in nds:
            for x in ast.walk(top):
                a = _self_attr(x, s)
                if a is None:
                    continue
                mangled = a
                if a in method_names:
                    if d > 0:
                        for m in method_names[a]:
                            if id(m) not in seen_m:
                                seen_m.add(id(m))
                                scan(m, m.body, d - 1)
                    continue
                if isinstance(x.ctx, ast.Load):
                    out.setdefault(mangled, x)
    scan(fn, nodes, depth)
    return out


def _stores_of(fn):
    """{attr: [(kind, node)]} for stores / in-place modifications of self attributes in the function"""
    me = self_name(fn)
    out = {}
    if not me:
        return out
    for n in _walk_local(fn):
        if isinstance(n, (ast.Assign, ast.AugAssign, ast.AnnAssign, ast.Delete)):
            tg = n.targets if isinstance(n, (ast.Assign, ast.Delete)) else [n.target]
            flat = []
            for t in tg:
                flat += list(t.elts) if isinstance(t, (ast.Tuple, ast.List)) else [t]
            for t in flat:
                r, elem = t, False
                while isinstance(r, ast.Subscript):
                    r, elem = r.value, True
                a = _self_attr(r, me)
                if a is not None:
                    kind = "elem" if elem else ("aug" if isinstance(n, ast.AugAssign) else ("del" if isinstance(n, ast.Delete) else "plain"))
                    out.setdefault(a, []).append((kind, n))
        elif isinstance(n, ast.Call) and isinstance(n.func, ast.Attribute) and n.func.attr in MUTATING_METHODS:
            r = n.func.value
            while isinstance(r, ast.Subscript):
                r = r.value
            a = _self_attr(r, me)
            if a is not None:
                out.setdefault(a, []).append(("clear" if n.func.attr == "clear" else "mutator", n))
        elif isinstance(n, ast.Call) and isinstance(n.func, ast.Name) and n.func.id == "setattr" and len(n.args) == 3 \
                and isinstance(n.args[0], ast.Name) and n.args[0].id == me and isinstance(n.args[1], ast.Constant):
            out.setdefault(str(n.args[1].value), []).append(("plain", n))
    return out


def check_memo(prog, raw, memo):
    """list of problem strings for one memoisation ([] = the two obligations hold)"""
    fn, me = memo.fn, self_name(memo.fn)
    problems = []
    fam = _family(prog, memo.cq)
    params = [p for p in params_of(fn) if p != me]
    rnames, _ = _names_closure(fn, memo.region)
    knames, _ = _names_closure(fn, memo.keys)
    # (a) parameters
    cover_names, cover_chains = _key_cover(fn, memo.keys)
    for p in params:
        if p not in rnames:
            continue
        cov = _param_covered(fn, memo.region, p, cover_names, cover_chains)
        if cov is None:
            cov = p in knames
        if not cov:
            problems.append("parameter `%s` is read by the memoised computation but is not part of the %s" %
                            (p, "key" if memo.kind != "attribute" else "stored value's identity (there is no key)"))
    # (b) attributes
    region_exprs = list(memo.region)
    # definitions outside the region that feed it
    _, attr_nodes = _names_closure(fn, memo.region)
    reads = _attr_reads_through_calls(raw, fam, fn, region_exprs + [a for a in attr_nodes])
    whole = _whole_key_attrs(fn, memo.keys)
    cache_attr = memo.attr
    # who resets the cache
    resetters = set()
    fam_methods = []
    for q in fam:
        cd = raw.classes.get(q)
        if cd is None:
            continue
        for m in methods_of(cd):
            fam_methods.append((q, m))
    callers = {}
    for q, m in fam_methods:
        s = self_name(m)
        if not s:
            continue
        for x in _walk_local(m):
            if isinstance(x, ast.Call) and isinstance(x.func, ast.Attribute) and _self_attr(x.func, s) is not None:
                callers.setdefault(x.func.attr, set()).add(m.name)
            elif isinstance(x, ast.Attribute) and _self_attr(x, s) is not None and isinstance(x.ctx, ast.Load):
                callers.setdefault(x.attr, set())          # method values: unknown call sites are not assumed
    direct = set()
    for q, m in fam_methods:
        st = _stores_of(m)
        for kind, node in st.get(cache_attr, []):
            if kind in ("plain", "del", "clear") and not (m is fn and any(node is y for r in memo.region for y in ast.walk(r))):
                if m is fn and memo.kind == "attribute":
                    continue
                direct.add(m.name)
        if cache_attr.startswith("@"):
            for x in _walk_local(m):
                if isinstance(x, ast.Call) and isinstance(x.func, ast.Attribute) and x.func.attr == "cache_clear":
                    direct.add(m.name)
    resetters = set(direct)
    for _ in range(2):                  # helpers that reset are followed two levels up
        for q, m in fam_methods:
            s = self_name(m)
            if not s or m.name in resetters:
                continue
            for x in _walk_local(m):
                if isinstance(x, ast.Call) and isinstance(x.func, ast.Attribute) and _self_attr(x.func, s) in resetters:
                    resetters.add(m.name)
                    break
    # a method is safe if it drops the cache itself, or is reached only from safe methods of the family (helpers of a resetting method,
    # recursion included)
    safe = set(resetters)
    changed = True
    while changed:
        changed = False
        for name, cs in callers.items():
            if name in safe:
                continue
            others = cs - {name}
            if others and all(c in safe for c in others):
                safe.add(name)
                changed = True
    for b in sorted(reads):
        if b == cache_attr or b in whole:
            continue
        for q, m in fam_methods:
            if m.name == "__init__":
                continue
            st = _stores_of(m).get(b, [])
            if not st:
                continue
            if m is fn and all(any(node is y for r in memo.region for y in ast.walk(r)) for (_, node) in st):
                continue                          # written by the memoised computation itself
            if m.name in safe:
                continue
            kind, node = st[0]
            problems.append("%s.%s changes self.%s (`%s`, line %d), which the memoised computation reads and the %s does not contain, "
                            "without dropping the cache" % (q.split(".")[-1], m.name, b, _src(node, 60), getattr(node, "lineno", 0),
                                                            "key" if memo.kind != "attribute" else "stored value"))
            break
    return problems


# ------------------------------------------------------------------------------------------------------------- S3
def ctor_param_table(cdef):
    """[(position, parameter, attribute)] for `self.<attribute> = <parameter>` (also `p if p is not None else d`) in the class's own
    __init__: the constructor arguments that configure the instance"""
    init = next((m for m in methods_of(cdef) if m.name == "__init__"), None)
    if init is None:
        return []
    me = self_name(init)
    ps = params_of(init)
    out = []
    for n in _walk_local(init):
        if isinstance(n, ast.Assign) and len(n.targets) == 1 and me and _self_attr(n.targets[0], me) is not None:
            v = n.value
            cands = [v]
            if isinstance(v, ast.IfExp):
                cands = [v.body, v.orelse]
            for c in cands:
                if isinstance(c, ast.Name) and c.id in ps and c.id != me:
                    out.append((ps.index(c.id), c.id, n.targets[0].attr))
    return sorted(set(out))


def _init_of(raw, prog, cq):
    """(class qual, FunctionDef) of the __init__ an instance of cq runs (own or inherited)"""
    ci = prog.classes.get(cq)
    order = [c.qual for c in ci.mro] if ci is not None and ci.mro else [cq]
    for q in order:
        cd = raw.classes.get(q)
        if cd is not None:
            for m in methods_of(cd):
                if m.name == "__init__":
                    return q, m
    return None, None


def _bind_call(call, callee, skip_self):
    """{callee parameter: argument expression} for a call (positional + keyword); callee: FunctionDef"""
    ps = params_of(callee)
    if skip_self and ps:
        ps = ps[1:]
    out = {}
    for k, a in enumerate(call.args):
        if isinstance(a, ast.Starred):
            break
        if k < len(ps):
            out[ps[k]] = a
    for kw in call.keywords:
        if kw.arg is not None:
            out[kw.arg] = kw.value
    return out


def param_reaches_attribute(raw, prog, cq, fn, pname, attr, depth=3):
    """does the value of parameter pname of fn (a method of class cq) flow into self.<attr>: stored there (possibly inside an
    expression), handed to a base-class constructor or a method of self that stores it"""
    me = self_name(fn)
    if me is None or depth <= 0:
        return False
    for n in _walk_local(fn):
        if isinstance(n, (ast.Assign, ast.AnnAssign)):
            tg = n.targets if isinstance(n, ast.Assign) else [n.target]
            if any(_self_attr(t, me) == attr for t in tg) and n.value is not None:
                names, _ = _names_closure(fn, [n.value])
                if pname in names:
                    return True
        elif isinstance(n, ast.Call) and isinstance(n.func, ast.Name) and n.func.id == "setattr" and len(n.args) == 3 \
                and isinstance(n.args[1], ast.Constant) and n.args[1].value == attr:
            names, _ = _names_closure(fn, [n.args[2]])
            if pname in names:
                return True
    ci = prog.classes.get(cq)
    mro = [c.qual for c in ci.mro] if ci is not None and ci.mro else [cq]
    for n in _walk_local(fn):
        if not (isinstance(n, ast.Call) and isinstance(n.func, ast.Attribute)):
            continue
        f_ = n.func
        callee, ccq, explicit_self = None, None, False
        if isinstance(f_.value, ast.Call) and isinstance(f_.value.func, ast.Name) and f_.value.func.id == "super":
            for q in mro[mro.index(cq) + 1:] if cq in mro else []:
                cd = raw.classes.get(q)
                m = next((m for m in methods_of(cd) if m.name == f_.attr), None) if cd is not None else None
                if m is not None:
                    callee, ccq = m, q
                    break
        elif isinstance(f_.value, ast.Name) and f_.value.id == me:
            for q in mro:
                cd = raw.classes.get(q)
                m = next((m for m in methods_of(cd) if m.name == f_.attr), None) if cd is not None else None
                if m is not None:
                    callee, ccq = m, q
                    break
        elif isinstance(f_.value, ast.Name):
            for q in mro[1:]:
                if q.split(".")[-1] == f_.value.id:
                    cd = raw.classes.get(q)
                    m = next((m for m in methods_of(cd) if m.name == f_.attr), None) if cd is not None else None
                    if m is not None:
                        callee, ccq, explicit_self = m, q, True
                        break
        if callee is None:
            continue
        call = n
        if explicit_self and call.args:
            call = ast.Call(func=n.func, args=n.args[1:], keywords=n.keywords)
        for q_param, arg in _bind_call(call, callee, skip_self=True).items():
            names, _ = _names_closure(fn, [arg])
            if pname in names and param_reaches_attribute(raw, prog, ccq, callee, q_param, attr, depth - 1):
                return True
    return False


def check_ctor_params(prog, raw, ctx, prop, q, cdef, table):
    n = 0
    cq, init = _init_of(raw, prog, q)
    if init is None:
        return 0
    ps = params_of(init)
    for (pos, pname, attr) in table:
        if pname not in ps:
            if cq != q:
                continue                    # the class no longer has an own constructor: its base's table applies
            if pos < len(ps):
                pname = ps[pos]             # renamed positional parameter
            else:
                continue                    # the parameter is gone: an interface change, not judged here
        n += 1
        ok = param_reaches_attribute(raw, prog, cq, init, pname, attr)
        ctx.check(ok, "%s.S3" % prop, "%s.__init__::argument-reaches-attribute:%s" % (q, attr),
                  "sparseSpACE/%s.py:%d" % (q.split(".")[0], init.lineno),
                  "constructor argument `%s` configures self.%s" % (pname, attr),
                  "the constructor argument `%s` of %s no longer reaches self.%s (neither stored by the constructor nor handed to a base-class "
                  "constructor / helper that stores it): the instance silently runs with the default instead of what the caller asked for"
                  % (pname, q.split(".")[-1], attr))
    return n


# ------------------------------------------------------------------------------------------------------------- driver
def load_known():
    p = os.path.join(HERE, "known_attrs.json")
    if not os.path.exists(p):
        raise AnalysisError("sa/known_attrs.json is missing (tools/gen_known_attrs.py writes it for the pinned tree)")
    with open(p) as fh:
        return json.load(fh)


def class_attrs_written(cdef):
    out = set()
    for st in cdef.body:
        if isinstance(st, ast.Assign):
            for t in st.targets:
                if isinstance(t, ast.Name):
                    out.add(t.id)
        elif isinstance(st, ast.AnnAssign) and isinstance(st.target, ast.Name):
            out.add(st.target.id)
    for m in methods_of(cdef):
        out.update(_stores_of(m).keys())
    return out


def scope_quals(prog, prop, table=None):
    raw = raw_of(prog)
    out = []
    for pat in (table or SCOPES).get(prop, []):
        if pat.endswith(".*"):
            mod = pat[:-2]
            out += [q for q in sorted(raw.classes) if q.split(".")[0] == mod]
        elif pat in raw.classes:
            out.append(pat)
    seen = []
    for q in out:
        if q not in seen:
            seen.append(q)
    return seen


def module_level_dicts(tree, known_names):
    out = set()
    for st in tree.body:
        if isinstance(st, ast.Assign) and len(st.targets) == 1 and isinstance(st.targets[0], ast.Name) and \
                (isinstance(st.value, ast.Dict) or (isinstance(st.value, ast.Call) and isinstance(st.value.func, ast.Name) and st.value.func.id in ("dict", "defaultdict", "OrderedDict"))):
            if st.targets[0].id not in known_names:
                out.add(st.targets[0].id)
    return out


def selfcheck():
    """the two rules fire on a built-in positive example and stay silent on its repaired twin (fail closed otherwise)"""
    bad = '''
class K:
    def __init__(self):
        self.grid = None
        self.c = {}
        self.w = None
    def set_grid(self, g):
        self.grid = g
    def f(self, d, n):
        key = (d,)
        if key not in self.c:
            self.c[key] = [self.grid[i] * n for i in range(d)]
        return self.c[key]
    def weights(self):
        if self.w is not None:
            return self.w
        self.w = sum(self.grid)
        return self.w
    def g(self, x, acc={}):
        acc[x] = 1
        return len(acc)
'''
    good = bad.replace("self.grid = g", "self.grid = g\n        self.c = {}\n        self.w = None").replace("key = (d,)", "key = (d, n)") \
              .replace("acc={}", "acc=None").replace("acc[x] = 1", "acc = {} if acc is None else acc\n        acc[x] = 1")
    res = []
    for text in (bad, good):
        tree = ast.parse(text)
        _set_parents(tree)
        cdef = tree.body[0]

        class _P:
            classes = {}

            @staticmethod
            def all_subclasses(ci):
                return []
        raw = Raw.__new__(Raw)
        raw.classes = {"m.K": cdef}
        raw.trees = {"m": tree}
        memos = find_memos("m.K", cdef, lambda a: True)
        probs = sum((check_memo(_P, raw, m) for m in memos), [])
        muts = sum((mutable_default_findings(fn) for fn in methods_of(cdef)), [])
        res.append((len(memos), len(probs), len(muts)))
    (m1, p1, d1), (m2, p2, d2) = res
    if not (m1 >= 2 and p1 >= 3 and d1 >= 1 and m2 >= 2 and p2 == 0 and d2 == 0):
        raise AnalysisError("statecheck self-check failed: positive example %r, repaired twin %r" % (res[0], res[1]))


def run(prog, ctx, prop):
    """S1 / S2 over the property's scope; violations are reported under `<prop>.S1` / `<prop>.S2`"""
    selfcheck()
    raw = raw_of(prog)
    known = load_known()
    quals = scope_quals(prog, prop)
    if not quals:
        raise AnalysisError("anchor vanished: none of the scope classes of %s exists (%s)" % (prop, ", ".join(SCOPES.get(prop, []))))
    n_methods = n_memos = n_defaults = n_ctor = 0
    s3_quals = set(scope_quals(prog, prop, S3_SCOPES))
    for q in quals:
        cdef = raw.classes[q]
        fam = _family(prog, q)
        known_here = set()
        for fq in fam:
            known_here.update(known.get("classes", {}).get(fq, []))
        is_new_class = q not in known.get("classes", {})

        def is_new(a, _k=known_here, _n=is_new_class):
            return _n or a not in _k
        mod = q.split(".")[0]
        gd = module_level_dicts(raw.trees[mod], set(known.get("modules", {}).get(mod, [])))
        rel = "sparseSpACE/%s.py" % mod
        for fn in methods_of(cdef):
            n_methods += 1
            for (p, node, what) in mutable_default_findings(fn):
                n_defaults += 1
                ctx.violation("%s.S1" % prop, "%s.%s::mutable-default:%s" % (q, fn.name, p), "%s:%d" % (rel, getattr(node, "lineno", fn.lineno)),
                              "the default object of parameter `%s` of %s.%s is created once and shared by every call; it %s, so state of one call "
                              "(one run, one instance) leaks into the next" % (p, q.split(".")[-1], fn.name, what))
        if q in s3_quals:
            n_ctor += check_ctor_params(prog, raw, ctx, prop, q, cdef, [tuple(x) for x in known.get("ctor", {}).get(q, [])])
        for memo in find_memos(q, cdef, is_new, gd):
            n_memos += 1
            probs = check_memo(prog, raw, memo)
            key = "%s.%s::memo:%s" % (q, memo.fn.name, memo.attr)
            loc = "%s:%d" % (rel, getattr(memo.lookup, "lineno", memo.fn.lineno))
            what = ("self.%s" % memo.attr) if not memo.attr.startswith(("::", "@")) else memo.attr.lstrip(":")
            ctx.check(not probs, "%s.S2" % prop, key, loc,
                      "%s.%s keeps results in %s; every parameter it reads is in the key and every attribute it reads is in the key or "
                      "drops the cache when it changes" % (q.split(".")[-1], memo.fn.name, what),
                      "%s.%s keeps results in %s (a cache the pinned tree does not have) but the cached value can be stale: %s"
                      % (q.split(".")[-1], memo.fn.name, what, "; ".join(probs[:3])))
    ctx.ok("%s.S" % prop, "scope::state-rules", "sparseSpACE/*",
           "S1-S3 over %d classes, %d methods: %d mutable default objects that are modified or kept, %d memoisations new to the pinned tree "
           "analysed, %d constructor arguments followed to the attribute they configure" % (len(quals), n_methods, n_defaults, n_memos, n_ctor))
    return n_methods
