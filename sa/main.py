"""./check driver.

exit 0  all rule instances hold (known findings are printed as KNOWN-FINDING lines)
exit 1  at least one unlisted violation; one line `VIOLATION property=<id> replay=<path>` each
exit 2  ANALYSIS-ERROR: the analysis could not be carried out (parse failure, vanished anchor,
        floor not met, unsupported construct, self-test failure, internal error)
"""
import argparse
import importlib
import json
import os
import sys
import time
import traceback

from .loader import AnalysisError, Program
from . import report

ALL_PROPS = ["C%02d" % i for i in range(1, 21)]


def available():
    out = []
    for p in ALL_PROPS:
        if os.path.exists(os.path.join(os.path.dirname(__file__), "props", p + ".py")):
            out.append(p)
    return out


def run_property(prop, repo_root, tier="quick", prog=None):
    """Run the rules of one property on the tree at repo_root.  Returns (ctx, module)."""
    mod = importlib.import_module("sa.props." + prop)
    prog = prog or Program(repo_root)
    ctx = report.Ctx(prop, prog, tier)
    from . import statecheck
    statecheck.run(prog, ctx, prop)          # generic state-leak rules over the property's scope classes (S1, S2)
    try:
        mod.run(prog, ctx)
    except AnalysisError as e:
        # a violation that was already established stands, whatever else could not be evaluated: the construct a later rule is
        # anchored in may be gone BECAUSE of the change that broke the property (a cache moved into a default argument, ...)
        if not any(i.status == "violation" for i in ctx.instances):
            raise
        ctx.note("engine", "analysis-incomplete", "", "rules after this point were not evaluated: %s" % e)
    return ctx, mod


def check(prop, repo_root, tier, seed, replay=None, evidence_path=None, quiet=False):
    t0 = time.time()
    ctx, mod = run_property(prop, repo_root, tier)
    extra = {}
    viol0, _k, _t = report.classify(prop, ctx.instances)
    if tier == "thorough":
        from . import generic
        notes = generic.run_all(ctx.prog, prop)
        extra["cross_reference_scans"] = {"modules": sorted(generic.anchor_modules(prop)), "hits": notes,
                                          "explanation": "generic definite-assignment / read-never-stored / arity scans over the property's "
                                                         "anchor files; informational only, never a violation"}
        for n in notes:
            ctx.note("XREF." + n["scan"], n["where"], n["loc"], n["what"])
    if tier == "thorough" and viol0:
        extra["selftest"] = "skipped: the tree under analysis already violates the property, variant expectations do not apply"
    elif tier == "thorough":
        from . import selftest
        st = selftest.run_for(prop, repo_root, seed)
        extra["selftest"] = st["summary"]
        if st["failures"]:
            for f in st["failures"]:
                print("SELFTEST-FAILURE: %s" % f)
            raise AnalysisError("checker self-test failed for %s (%d failures): the checker is not trustworthy on this tree"
                                % (prop, len(st["failures"])))
    viol, kn, tr = report.classify(prop, ctx.instances)
    if replay:
        want = report.load_json(replay, {})
        viol = [v for v in viol if v.rule == want.get("rule") and v.key == want.get("key")]
    wall = time.time() - t0
    report.write_evidence(prop, ctx, tier, seed, wall, viol, kn, tr, getattr(mod, "EXPLANATION", ""), extra,
                          path=evidence_path)
    if not quiet:
        nok = sum(1 for i in ctx.instances if i.status == "ok")
        print("property=%s tier=%s repo=%s rule_instances=%d ok=%d violations=%d known=%d triaged=%d functions=%d wall=%.2fs"
              % (prop, tier, repo_root, nok + len(viol) + len(kn) + len(tr), nok, len(viol), len(kn), len(tr),
                 len(ctx.analysed_functions), wall))
        for r, (found, floor) in sorted(ctx.floors.items()):
            print("  floor %-10s found=%d floor=%d" % (r, found, floor))
        for i in ctx.instances:
            if i.status == "note":
                print("NOTE: %s %s %s -- %s" % (i.rule, i.key, i.loc, i.detail))
        for inst, e in tr:
            print("TRIAGED: property=%s %s %s (%s) -- %s" % (prop, inst.rule, inst.key, inst.loc, e.get("reason", "")))
        for inst, e in kn:
            print("KNOWN-FINDING: property=%s %s %s at %s -- %s" % (prop, inst.rule, inst.key, inst.loc, e.get("what", inst.detail)))
    for v in viol:
        path = report.write_violation(prop, v, repo_root)
        print("  rule=%s construct=%s at %s: %s" % (v.rule, v.key, v.loc, v.detail))
        print("VIOLATION property=%s replay=%s" % (prop, path))
    return 1 if viol else 0


def main(argv=None):
    ap = argparse.ArgumentParser(prog="check")
    ap.add_argument("prop", nargs="?")
    ap.add_argument("--tier", default=os.environ.get("VERIF_TIER", "quick"), choices=["quick", "thorough"])
    ap.add_argument("--repo", default=os.environ.get("VERIF_REPO", "/repo"))
    ap.add_argument("--replay")
    ap.add_argument("--evidence")
    ap.add_argument("--selfcheck", action="store_true")
    ap.add_argument("--dump", action="store_true")
    a = ap.parse_args(argv)
    try:
        seed = int(os.environ.get("VERIF_SEED", "0") or 0)
    except ValueError:
        seed = 0
    try:
        if a.selfcheck:
            prog = Program(a.repo)
            s = prog.stats()
            print("engine ok: %d modules, %d classes, %d functions; properties with checks: %s"
                  % (s["modules"], s["classes"], s["functions"], ",".join(available())))
            return 0
        if a.dump:
            prog = Program(a.repo)
            print(json.dumps(prog.stats(), indent=1))
            return 0
        if a.replay and not a.prop:
            a.prop = report.load_json(a.replay, {}).get("property")
        if a.prop == "all":
            rc = 0
            for p in available():
                try:
                    rc = max(rc, check(p, a.repo, a.tier, seed))
                except AnalysisError as e:           # one property that cannot be decided does not hide the verdicts of the others
                    print("ANALYSIS-ERROR: %s: %s" % (p, e))
                    rc = max(rc, 2)
            return rc
        if a.prop not in ALL_PROPS:
            print("ANALYSIS-ERROR: unknown property %r" % a.prop)
            return 2
        if a.prop not in available():
            print("ANALYSIS-ERROR: no check for %s (not applicable / not claimed)" % a.prop)
            return 2
        return check(a.prop, a.repo, a.tier, seed, a.replay, a.evidence)
    except AnalysisError as e:
        print("ANALYSIS-ERROR: %s" % e)
        return 2
    except Exception as e:  # internal errors never masquerade as violations
        traceback.print_exc()
        print("ANALYSIS-ERROR: internal error %s: %s" % (type(e).__name__, e))
        return 2


if __name__ == "__main__":
    sys.exit(main())
