"""Value terms: a canonical, hash-consable representation of pure expressions
after copy propagation of single-definition locals.  "Same value" rules compare
terms, never text: renaming locals, introducing temporaries, flipping a
comparison or reordering commutative operands does not change a term."""
import ast

from .cfg import walk_local

COMMUTATIVE = {"Add", "Mult", "BitAnd", "BitOr", "BitXor"}
MUTATORS = {"append", "add", "pop", "remove", "update", "extend", "sort", "clear", "insert",
            "discard", "setdefault", "popitem", "reverse", "fill"}
_CMP_SWAP = {"Gt": "Lt", "GtE": "LtE"}
_CMP_NEG = {"Lt": ("LtE", True), "LtE": ("Lt", True),      # not a<b  == b<=a
            "Eq": ("NotEq", False), "NotEq": ("Eq", False),
            "In": ("NotIn", False), "NotIn": ("In", False),
            "Is": ("IsNot", False), "IsNot": ("Is", False)}


class Binding:
    __slots__ = ("name", "kind", "stmt", "value", "index", "node")

    def __init__(self, name, kind, stmt, value=None, index=None, node=None):
        self.name = name
        self.kind = kind      # assign | unpack | for | forunpack | with | aug | param | other
        self.stmt = stmt
        self.value = value    # ast expr (assign: rhs; for: iter)
        self.index = index    # unpack position (tuple of ints)
        self.node = node      # the target Name node


def _targets(t, prefix=()):
    """Yield (NameNode, index_path) for all names bound by an assignment target."""
    if isinstance(t, ast.Name):
        yield t, prefix
    elif isinstance(t, (ast.Tuple, ast.List)):
        for i, e in enumerate(t.elts):
            yield from _targets(e, prefix + (i,))
    elif isinstance(t, ast.Starred):
        yield from _targets(t.value, prefix + ("*",))


class Env:
    """Definitions of every local name of one function."""

    def __init__(self, funcnode):
        self.func = funcnode
        self.bindings = {}     # name -> [Binding]
        self.mutated = set()   # names whose object is mutated in place (subscript store, mutator call)
        a = funcnode.args
        for p in a.posonlyargs + a.args + a.kwonlyargs + ([a.vararg] if a.vararg else []) + ([a.kwarg] if a.kwarg else []):
            self._add(Binding(p.arg, "param", funcnode))
        for n in walk_local(funcnode):
            if isinstance(n, ast.Assign):
                for t in n.targets:
                    self._bind_target(t, n, n.value, "assign")
            elif isinstance(n, ast.AnnAssign):
                if n.value is not None:
                    self._bind_target(n.target, n, n.value, "assign")
            elif isinstance(n, ast.AugAssign):
                if isinstance(n.target, ast.Name):
                    self._add(Binding(n.target.id, "aug", n, n.value, node=n.target))
                else:
                    self._note_mutation(n.target)
            elif isinstance(n, (ast.For, ast.AsyncFor)):
                self._bind_target(n.target, n, n.iter, "for")
            elif isinstance(n, (ast.With, ast.AsyncWith)):
                for it in n.items:
                    if it.optional_vars is not None:
                        self._bind_target(it.optional_vars, n, it.context_expr, "with")
            elif isinstance(n, ast.NamedExpr):
                self._bind_target(n.target, n, n.value, "assign")
            elif isinstance(n, (ast.Import, ast.ImportFrom)):
                for al in n.names:
                    self._add(Binding((al.asname or al.name).split(".")[0], "other", n))
            elif isinstance(n, (ast.FunctionDef, ast.ClassDef)) and n is not funcnode:
                self._add(Binding(n.name, "other", n))
            elif isinstance(n, ast.Delete):
                for t in n.targets:
                    if isinstance(t, ast.Name):
                        self._add(Binding(t.id, "other", n))
                    else:
                        self._note_mutation(t)
            elif isinstance(n, ast.Call) and isinstance(n.func, ast.Attribute) and n.func.attr in MUTATORS:
                self._note_mutation(n.func)

    def _add(self, b):
        self.bindings.setdefault(b.name, []).append(b)

    def _bind_target(self, t, stmt, value, kind):
        if isinstance(t, ast.Name):
            self._add(Binding(t.id, kind, stmt, value, (), t))
            return
        if isinstance(t, (ast.Tuple, ast.List, ast.Starred)):
            for nm, path in _targets(t):
                self._add(Binding(nm.id, "unpack" if kind == "assign" else kind + "unpack", stmt, value, path, nm))
            for sub in ast.walk(t):
                if isinstance(sub, (ast.Subscript, ast.Attribute)):
                    self._note_mutation(sub)
            return
        self._note_mutation(t)

    def _note_mutation(self, t):
        # x[...] = v / x.attr = v / x.append(v): the object named by the root is mutated
        root = t
        while isinstance(root, (ast.Subscript, ast.Attribute)):
            root = root.value
        if isinstance(root, ast.Name):
            self.mutated.add(root.id)

    def single(self, name):
        bs = self.bindings.get(name, [])
        if len(bs) == 1:
            return bs[0]
        return None

    def is_local(self, name):
        return name in self.bindings


def _opname(op):
    return type(op).__name__


class Terms:
    """Term builder for one function."""

    def __init__(self, funcnode, env=None, max_depth=12, subst_mutated=False):
        self.func = funcnode
        self.env = env or Env(funcnode)
        self.max_depth = max_depth
        self.subst_mutated = subst_mutated
        self._memo = {}

    # ------------------------------------------------------------------ api
    def term(self, e, depth=0):
        k = (id(e), depth > 0)
        if k in self._memo:
            return self._memo[k]
        t = self._term(e, depth)
        self._memo[k] = t
        return t

    def name_term(self, name, depth=0):
        """Term of a local name after copy propagation."""
        b = self.env.single(name)
        if b is None or depth >= self.max_depth:
            return ("n", name)
        if name in self.env.mutated and not self.subst_mutated:
            return ("n", name)
        if b.kind == "assign":
            return self.term(b.value, depth + 1)
        if b.kind == "unpack":
            return ("unpack", self.term(b.value, depth + 1), b.index)
        if b.kind == "for":
            return self._elem(b.value, depth, ())
        if b.kind == "forunpack":
            return self._elem(b.value, depth, b.index)
        return ("n", name)

    def _elem(self, it, depth, path):
        # for x in X -> elem(X); for i, x in enumerate(X) -> idx(X), elem(X); zip(A,B) -> elem(A), elem(B)
        if isinstance(it, ast.Call) and isinstance(it.func, ast.Name):
            fn = it.func.id
            if fn == "enumerate" and it.args and path:
                if path[0] == 0:
                    return ("idx", self.term(it.args[0], depth + 1))
                inner = ("elem", self.term(it.args[0], depth + 1))
                return inner if len(path) == 1 else ("unpack", inner, path[1:])
            if fn == "zip" and path and isinstance(path[0], int) and path[0] < len(it.args):
                inner = ("elem", self.term(it.args[path[0]], depth + 1))
                return inner if len(path) == 1 else ("unpack", inner, path[1:])
            if fn in ("reversed", "sorted", "list", "tuple") and it.args and not path:
                return ("elem", self.term(it.args[0], depth + 1))
        base = ("elem", self.term(it, depth + 1))
        return base if not path else ("unpack", base, path)

    # ------------------------------------------------------------ internals
    def _term(self, e, depth):
        T = lambda x: self.term(x, depth)
        if e is None:
            return ("c", "None")
        if isinstance(e, ast.Constant):
            v = e.value
            if isinstance(v, bool) or v is None:
                return ("c", repr(v))
            if isinstance(v, (int, float)) and not isinstance(v, bool):
                if float(v) == int(v):
                    return ("c", repr(int(v))) if isinstance(v, int) else ("c", repr(float(v)))
            return ("c", repr(v))
        if isinstance(e, ast.Name):
            return self.name_term(e.id, depth)
        if isinstance(e, ast.Attribute):
            return ("a", T(e.value), e.attr)
        if isinstance(e, ast.Subscript):
            return ("s", T(e.value), self._index(e.slice, depth))
        if isinstance(e, ast.Call):
            f = T(e.func)
            args = tuple(T(a) for a in e.args)
            kws = tuple(sorted((k.arg or "**", T(k.value)) for k in e.keywords))
            # copies keep element identity
            if f in (("n", "list"), ("n", "tuple")) and len(args) == 1 and not kws:
                return ("copy", f[1], args[0])
            return ("call", f, args, kws)
        if isinstance(e, ast.BinOp):
            op = _opname(e.op)
            l, r = T(e.left), T(e.right)
            if op in COMMUTATIVE:
                ops = []
                for x in (l, r):
                    if x[0] == "op" and x[1] == op:
                        ops.extend(x[2])
                    else:
                        ops.append(x)
                return ("op", op, tuple(sorted(ops, key=repr)))
            return ("op", op, (l, r))
        if isinstance(e, ast.UnaryOp):
            if isinstance(e.op, ast.Not):
                return negate(T(e.operand))
            if isinstance(e.op, ast.USub):
                x = T(e.operand)
                if x[0] == "c":
                    try:
                        return ("c", repr(-ast.literal_eval(x[1])))
                    except Exception:
                        pass
                return ("neg", x)
            if isinstance(e.op, ast.UAdd):
                return T(e.operand)
            return ("un", _opname(e.op), T(e.operand))
        if isinstance(e, ast.Compare):
            parts = []
            left = T(e.left)
            for op, c in zip(e.ops, e.comparators):
                right = T(c)
                parts.append(norm_cmp(_opname(op), left, right))
                left = right
            if len(parts) == 1:
                return parts[0]
            return ("bool", "and", tuple(sorted(parts, key=repr)))
        if isinstance(e, ast.BoolOp):
            op = "and" if isinstance(e.op, ast.And) else "or"
            vals = []
            for v in e.values:
                x = T(v)
                if x[0] == "bool" and x[1] == op:
                    vals.extend(x[2])
                else:
                    vals.append(x)
            return ("bool", op, tuple(sorted(set(vals), key=repr)))
        if isinstance(e, ast.IfExp):
            return ("ifexp", T(e.test), T(e.body), T(e.orelse))
        if isinstance(e, ast.Tuple):
            return ("tuple",) + tuple(T(x) for x in e.elts)
        if isinstance(e, ast.List):
            return ("list",) + tuple(T(x) for x in e.elts)
        if isinstance(e, ast.Set):
            return ("set",) + tuple(sorted((T(x) for x in e.elts), key=repr))
        if isinstance(e, ast.Dict):
            return ("dict",) + tuple((T(k) if k is not None else ("c", "**"), T(v)) for k, v in zip(e.keys, e.values))
        if isinstance(e, ast.Starred):
            return ("star", T(e.value))
        if isinstance(e, ast.JoinedStr):
            return ("fstr", ast.dump(e))
        if isinstance(e, ast.Slice):
            return self._index(e, depth)
        if isinstance(e, (ast.ListComp, ast.SetComp, ast.GeneratorExp, ast.DictComp, ast.Lambda)):
            return self._comp(e, depth)
        if isinstance(e, ast.NamedExpr):
            return T(e.value)
        return ("?", ast.dump(e))

    def _index(self, s, depth):
        if isinstance(s, ast.Slice):
            return ("slice", self.term(s.lower, depth) if s.lower else ("c", "None"),
                    self.term(s.upper, depth) if s.upper else ("c", "None"),
                    self.term(s.step, depth) if s.step else ("c", "None"))
        if isinstance(s, ast.Tuple):
            return ("tuple",) + tuple(self._index(x, depth) for x in s.elts)
        return self.term(s, depth)

    def _comp(self, e, depth):
        """Comprehensions / lambdas: alpha-rename bound variables positionally, substitute
        free single-definition locals."""
        bound = []
        if isinstance(e, ast.Lambda):
            a = e.args
            bound = [x.arg for x in a.posonlyargs + a.args + a.kwonlyargs]
        else:
            for g in e.generators:
                bound += [nm.id for nm, _ in _targets(g.target)]
        ren = {n: "$%d" % i for i, n in enumerate(bound)}
        outer = self

        class Sub(Terms):
            def name_term(self2, name, d=0):
                if name in ren:
                    return ("bv", ren[name])
                return outer.name_term(name, d)

        sub = Sub(self.func, self.env, self.max_depth, self.subst_mutated)
        if isinstance(e, ast.Lambda):
            return ("lambda", len(bound), sub.term(e.body, depth))
        gens = tuple((sub._tgt(g.target), sub.term(g.iter, depth), tuple(sub.term(c, depth) for c in g.ifs))
                     for g in e.generators)
        if isinstance(e, ast.DictComp):
            body = ("kv", sub.term(e.key, depth), sub.term(e.value, depth))
        else:
            body = sub.term(e.elt, depth)
        return ("comp", type(e).__name__, body, gens)

    def _tgt(self, t):
        if isinstance(t, ast.Name):
            return self.name_term(t.id)
        if isinstance(t, (ast.Tuple, ast.List)):
            return ("tuple",) + tuple(self._tgt(x) for x in t.elts)
        return ("?", ast.dump(t))


def norm_cmp(op, l, r):
    if op in _CMP_SWAP:
        op, l, r = _CMP_SWAP[op], r, l
    if op in ("Eq", "NotEq"):
        l, r = sorted((l, r), key=repr)
    return ("cmp", op, l, r)


def negate(t):
    if t[0] == "cmp":
        op, l, r = t[1], t[2], t[3]
        nop, swap = _CMP_NEG[op]
        if swap:
            l, r = r, l
        return norm_cmp(nop, l, r)
    if t[0] == "not":
        return t[1]
    if t[0] == "bool":
        other = "or" if t[1] == "and" else "and"
        return ("bool", other, tuple(sorted((negate(x) for x in t[2]), key=repr)))
    if t == ("c", "True"):
        return ("c", "False")
    if t == ("c", "False"):
        return ("c", "True")
    return ("not", t)


def subterms(t):
    """All tagged sub-terms of t (t included)."""
    if not isinstance(t, tuple) or not t:
        return
    tagged = isinstance(t[0], str)
    if tagged:
        yield t
    for x in (t[1:] if tagged else t):
        if isinstance(x, tuple):
            yield from subterms(x)


def contains(t, sub):
    return any(x == sub for x in subterms(t))


def show(t):
    """Readable rendering of a term."""
    if not isinstance(t, tuple) or not t:
        return str(t)
    k = t[0]
    if not isinstance(k, str):
        return "<" + ", ".join(show(x) for x in t) + ">"
    if k == "c":
        return t[1]
    if k in ("n", "bv"):
        return t[1]
    if k == "a":
        return "%s.%s" % (show(t[1]), t[2])
    if k == "s":
        return "%s[%s]" % (show(t[1]), show(t[2]))
    if k == "slice":
        return "%s:%s:%s" % tuple("" if x == ("c", "None") else show(x) for x in t[1:4])
    if k == "call":
        args = [show(a) for a in t[2]] + ["%s=%s" % (kk, show(v)) for kk, v in t[3]]
        return "%s(%s)" % (show(t[1]), ", ".join(args))
    if k == "copy":
        return "%s(%s)" % (t[1], show(t[2]))
    if k == "op":
        sym = {"Add": "+", "Sub": "-", "Mult": "*", "Div": "/", "FloorDiv": "//", "Mod": "%", "Pow": "**",
               "MatMult": "@"}.get(t[1], t[1])
        return "(" + (" %s " % sym).join(show(x) for x in t[2]) + ")"
    if k == "neg":
        return "-%s" % show(t[1])
    if k == "cmp":
        sym = {"Lt": "<", "LtE": "<=", "Eq": "==", "NotEq": "!=", "In": "in", "NotIn": "not in", "Is": "is",
               "IsNot": "is not"}[t[1]]
        return "%s %s %s" % (show(t[2]), sym, show(t[3]))
    if k == "bool":
        return "(" + (" %s " % t[1]).join(show(x) for x in t[2]) + ")"
    if k == "not":
        return "not %s" % show(t[1])
    if k == "unpack":
        return "%s#%s" % (show(t[1]), ".".join(map(str, t[2])))
    if k in ("elem", "idx"):
        return "%s(%s)" % (k, show(t[1]))
    if k in ("tuple", "list", "set"):
        return k + "(" + ", ".join(show(x) for x in t[1:]) + ")"
    if k == "ifexp":
        return "(%s if %s else %s)" % (show(t[2]), show(t[1]), show(t[3]))
    return k + "(" + ", ".join(show(x) if isinstance(x, tuple) else str(x) for x in t[1:]) + ")"


def terms_of(funcinfo_or_node, **kw):
    node = getattr(funcinfo_or_node, "node", funcinfo_or_node)
    cache = getattr(node, "_sa_terms", None)
    if cache is None:
        cache = node._sa_terms = {}
    k = tuple(sorted(kw.items()))
    if k not in cache:
        cache[k] = Terms(node, **kw)
    return cache[k]
