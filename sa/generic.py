"""Generic cross-reference scans used by the thorough tier.  They never produce violations: their hits are printed as
NOTE lines and listed in the evidence, restricted to the files a property is anchored in.  Armed rules live in sa/props."""
import ast
import json
import os

from .cfg import walk_local
from .dataflow import DefiniteAssignment
from . import rules as R

VERIF = os.path.dirname(os.path.dirname(os.path.abspath(__file__)))


def anchor_modules(prop):
    mods = set()
    with open(os.path.join(VERIF, "properties.jsonl")) as fh:
        for line in fh:
            p = json.loads(line)
            if p["id"] == prop:
                for f in p["anchors"]["files"]:
                    mods.add(os.path.basename(f)[:-3])
    return mods


def possibly_undefined(prog, mods):
    out = []
    for q, fi in sorted(prog.functions.items()):
        if fi.module.name not in mods:
            continue
        try:
            da = DefiniteAssignment(prog, fi)
        except Exception as e:      # a scan must never break a check
            out.append({"scan": "definite-assignment", "where": fi.qual, "loc": fi.loc(), "what": "scan failed: %r" % e})
            continue
        seen = set()
        for (name, ld, node) in da.possibly_undefined():
            if name in seen:
                continue
            seen.add(name)
            out.append({"scan": "definite-assignment", "where": fi.qual, "loc": fi.loc(ld),
                        "what": "local `%s` may be read before assignment" % name})
    return out


def read_never_stored(prog, mods):
    """self attributes read in a class of the anchor modules that no class of its hierarchy ever stores."""
    out = []
    for cq, ci in sorted(prog.classes.items()):
        if ci.module.name not in mods:
            continue
        family = set(ci.mro) | set(prog.all_subclasses(ci))
        stored = set()
        methods = set()
        for c2 in family:
            stored |= set(c2.class_attrs)
            methods |= set(c2.methods)
            for f in c2.methods.values():
                for s in R.self_stores(f):
                    stored.add(s.attr)
        if any(c2.external_bases and any(b not in ("object", "ABC", "abc.ABC", "Enum") for b in c2.external_bases) for c2 in ci.mro):
            continue
        for f in ci.methods.values():
            for attr, nodes in R.attr_reads(f.node, f.self_name or "self").items():
                if attr in stored or attr in methods or attr.startswith("__"):
                    continue
                # attributes set from outside (obj.attr = ...) anywhere in the package
                if any(s.attr == attr for f2 in prog.functions.values() for s in R.attribute_stores(f2.node)):
                    continue
                out.append({"scan": "read-never-stored", "where": f.qual, "loc": f.loc(nodes[0]),
                            "what": "self.%s is read but no class of the hierarchy ever stores it" % attr})
    return out


def arity(prog, mods):
    """self.m(...) calls whose positional argument count fits no implementation reachable by CHA."""
    out = []
    for q, fi in sorted(prog.functions.items()):
        if fi.module.name not in mods or fi.cls is None or fi.self_name is None:
            continue
        for c in walk_local(fi.node):
            if isinstance(c, ast.Call) and isinstance(c.func, ast.Attribute) and isinstance(c.func.value, ast.Name) and c.func.value.id == fi.self_name:
                if any(isinstance(a, ast.Starred) for a in c.args) or any(k.arg is None for k in c.keywords):
                    continue
                targets = prog.dynamic_targets(fi.cls, c.func.attr)
                if not targets:
                    continue
                fits = False
                for t in targets:
                    a = t.node.args
                    params = [x.arg for x in a.posonlyargs + a.args]
                    if not t.is_static:
                        params = params[1:]
                    nreq = len(params) - len(a.defaults)
                    npos = len(c.args)
                    kw = {k.arg for k in c.keywords}
                    if a.vararg is not None or (npos <= len(params) and npos + len(kw & set(params[npos:])) >= nreq):
                        fits = True
                if not fits:
                    out.append({"scan": "arity", "where": fi.qual, "loc": fi.loc(c),
                                "what": "`%s` passes %d positional arguments; no implementation of %s accepts that" % (R.src(c)[:60], len(c.args), c.func.attr)})
    return out


def run_all(prog, prop):
    mods = anchor_modules(prop)
    notes = []
    for scan in (possibly_undefined, read_never_stored, arity):
        try:
            notes += scan(prog, mods)
        except Exception as e:
            notes.append({"scan": scan.__name__, "where": "-", "loc": "-", "what": "scan failed: %r" % e})
    return notes
