"""Checker self-test: breaking and neutral variants of /repo's current source.

Each variant is an edit (file, old fragment -> new fragment) applied to a scratch copy of
sparseSpACE/ under $TMPDIR (outside /repo and /verif, removed right after).  A *breaking*
variant must still byte-compile and must be reported as an unlisted violation of the named
rule; a *neutral* variant must leave the check silent (exit 0, no analysis error).  A variant
whose old fragment no longer applies is skipped and counted, never failed.  Seeded patches
(/verif/seeded/<id>/patch.diff) are applied with `patch -p1` and treated like breaking variants.

A failure here discredits the checker (ANALYSIS-ERROR, exit 2); it never accuses the repository."""
import glob
import json
import multiprocessing
import os
import random
import shutil
import subprocess
import sys
import tempfile
import traceback

from . import report
from .loader import AnalysisError, Program, PKG

VERIF = report.VERIF


def load_variants(prop=None):
    out = []
    for path in sorted(glob.glob(os.path.join(VERIF, "selftest", "variants_*.py"))):
        ns = {}
        with open(path) as fh:
            exec(compile(fh.read(), path, "exec"), ns)
        for v in ns["VARIANTS"]:
            if prop is None or v["prop"] == prop:
                out.append(v)
    ids = [v["id"] for v in out]
    if len(ids) != len(set(ids)):
        raise AnalysisError("duplicate self-test variant ids")
    return out


def load_seeded(prop=None):
    out = []
    for meta in sorted(glob.glob(os.path.join(VERIF, "seeded", "*", "meta.json"))):
        with open(meta) as fh:
            m = json.load(fh)
        d = os.path.dirname(meta)
        props = m.get("detected_by") or []
        if prop is None or prop in props:
            out.append({"id": "seeded/" + os.path.basename(d), "patch": os.path.join(d, "patch.diff"),
                        "props": props, "expected_detected": bool(props), "meta": m})
    return out


def load_neutral_patches(prop=None):
    """Behaviour-preserving refactorings filed under /verif/neutral/<id>/ (patch.diff + meta.json with the properties to run)."""
    out = []
    for meta in sorted(glob.glob(os.path.join(VERIF, "neutral", "*", "meta.json"))):
        with open(meta) as fh:
            m = json.load(fh)
        d = os.path.dirname(meta)
        if prop is None or prop in (m.get("props") or []):
            out.append({"id": "neutral/" + os.path.basename(d), "patch": os.path.join(d, "patch.diff"), "kind": "neutral"})
    return out


def _scratch(repo_root):
    base = tempfile.mkdtemp(prefix="sa-selftest-")
    shutil.copytree(os.path.join(repo_root, PKG), os.path.join(base, PKG),
                    ignore=shutil.ignore_patterns("__pycache__", "*.pyc"))
    return base


def _apply_edit(base, v):
    """Returns None if applied, or a reason string if the fragment does not apply."""
    edits = v.get("edits") or [v]
    for e in edits:
        path = os.path.join(base, PKG, e["file"])
        if not os.path.exists(path):
            return "file %s missing" % e["file"]
        with open(path) as fh:
            s = fh.read()
        cnt = s.count(e["old"])
        nth = e.get("nth")
        if cnt == 0:
            return "fragment not found"
        if nth is None and cnt != 1 and not e.get("all"):
            return "fragment ambiguous (%d matches)" % cnt
        if e.get("all"):
            s = s.replace(e["old"], e["new"])
        else:
            idx = -1
            for _ in range((nth or 0) + 1):
                idx = s.find(e["old"], idx + 1)
                if idx < 0:
                    return "fragment occurrence %s not found" % nth
            s = s[:idx] + e["new"] + s[idx + len(e["old"]):]
        try:
            compile(s, path, "exec", dont_inherit=True)
        except SyntaxError as ex:
            return "BROKEN-VARIANT does not compile: %s" % ex
        with open(path, "w") as fh:
            fh.write(s)
    return None


def _run_one(job):
    kind, v, repo_root, prop = job
    import warnings
    warnings.simplefilter("ignore")
    from .main import run_property
    base = _scratch(repo_root)
    try:
        if kind in ("seeded", "neutralpatch"):
            r = subprocess.run(["patch", "-p1", "-s", "-d", base, "-i", v["patch"]], capture_output=True, text=True)
            if r.returncode != 0:
                return {"id": v["id"], "status": "skipped", "why": "patch does not apply: " + (r.stdout + r.stderr)[:200]}
            expect = "break" if kind == "seeded" else "neutral"
            want_rule = None
        else:
            why = _apply_edit(base, v)
            if why is not None:
                if why.startswith("BROKEN-VARIANT"):
                    return {"id": v["id"], "status": "failed", "why": why}
                return {"id": v["id"], "status": "skipped", "why": why}
            expect = v["kind"]
            want_rule = v.get("rule")
        try:
            ctx, _mod = run_property(prop, base)
            viol, kn, tr = report.classify(prop, ctx.instances)
            err = None
        except AnalysisError as e:
            viol, err = [], str(e)
        rules = sorted({x.rule for x in viol})
        if expect == "break":
            if err is not None:
                return {"id": v["id"], "status": "failed", "why": "analysis error instead of a violation: " + err}
            if not viol:
                return {"id": v["id"], "status": "failed", "why": "breaking variant not reported"}
            if want_rule and not any(r == want_rule or r.startswith(want_rule) for r in rules):
                return {"id": v["id"], "status": "failed", "why": "reported by %s, expected %s" % (rules, want_rule)}
            return {"id": v["id"], "status": "detected", "rules": rules,
                    "report": "%s %s at %s" % (viol[0].rule, viol[0].key, viol[0].loc)}
        else:
            if err is not None:
                return {"id": v["id"], "status": "failed", "why": "neutral variant made the analysis fail: " + err}
            if viol:
                return {"id": v["id"], "status": "failed",
                        "why": "false alarm on neutral variant: %s %s" % (viol[0].rule, viol[0].key)}
            return {"id": v["id"], "status": "silent"}
    except Exception as e:
        return {"id": v.get("id"), "status": "failed", "why": "internal error %s: %s\n%s" % (type(e).__name__, e, traceback.format_exc()[-600:])}
    finally:
        shutil.rmtree(base, ignore_errors=True)


def run_for(prop, repo_root, seed=0, jobs=None):
    variants = load_variants(prop)
    seeded = load_seeded(prop)
    neutral = load_neutral_patches(prop)
    work = [("variant", v, repo_root, prop) for v in variants] + [("seeded", s, repo_root, prop) for s in seeded] + \
           [("neutralpatch", v, repo_root, prop) for v in neutral]
    random.Random(seed).shuffle(work)
    results = []
    if work:
        n = jobs or min(16, os.cpu_count() or 4, len(work))
        if n > 1:
            with multiprocessing.get_context("fork").Pool(n) as pool:
                results = pool.map(_run_one, work, chunksize=1)
        else:
            results = [_run_one(w) for w in work]
    summary = {"variants": len(variants), "seeded": len(seeded), "neutral_patches": len(neutral),
               "detected": sum(1 for r in results if r["status"] == "detected"),
               "silent": sum(1 for r in results if r["status"] == "silent"),
               "skipped": sum(1 for r in results if r["status"] == "skipped"),
               "failed": sum(1 for r in results if r["status"] == "failed"),
               "results": sorted(results, key=lambda r: str(r["id"]))}
    failures = ["%s: %s" % (r["id"], r.get("why", "")) for r in results if r["status"] == "failed"]
    return {"summary": summary, "failures": failures}


def main(argv=None):
    import argparse
    ap = argparse.ArgumentParser()
    ap.add_argument("prop", nargs="?")
    ap.add_argument("--repo", default="/repo")
    a = ap.parse_args(argv)
    from .main import available
    props = [a.prop] if a.prop else available()
    rc = 0
    for p in props:
        st = run_for(p, a.repo)
        s = st["summary"]
        print("%s: variants=%d seeded=%d neutral-patches=%d detected=%d silent=%d skipped=%d failed=%d"
              % (p, s["variants"], s["seeded"], s["neutral_patches"], s["detected"], s["silent"], s["skipped"], s["failed"]))
        for r in s["results"]:
            if r["status"] in ("skipped",):
                print("   skipped %s: %s" % (r["id"], r.get("why")))
        for f in st["failures"]:
            print("   FAILED %s" % f)
            rc = 2
    return rc


if __name__ == "__main__":
    sys.exit(main())
