"""Load-time normalisation of call arguments: one canonical way to pass an argument.

`obj.m(a, p2=b)` and `obj.m(a, b)` bind alike; rules should not care which one a maintainer wrote.  Every call whose callee
resolves to definitions inside the package gets its keyword arguments moved into positional position as far as they continue
the positional prefix (`f(a, c=3, b=2)` -> `f(a, 2, 3)` for `def f(a, b, c)`), so that positional access `call.args[k]` sees
them.  Resolution is by class-hierarchy-free name agreement: ALL package definitions a call could reach (every method of that
name for `x.m(...)`, the constructor for `Cls(...)`, the function for `f(...)`) must agree on the parameter name at each
position that is rewritten; otherwise the call is left as written.  Keywords that cannot join the prefix (a gap before
them) stay keywords; rules that want a particular parameter use `bound_argument` below, which looks in both places.

Analysis-only: the evaluation order of the argument expressions is not preserved and does not need to be."""
import ast


def _positional_params(fi, drop_self):
    a = fi.node.args
    names = [x.arg for x in a.posonlyargs + a.args]
    if drop_self and fi.cls is not None and not fi.is_static:
        names = names[1:]
    return names, a.vararg is not None


def _candidates(prog, mi, call, scope_cls):
    """[(FuncInfo, drop_self)] the call may reach, or [] when nothing in the package matches."""
    f = call.func
    if isinstance(f, ast.Attribute):
        # explicit class call  Base.m(self, ...)
        if isinstance(f.value, (ast.Name, ast.Attribute)):
            ci = prog.resolve_class_expr(mi.name, f.value, scope_cls)
            if ci is not None:
                tgt = prog.lookup_method(ci, f.attr)
                return [(tgt, False)] if tgt is not None else []
        return [(m, True) for m in prog.methods_named(f.attr)]
    if isinstance(f, ast.Name):
        ci = prog.resolve_class_expr(mi.name, f, scope_cls)
        if ci is not None:
            init = prog.lookup_method(ci, "__init__")
            return [(init, True)] if init is not None else []
        r = prog.resolve_name(mi.name, f.id)
        if r and r[0] == "func" and r[1] in prog.functions:
            return [(prog.functions[r[1]], False)]
    return []


# positional parameter order of a few library functions the package calls (numpy / numpy.linalg as documented); only used to move a
# keyword that continues the positional prefix, e.g. LA.norm(x, ord=p) -> LA.norm(x, p)
EXTERNAL_SIGNATURES = {
    "norm": ["x", "ord", "axis", "keepdims"],
    "append": ["arr", "values", "axis"],
    "delete": ["arr", "obj", "axis"],
    "amin": ["a", "axis"], "amax": ["a", "axis"], "sum": ["a", "axis"], "prod": ["a", "axis"],
    "reshape": ["a", "newshape"],
    "linspace": ["start", "stop", "num"],
    "where": ["condition", "x", "y"],
    "inner": ["a", "b"], "dot": ["a", "b"], "outer": ["a", "b"],
    "argsort": ["a", "axis"],
}
EXTERNAL_ROOTS = {"np", "numpy", "LA", "linalg"}


def _rewrite_external(call):
    f = call.func
    if not (isinstance(f, ast.Attribute) and f.attr in EXTERNAL_SIGNATURES):
        return 0
    root = f.value
    while isinstance(root, ast.Attribute):
        root = root.value
    if not (isinstance(root, ast.Name) and root.id in EXTERNAL_ROOTS):
        return 0
    names = EXTERNAL_SIGNATURES[f.attr]
    moved = 0
    while len(call.args) < len(names):
        kw = [x for x in call.keywords if x.arg == names[len(call.args)]]
        if len(kw) != 1:
            break
        call.keywords.remove(kw[0])
        call.args.append(kw[0].value)
        moved += 1
    return moved


def _rewrite(call, cands):
    sigs = [_positional_params(fi, drop) for fi, drop in cands]
    moved = 0
    while True:
        k = len(call.args)
        names = set()
        for names_k, vararg in sigs:
            if k >= len(names_k):
                return moved                         # some candidate has no such positional parameter
            names.add(names_k[k])
        if len(names) != 1:
            return moved
        name = names.pop()
        kw = [x for x in call.keywords if x.arg == name]
        if len(kw) != 1:
            return moved
        call.keywords.remove(kw[0])
        call.args.append(kw[0].value)
        moved += 1


def normalise_call_arguments(prog):
    """rewrites the module trees in place; returns the number of arguments moved"""
    total = 0
    for mi in prog.modules.values():
        # class scope of every node, for nested class names
        def walk(node, scope_cls):
            nonlocal total
            for ch in ast.iter_child_nodes(node):
                sc = scope_cls
                if isinstance(ch, ast.ClassDef):
                    q = None
                    for c in prog.classes.values():
                        if c.node is ch:
                            q = c
                            break
                    sc = q
                if isinstance(ch, ast.Call) and ch.keywords and not any(isinstance(a, ast.Starred) for a in ch.args) \
                        and not any(k.arg is None for k in ch.keywords):
                    cands = _candidates(prog, mi, ch, scope_cls)
                    if cands:
                        total += _rewrite(ch, cands)
                    else:
                        total += _rewrite_external(ch)
                walk(ch, sc)
        walk(mi.tree, None)
    return total


def bound_argument(prog, fi, call, param):
    """the argument expression a call passes for parameter `param` (positional or keyword), or None.  The callee is resolved
    as above; without a resolvable callee only a keyword of that name is found."""
    for k in call.keywords:
        if k.arg == param:
            return k.value
    cands = _candidates(prog, fi.module, call, fi.cls)
    pos = set()
    for c, drop in cands:
        names, _v = _positional_params(c, drop)
        if param not in names:
            return None
        pos.add(names.index(param))
    if len(pos) == 1:
        i = pos.pop()
        if i < len(call.args) and not any(isinstance(a, ast.Starred) for a in call.args[:i + 1]):
            return call.args[i]
    return None
