"""Per-function control-flow graph with dominators / post-dominators and the
path queries the rules are built from.  One node per simple statement, one per
atomic branch test (``and``/``or``/``not`` in tests are decomposed into
short-circuit edges), one per ``for`` header and ``with`` header."""
import ast

from .loader import AnalysisError


class Node:
    __slots__ = ("idx", "kind", "ast", "stmt", "succ", "pred", "loops")

    def __init__(self, idx, kind, node=None, stmt=None):
        self.idx = idx
        self.kind = kind        # entry | exit | raise | stmt | test | for | with | join
        self.ast = node         # the statement or the test expression
        self.stmt = stmt        # owning statement (If/While/For/With or the simple stmt)
        self.succ = []          # [(Node, label)]  label: True/False/None/'exc'
        self.pred = []          # [(Node, label)]
        self.loops = ()         # enclosing loop statements (outermost first)

    @property
    def lineno(self):
        return getattr(self.ast, "lineno", getattr(self.stmt, "lineno", 0))

    def __repr__(self):
        return "<N%d %s L%s>" % (self.idx, self.kind, self.lineno)


def _is_const_false(e):
    return isinstance(e, ast.Constant) and e.value in (False, 0, None)


def _is_const_true(e):
    return isinstance(e, ast.Constant) and e.value is not None and bool(e.value) and not isinstance(e.value, str)


class CFG:
    def __init__(self, funcnode):
        self.func = funcnode
        self.nodes = []
        self.entry = self._new("entry")
        self.exit = self._new("exit")          # normal return / fall off the end
        self.raise_exit = self._new("raise")   # raise / assert False
        self.by_stmt = {}                      # id(stmt) -> [Node]
        self._loops = []                       # stack of (continue_target, break_frontier, stmt)
        out = self._block(funcnode.body, [(self.entry, None)])
        self._connect(out, self.exit)
        self._dom = None
        self._pdom = {}

    # ------------------------------------------------------------ building
    def _new(self, kind, node=None, stmt=None):
        n = Node(len(self.nodes), kind, node, stmt)
        self.nodes.append(n)
        if stmt is not None:
            self.by_stmt.setdefault(id(stmt), []).append(n)
        if hasattr(self, "_loops"):
            n.loops = tuple(l[2] for l in self._loops)
        return n

    def _connect(self, frontier, target):
        for (n, lab) in frontier:
            if (target, lab) not in n.succ:
                n.succ.append((target, lab))
                target.pred.append((n, lab))

    def _cond(self, expr, frontier, stmt):
        """Returns (true_frontier, false_frontier)."""
        if isinstance(expr, ast.BoolOp) and isinstance(expr.op, ast.And):
            false_f = []
            cur = frontier
            for v in expr.values:
                t, f = self._cond(v, cur, stmt)
                false_f += f
                cur = t
            return cur, false_f
        if isinstance(expr, ast.BoolOp) and isinstance(expr.op, ast.Or):
            true_f = []
            cur = frontier
            for v in expr.values:
                t, f = self._cond(v, cur, stmt)
                true_f += t
                cur = f
            return true_f, cur
        if isinstance(expr, ast.UnaryOp) and isinstance(expr.op, ast.Not):
            t, f = self._cond(expr.operand, frontier, stmt)
            return f, t
        n = self._new("test", expr, stmt)
        self._connect(frontier, n)
        if _is_const_true(expr):
            return [(n, True)], []
        if _is_const_false(expr):
            return [], [(n, False)]
        return [(n, True)], [(n, False)]

    def _block(self, stmts, frontier):
        for st in stmts:
            frontier = self._stmt(st, frontier)
        return frontier

    def _stmt(self, st, frontier):
        if isinstance(st, ast.If):
            t, f = self._cond(st.test, frontier, st)
            out_t = self._block(st.body, t)
            out_f = self._block(st.orelse, f) if st.orelse else f
            return out_t + out_f
        if isinstance(st, ast.While):
            head = self._new("join", None, st)
            self._connect(frontier, head)
            brk = []
            self._loops.append((head, brk, st))
            t, f = self._cond(st.test, [(head, None)], st)
            out_body = self._block(st.body, t)
            self._loops.pop()
            self._connect(out_body, head)
            out = self._block(st.orelse, f) if st.orelse else f
            return out + brk
        if isinstance(st, (ast.For, ast.AsyncFor)):
            head = self._new("for", st, st)
            self._connect(frontier, head)
            brk = []
            self._loops.append((head, brk, st))
            out_body = self._block(st.body, [(head, True)])
            self._loops.pop()
            self._connect(out_body, head)
            f = [(head, False)]
            out = self._block(st.orelse, f) if st.orelse else f
            return out + brk
        if isinstance(st, (ast.With, ast.AsyncWith)):
            head = self._new("with", st, st)
            self._connect(frontier, head)
            return self._block(st.body, [(head, None)])
        if isinstance(st, ast.Try) or st.__class__.__name__ == "TryStar":
            # conservative: every statement of the body may jump to every handler
            start = self._new("join", None, st)
            self._connect(frontier, start)
            first = len(self.nodes)
            out_body = self._block(st.body, [(start, None)])
            body_nodes = [start] + self.nodes[first:]
            outs = []
            for h in st.handlers:
                hf = [(b, "exc") for b in body_nodes if b.kind not in ("exit", "raise")]
                outs += self._block(h.body, hf)
            out_else = self._block(st.orelse, out_body) if st.orelse else out_body
            allout = out_else + outs
            if st.finalbody:
                allout = self._block(st.finalbody, allout)
            return allout
        if isinstance(st, ast.Return):
            n = self._new("stmt", st, st)
            self._connect(frontier, n)
            self._connect([(n, None)], self.exit)
            return []
        if isinstance(st, ast.Raise):
            n = self._new("stmt", st, st)
            self._connect(frontier, n)
            self._connect([(n, None)], self.raise_exit)
            return []
        if isinstance(st, ast.Assert):
            n = self._new("stmt", st, st)
            self._connect(frontier, n)
            if _is_const_false(st.test):
                self._connect([(n, None)], self.raise_exit)
                return []
            return [(n, None)]
        if isinstance(st, ast.Break):
            n = self._new("stmt", st, st)
            self._connect(frontier, n)
            if not self._loops:
                raise AnalysisError("break outside loop")
            self._loops[-1][1].append((n, None))
            return []
        if isinstance(st, ast.Continue):
            n = self._new("stmt", st, st)
            self._connect(frontier, n)
            self._connect([(n, None)], self._loops[-1][0])
            return []
        if isinstance(st, ast.Match):
            raise AnalysisError("match statement not modelled (line %d)" % st.lineno)
        n = self._new("stmt", st, st)
        self._connect(frontier, n)
        return [(n, None)]

    # ------------------------------------------------------------- queries
    def node_of(self, stmt):
        """The CFG node of a simple statement / for-header / with-header."""
        ns = self.by_stmt.get(id(stmt), [])
        for n in ns:
            if n.kind in ("stmt", "for", "with"):
                return n
        if ns:
            return ns[0]
        return None

    def node_containing(self, astnode):
        """CFG node whose statement/test contains the given ast node."""
        n = astnode
        while n is not None:
            if id(n) in self._ast_index():
                return self._ast_index()[id(n)]
            n = getattr(n, "_parent", None)
        return None

    def _ast_index(self):
        if not hasattr(self, "_aidx"):
            idx = {}
            for n in self.nodes:
                if n.kind == "test":
                    idx[id(n.ast)] = n
                elif n.kind in ("for",):
                    # iter and target belong to the header
                    idx[id(n.ast.iter)] = n
                    idx[id(n.ast.target)] = n
                elif n.kind == "with":
                    for it in n.ast.items:
                        idx[id(it)] = n
                elif n.kind == "stmt":
                    idx[id(n.ast)] = n
            self._aidx = idx
        return self._aidx

    def reachable(self, start=None, blocked=(), blocked_edges=()):
        """Set of node indices reachable from start (default entry) without entering
        a blocked node or traversing a blocked edge (src_idx, dst_idx, label)."""
        start = start or self.entry
        blocked = {b.idx if isinstance(b, Node) else b for b in blocked}
        be = set(blocked_edges)
        seen = set()
        if start.idx in blocked:
            return seen
        work = [start]
        seen.add(start.idx)
        while work:
            n = work.pop()
            for (s, lab) in n.succ:
                if s.idx in seen or s.idx in blocked:
                    continue
                if (n.idx, s.idx, lab) in be or (n.idx, None, lab) in be:
                    continue
                seen.add(s.idx)
                work.append(s)
        return seen

    def reachable_after(self, start, blocked=()):
        """Nodes reachable from the successors of start (start itself only if on a cycle)."""
        blocked = {b.idx if isinstance(b, Node) else b for b in blocked}
        seen = set()
        work = []
        for (s, _l) in start.succ:
            if s.idx not in blocked and s.idx not in seen:
                seen.add(s.idx)
                work.append(s)
        while work:
            n = work.pop()
            for (s, _l) in n.succ:
                if s.idx not in seen and s.idx not in blocked:
                    seen.add(s.idx)
                    work.append(s)
        return seen

    def live_nodes(self):
        r = self.reachable()
        return [n for n in self.nodes if n.idx in r]

    def dominators(self):
        """dom[i] = bitset of nodes dominating node i (reachable nodes only)."""
        if self._dom is not None:
            return self._dom
        reach = self.reachable()
        order = self._rpo(self.entry, lambda n: [s for s, _ in n.succ], reach)
        full = 0
        for i in reach:
            full |= 1 << i
        dom = {i: full for i in reach}
        dom[self.entry.idx] = 1 << self.entry.idx
        changed = True
        while changed:
            changed = False
            for n in order:
                if n is self.entry:
                    continue
                new = full
                for (p, _l) in n.pred:
                    if p.idx in reach:
                        new &= dom[p.idx]
                new |= 1 << n.idx
                if new != dom[n.idx]:
                    dom[n.idx] = new
                    changed = True
        self._dom = dom
        return dom

    def _rpo(self, start, succs, allowed):
        seen = set()
        post = []
        stack = [(start, iter(succs(start)))]
        seen.add(start.idx)
        while stack:
            n, it = stack[-1]
            adv = False
            for s in it:
                if s.idx in allowed and s.idx not in seen:
                    seen.add(s.idx)
                    stack.append((s, iter(succs(s))))
                    adv = True
                    break
            if not adv:
                post.append(n)
                stack.pop()
        post.reverse()
        return post

    def dominates(self, a, b):
        """Every path entry -> b passes through a."""
        dom = self.dominators()
        if b.idx not in dom:
            return True     # b unreachable: vacuous
        return bool(dom[b.idx] >> a.idx & 1)

    def post_dominates(self, a, b, normal_only=True):
        """Every path from b to the (normal) exit passes through a.  With normal_only
        paths ending in raise / assert False are ignored."""
        blocked = [a]
        if normal_only:
            blocked.append(self.raise_exit)
        r = self.reachable(b, blocked=blocked) if b is not a else set()
        if b is a:
            return True
        if self.exit.idx in r:
            return False
        if not normal_only and self.raise_exit.idx in r:
            return False
        return True

    def edge_dominates(self, test, label, b):
        """Every path entry -> b traverses an out-edge of `test` carrying `label`."""
        be = set()
        for (s, lab) in test.succ:
            if lab == label:
                be.add((test.idx, s.idx, lab))
        r = self.reachable(blocked_edges=be)
        return b.idx not in r

    def must_pass_through(self, a, targets, via, normal_only=True):
        """Every path from (after) a to any node in targets passes a node in via."""
        r = self.reachable_after(a, blocked=list(via) + ([self.raise_exit] if normal_only else []))
        return not any(t.idx in r for t in targets)

    def path_avoiding(self, a, targets, via):
        """One witness path (list of nodes) from after a to a target avoiding via, or None."""
        blocked = {v.idx for v in via}
        prev = {}
        work = []
        for (s, _l) in a.succ:
            if s.idx not in blocked and s.idx not in prev:
                prev[s.idx] = a
                work.append(s)
        tset = {t.idx for t in targets}
        while work:
            n = work.pop(0)
            if n.idx in tset:
                path = [n]
                while path[-1] is not a and path[-1].idx in prev:
                    path.append(prev[path[-1].idx])
                    if path[-1] is a:
                        break
                return list(reversed(path))
            for (s, _l) in n.succ:
                if s.idx not in blocked and s.idx not in prev:
                    prev[s.idx] = n
                    work.append(s)
        return None

    def in_loop(self, node, loop_stmt):
        return any(l is loop_stmt for l in node.loops)

    def loop_body_nodes(self, loop_stmt):
        return [n for n in self.nodes if any(l is loop_stmt for l in n.loops)]


def cfg_of(funcinfo_or_node):
    """CFG of a function, cached on the ast node itself (never in a global table: node ids are
    recycled when several program versions are analysed in one process)."""
    node = getattr(funcinfo_or_node, "node", funcinfo_or_node)
    c = getattr(node, "_sa_cfg", None)
    if c is None:
        c = CFG(node)
        node._sa_cfg = c
    return c


def simple_statements(funcnode):
    """All statements of a function body in source order, not descending into nested defs/classes."""
    out = []

    def walk(stmts):
        for st in stmts:
            out.append(st)
            for fld in ("body", "orelse", "finalbody"):
                sub = getattr(st, fld, None)
                if isinstance(sub, list) and sub and isinstance(sub[0], ast.stmt) and not isinstance(
                        st, (ast.FunctionDef, ast.AsyncFunctionDef, ast.ClassDef)):
                    walk(sub)
            if isinstance(st, ast.Try):
                for h in st.handlers:
                    walk(h.body)
    walk(funcnode.body)
    return out


def walk_local(node):
    """ast.walk that does not descend into nested function/class definitions or lambdas
    (but yields them)."""
    work = [node]
    first = True
    while work:
        n = work.pop()
        yield n
        if not first and isinstance(n, (ast.FunctionDef, ast.AsyncFunctionDef, ast.ClassDef, ast.Lambda)):
            continue
        first = False
        work.extend(reversed(list(ast.iter_child_nodes(n))))
