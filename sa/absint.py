"""Small abstract interpreters over expressions (no paths enumerated, no solver):
 * Parity x small constants
 * Polynomial identity (rational coefficients over opaque atoms)
 * Sign
Each works on ast expressions with an environment resolving names to already-computed abstract values
or to defining expressions (copy propagation of straight-line code)."""
import ast
from fractions import Fraction

from .loader import AnalysisError

# ----------------------------------------------------------------------------- parity
EVEN, ODD, TOP = ("even",), ("odd",), ("top",)


def pconst(n):
    return ("const", n)


def _par(v):
    if v[0] == "const":
        if isinstance(v[1], int):
            return EVEN if v[1] % 2 == 0 else ODD
        return TOP
    return v


def parity_eval(e, env):
    """env: callable(ast expr) -> abstract value or None.  Values: ('const', n) | EVEN | ODD | TOP."""
    r = env(e)
    if r is not None:
        return r
    if isinstance(e, ast.Constant) and isinstance(e.value, (int, float)) and not isinstance(e.value, bool):
        return pconst(e.value)
    if isinstance(e, ast.UnaryOp) and isinstance(e.op, ast.USub):
        v = parity_eval(e.operand, env)
        if v[0] == "const":
            return pconst(-v[1])
        return v
    if isinstance(e, ast.UnaryOp) and isinstance(e.op, ast.UAdd):
        return parity_eval(e.operand, env)
    if isinstance(e, ast.Call) and isinstance(e.func, ast.Name) and e.func.id == "abs" and len(e.args) == 1:
        v = parity_eval(e.args[0], env)
        if v[0] == "const":
            return pconst(abs(v[1]))
        return v
    if isinstance(e, ast.Call) and isinstance(e.func, ast.Name) and e.func.id == "int" and len(e.args) == 1:
        return parity_eval(e.args[0], env)
    if isinstance(e, ast.BinOp):
        l, r = parity_eval(e.left, env), parity_eval(e.right, env)
        op = e.op
        if l[0] == "const" and r[0] == "const":
            try:
                if isinstance(op, ast.Add):
                    return pconst(l[1] + r[1])
                if isinstance(op, ast.Sub):
                    return pconst(l[1] - r[1])
                if isinstance(op, ast.Mult):
                    return pconst(l[1] * r[1])
                if isinstance(op, ast.Mod):
                    return pconst(l[1] % r[1])
                if isinstance(op, ast.Pow):
                    return pconst(l[1] ** r[1])
                if isinstance(op, ast.FloorDiv):
                    return pconst(l[1] // r[1])
            except Exception:
                return TOP
        pl, pr = _par(l), _par(r)
        if isinstance(op, (ast.Add, ast.Sub)):
            if TOP in (pl, pr):
                return TOP
            return EVEN if pl == pr else ODD
        if isinstance(op, ast.Mult):
            if l[0] == "const" and l[1] == 0 or r[0] == "const" and r[1] == 0:
                return pconst(0)
            if pl == EVEN or pr == EVEN:
                return EVEN
            if pl == ODD and pr == ODD:
                return ODD
            return TOP
        if isinstance(op, ast.Mod) and r[0] == "const" and r[1] == 2:
            if pl == EVEN:
                return pconst(0)
            if pl == ODD:
                return pconst(1)
            return TOP
        if isinstance(op, ast.Pow) and l[0] == "const" and l[1] == -1:
            if pr == EVEN:
                return pconst(1)
            if pr == ODD:
                return pconst(-1)
            return TOP
        if isinstance(op, ast.Pow) and l[0] == "const" and l[1] == 1:
            return pconst(1)
        return TOP
    if isinstance(e, ast.IfExp):
        a, b = parity_eval(e.body, env), parity_eval(e.orelse, env)
        # decide the test if it is a parity test
        t = e.test
        if isinstance(t, ast.Compare) and len(t.ops) == 1 and isinstance(t.ops[0], (ast.Eq, ast.NotEq)):
            lv, rv = parity_eval(t.left, env), parity_eval(t.comparators[0], env)
            if lv[0] == "const" and rv[0] == "const":
                res = (lv[1] == rv[1]) if isinstance(t.ops[0], ast.Eq) else (lv[1] != rv[1])
                return a if res else b
        return a if a == b else TOP
    return TOP


# ------------------------------------------------------------------------- polynomials
class Poly:
    """Multivariate polynomial with Fraction coefficients over opaque atoms (hashable terms)."""
    __slots__ = ("terms",)

    def __init__(self, terms=None):
        self.terms = {k: v for k, v in (terms or {}).items() if v != 0}

    @staticmethod
    def const(c):
        return Poly({(): Fraction(c)})

    @staticmethod
    def atom(a):
        return Poly({((a, 1),): Fraction(1)})

    def __add__(self, o):
        t = dict(self.terms)
        for k, v in o.terms.items():
            t[k] = t.get(k, 0) + v
        return Poly(t)

    def __neg__(self):
        return Poly({k: -v for k, v in self.terms.items()})

    def __sub__(self, o):
        return self + (-o)

    def __mul__(self, o):
        t = {}
        for k1, v1 in self.terms.items():
            for k2, v2 in o.terms.items():
                m = dict(k1)
                for a, p in k2:
                    m[a] = m.get(a, 0) + p
                k = tuple(sorted(((a, p) for a, p in m.items() if p != 0), key=repr))
                t[k] = t.get(k, 0) + v1 * v2
        return Poly(t)

    def is_const(self):
        return all(k == () for k in self.terms)

    def const_value(self):
        return self.terms.get((), Fraction(0))

    def __eq__(self, o):
        return isinstance(o, Poly) and self.terms == o.terms

    def __hash__(self):
        return hash(tuple(sorted(self.terms.items(), key=repr)))

    def __repr__(self):
        if not self.terms:
            return "0"
        parts = []
        for k, v in sorted(self.terms.items(), key=repr):
            mon = "*".join(("%s" % (a,) if p == 1 else "%s^%d" % (a, p)) for a, p in k)
            parts.append(("%s*%s" % (v, mon)) if mon else "%s" % v)
        return " + ".join(parts)


def poly_of_term(t):
    """Polynomial of a value term (sa.terms); non-polynomial sub-terms are atoms.  Division by a constant is allowed,
    division by a non-constant makes the quotient an atom ('inv', term) multiplied in."""
    k = t[0]
    if k == "c":
        try:
            v = ast.literal_eval(t[1])
            if isinstance(v, bool) or v is None or isinstance(v, str):
                return Poly.atom(t)
            return Poly.const(Fraction(v).limit_denominator(10 ** 12) if isinstance(v, float) else Fraction(v))
        except Exception:
            return Poly.atom(t)
    if k == "neg":
        return -poly_of_term(t[1])
    if k == "op":
        op, args = t[1], t[2]
        if op == "Add":
            r = Poly.const(0)
            for a in args:
                r = r + poly_of_term(a)
            return r
        if op == "Mult":
            r = Poly.const(1)
            for a in args:
                r = r * poly_of_term(a)
            return r
        if op == "Sub":
            return poly_of_term(args[0]) - poly_of_term(args[1])
        if op == "Div":
            num, den = poly_of_term(args[0]), poly_of_term(args[1])
            if den.is_const() and den.const_value() != 0:
                return num * Poly.const(1 / den.const_value())
            if len(den.terms) == 1:
                # a single monomial c * a1^p1 * ...: divide by negative powers, so that x * (y / x) == y
                (mono, coef), = den.terms.items()
                return num * Poly({tuple(sorted(((a, -pw) for a, pw in mono), key=repr)): 1 / coef})
            return num * Poly.atom(("inv", _canon_poly_key(den)))
        if op == "Pow":
            base, ex = poly_of_term(args[0]), poly_of_term(args[1])
            if ex.is_const() and ex.const_value().denominator == 1 and 0 <= ex.const_value() <= 6:
                r = Poly.const(1)
                for _ in range(int(ex.const_value())):
                    r = r * base
                return r
            return Poly.atom(t)
    return Poly.atom(t)


def _canon_poly_key(p):
    return tuple(sorted(p.terms.items(), key=repr))


# ------------------------------------------------------------------------------- sign
NEG, ZERO, POS, NONPOS, NONNEG, STOP, SBOT = "-", "0", "+", "<=0", ">=0", "T", "_"


def sjoin(a, b):
    if a == b:
        return a
    if a == SBOT:
        return b
    if b == SBOT:
        return a
    s = {a, b}
    if s <= {ZERO, POS, NONNEG}:
        return NONNEG
    if s <= {ZERO, NEG, NONPOS}:
        return NONPOS
    return STOP


def sneg(a):
    return {NEG: POS, POS: NEG, NONPOS: NONNEG, NONNEG: NONPOS}.get(a, a)


def sadd(a, b):
    if SBOT in (a, b):
        return SBOT
    if a == ZERO:
        return b
    if b == ZERO:
        return a
    if a in (POS, NONNEG) and b in (POS, NONNEG):
        return POS if POS in (a, b) else NONNEG
    if a in (NEG, NONPOS) and b in (NEG, NONPOS):
        return NEG if NEG in (a, b) else NONPOS
    return STOP


def smul(a, b):
    if SBOT in (a, b):
        return SBOT
    if ZERO in (a, b):
        return ZERO
    if STOP in (a, b):
        return STOP
    pos = {POS: 1, NONNEG: 1, NEG: -1, NONPOS: -1}
    strict = a in (POS, NEG) and b in (POS, NEG)
    s = pos[a] * pos[b]
    if s > 0:
        return POS if strict else NONNEG
    return NEG if strict else NONPOS


def is_nonneg(a):
    return a in (ZERO, POS, NONNEG)


def sign_of(t, assume, axiom=None):
    """Sign of a value term.  `assume(text)` records an assumption; `axiom(term)` may return a sign for a term
    (repo-specific facts such as sortedness of a point array) or None."""
    if axiom is not None:
        ax = axiom(t)
        if ax is not None:
            return ax
    k = t[0]
    if k == "c":
        try:
            v = ast.literal_eval(t[1])
        except Exception:
            return STOP
        if isinstance(v, bool) or v is None or isinstance(v, str):
            return STOP
        return POS if v > 0 else (NEG if v < 0 else ZERO)
    if k == "neg":
        return sneg(sign_of(t[1], assume, axiom))
    if k == "call":
        f = t[1]
        fname = f[2] if f[0] == "a" else (f[1] if f[0] == "n" else None)
        if fname in ("abs", "absolute", "fabs", "norm", "len", "sqrt", "square", "size"):
            return NONNEG
        if fname in ("exp", "cosh"):
            return POS
        if fname == "max" and t[2]:
            ss = [sign_of(a, assume, axiom) for a in t[2]]
            if any(is_nonneg(s) for s in ss) and len(ss) >= 2:
                return POS if POS in ss else NONNEG
            if len(ss) == 1:
                return ss[0] if is_nonneg(ss[0]) else STOP
            return STOP
        if fname in ("sum", "prod", "mean", "amax", "amin", "array", "asarray", "float") and t[2]:
            inner = sign_of(t[2][0], assume, axiom)
            return inner if is_nonneg(inner) else STOP
        return STOP
    if k == "op":
        op, args = t[1], t[2]
        if op == "Add":
            r = ZERO
            for a in args:
                r = sadd(r, sign_of(a, assume, axiom))
            return r
        if op == "Mult":
            r = POS
            for a in args:
                r = smul(r, sign_of(a, assume, axiom))
            return r
        if op == "Sub":
            return sadd(sign_of(args[0], assume, axiom), sneg(sign_of(args[1], assume, axiom)))
        if op == "Div":
            d = sign_of(args[1], assume, axiom)
            if d in (NONNEG, NONPOS):
                assume("divisors are non-zero (e.g. len(x) ** (1/norm) with a non-empty x)")
                d = POS if d == NONNEG else NEG
            return smul(sign_of(args[0], assume, axiom), d)
        if op == "Pow":
            b = sign_of(args[0], assume, axiom)
            if b in (POS, NONNEG, ZERO):
                return b if b != ZERO else NONNEG
            e = args[1]
            if e[0] == "c":
                try:
                    ev = ast.literal_eval(e[1])
                    if isinstance(ev, int) and ev % 2 == 0:
                        return NONNEG
                except Exception:
                    pass
            return STOP
    if k == "ifexp":
        return sjoin(sign_of(t[2], assume, axiom), sign_of(t[3], assume, axiom))
    if k == "comp":
        return sign_of(t[2], assume, axiom)
    return STOP


