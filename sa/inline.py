"""Look through private helper methods that the rule set does not know.

An "extract method" refactoring moves a few statements of a method into a new private helper of the same class and calls it.
Rules address constructs by role inside the function that the repository puts them in today; to keep one idiom instead of two,
a helper is substituted back into its callers before any rule runs when

  * it is private (`_name`, not a dunder) and NOT one of the private methods of the tree the rules were written against
    (`sa/known_helpers.json`, a frozen table: those are anchors that rules name),
  * it is defined in the class of the caller, is not overridden in a subclass, is not static / class method, does not call itself,
  * it has a single exit (no `return` except as its last top-level statement), contains no nested function, lambda capturing
    its locals, `yield`, `global` or `nonlocal`,
  * the call is `self._name(...)` with positional / keyword arguments that can be bound to the parameters, and it is the whole
    value of a simple statement (`x = self._h(..)`, `x += self._h(..)`, `return self._h(..)`, `self._h(..)`), or a leading argument of
    that statement's top-level call.

Substitution is by value with renamed locals: parameters bound to simple argument expressions (names, constants, attribute /
subscript chains) that the helper never re-binds are replaced by the argument; others get an explicit assignment.  Positions of the
copied statements are those of the helper, so a report points at the line that contains the offending construct."""
import ast
import copy
import json
import os

KNOWN_PATH = os.path.join(os.path.dirname(os.path.abspath(__file__)), "known_helpers.json")


def known_helpers():
    try:
        with open(KNOWN_PATH) as fh:
            d_ = json.load(fh)
            # every method of the tree the rules were written against is an anchor a rule may name; anything else is a helper that a
            # later change introduced (private or not) and is looked through
            return set(d_["private_methods"]) | set(d_.get("all_methods", []))
    except OSError:
        return None


def _clone(node):
    """Structural copy of an AST (fields and positions only; analysis attributes such as _parent / cached CFGs are not followed)."""
    if isinstance(node, list):
        return [_clone(x) for x in node]
    if not isinstance(node, ast.AST):
        return node
    if isinstance(node, (ast.expr_context, ast.operator, ast.unaryop, ast.boolop, ast.cmpop)):
        return type(node)()
    new = type(node)()
    for f in node._fields:
        if hasattr(node, f):
            setattr(new, f, _clone(getattr(node, f)))
    for a in ("lineno", "col_offset", "end_lineno", "end_col_offset"):
        if hasattr(node, a):
            setattr(new, a, getattr(node, a))
    return new


def _is_simple(e):
    if isinstance(e, (ast.Name, ast.Constant)):
        return True
    if isinstance(e, ast.Attribute):
        return _is_simple(e.value)
    if isinstance(e, ast.Subscript):
        return _is_simple(e.value) and _is_simple(e.slice)
    if isinstance(e, ast.UnaryOp):
        return _is_simple(e.operand)
    if isinstance(e, ast.BinOp):
        return _is_simple(e.left) and _is_simple(e.right)        # pure arithmetic of simple operands may be evaluated more than once
    if isinstance(e, ast.Tuple):
        return all(_is_simple(x) for x in e.elts)
    return False


def _contains_return(stmts):
    return any(isinstance(x, ast.Return) for st in stmts for x in ast.walk(st))


def _structure_returns(stmts, var):
    """Rewrite a block whose `return`s all sit in tail positions of if / else chains (guard clauses, early returns) into an equivalent
    block without `return`: every `return e` becomes `var = e`, and the statements behind an `if` one of whose branches always
    returns move into the other branch.  Returns (new statements, always assigns var) or None when a return sits inside a loop /
    try / with or a branch returns only sometimes."""
    out = []
    for i, st in enumerate(stmts):
        if isinstance(st, ast.Return):
            out.append(ast.copy_location(ast.Assign(targets=[ast.Name(id=var, ctx=ast.Store())],
                                                    value=st.value if st.value is not None else ast.Constant(value=None), lineno=st.lineno), st))
            return out, True
        if not _contains_return([st]):
            out.append(st)
            continue
        if not isinstance(st, ast.If):
            return None
        b = _structure_returns(st.body, var)
        o = _structure_returns(st.orelse, var) if st.orelse else ([], False)
        if b is None or o is None:
            return None
        (bs, br), (os_, or_) = b, o
        if br and or_:
            out.append(ast.copy_location(ast.If(test=st.test, body=bs, orelse=os_), st))
            return out, True
        if (not br and _contains_return(st.body)) or (not or_ and _contains_return(st.orelse)):
            return None
        r = _structure_returns(stmts[i + 1:], var)
        if r is None:
            return None
        rs, rr = r
        if br:
            out.append(ast.copy_location(ast.If(test=st.test, body=bs, orelse=os_ + rs), st))
        else:
            out.append(ast.copy_location(ast.If(test=st.test, body=bs + rs, orelse=os_), st))
        return out, rr
    return out, False


def _single_exit(fn):
    body = [s for s in fn.body if not (isinstance(s, ast.Expr) and isinstance(s.value, ast.Constant))]
    inner_nodes = {id(y) for x in ast.walk(fn) if x is not fn and isinstance(x, (ast.FunctionDef, ast.Lambda)) for y in ast.walk(x) if y is not x}
    rets = [x for x in ast.walk(fn) if isinstance(x, ast.Return) and id(x) not in inner_nodes]
    if len(rets) > 1 or (rets and (not body or body[-1] is not rets[0])):
        # guard clauses / early returns: try to bring the body into single-exit form
        if any(isinstance(x, (ast.FunctionDef, ast.AsyncFunctionDef, ast.Lambda, ast.Yield, ast.YieldFrom, ast.Global, ast.Nonlocal, ast.Try, ast.With))
               for x in ast.walk(fn) if x is not fn):
            return None
        var = "_ret_" + fn.name.lstrip("_")
        if any(isinstance(x, ast.Name) and x.id == var for x in ast.walk(fn)):
            return None
        r = _structure_returns(_clone(body), var)
        if r is None:
            return None
        new, always = r
        valued = any(x.value is not None and not (isinstance(x.value, ast.Constant) and x.value.value is None) for x in rets)
        if not always:
            new = [ast.copy_location(ast.Assign(targets=[ast.Name(id=var, ctx=ast.Store())], value=ast.Constant(value=None), lineno=fn.lineno), fn)] + new
        if valued:
            new = new + [ast.copy_location(ast.Return(value=ast.Name(id=var, ctx=ast.Load())), fn)]
        else:
            # a procedure: the assignments of None are dropped again
            class _Drop(ast.NodeTransformer):
                def visit_Assign(self, n):
                    if len(n.targets) == 1 and isinstance(n.targets[0], ast.Name) and n.targets[0].id == var:
                        return ast.copy_location(ast.Pass(), n)
                    return n
            new = [_Drop().visit(x) for x in new]
        for x in new:
            ast.fix_missing_locations(x)
        return new
    for x in ast.walk(fn):
        if x is not fn and isinstance(x, (ast.AsyncFunctionDef, ast.Yield, ast.YieldFrom, ast.Global, ast.Nonlocal, ast.Try, ast.With)):
            return None
        if x is not fn and isinstance(x, (ast.FunctionDef, ast.Lambda)) and not _closed_nested(fn, x):
            return None
    return body


def _closed_nested(fn, inner):
    """a nested def / lambda that reads none of the helper's locals or parameters and shares no name with them (it can be moved with
    the body unchanged)"""
    a_ = fn.args
    outer = {x.arg for x in a_.posonlyargs + a_.args + a_.kwonlyargs}
    for x in ast.walk(fn):
        if isinstance(x, ast.Name) and isinstance(x.ctx, (ast.Store, ast.Del)):
            inside = any(y is x for y in ast.walk(inner))
            if not inside:
                outer.add(x.id)
    ia = inner.args
    own = {x.arg for x in ia.posonlyargs + ia.args + ia.kwonlyargs}
    body_nodes = inner.body if isinstance(inner.body, list) else [inner.body]
    for st in body_nodes:
        for x in ast.walk(st):
            if isinstance(x, ast.Name) and isinstance(x.ctx, (ast.Store, ast.Del)):
                own.add(x.id)
            if isinstance(x, ast.comprehension):
                for t in ast.walk(x.target):
                    if isinstance(t, ast.Name):
                        own.add(t.id)
    if own & outer:
        return False
    for st in body_nodes:
        for x in ast.walk(st):
            if isinstance(x, ast.Name) and isinstance(x.ctx, ast.Load) and x.id in outer:
                return False
    return True


def _as_expression(fn):
    """A helper whose body only decides a value:  [if c: return v]* ; return w   ->   one expression (None otherwise).
    `if c: return True` ... `return False` becomes `c or ...`; other constants / expressions become conditional expressions."""
    body = [s for s in fn.body if not (isinstance(s, ast.Expr) and isinstance(s.value, ast.Constant))]

    def _tail_to_return(stmts):
        """`...; if c: return a else: return b` (both branches end in a return) -> `...; return a if c else b`"""
        if stmts and isinstance(stmts[-1], ast.If) and stmts[-1].orelse:
            last = stmts[-1]
            tb, fb = _tail_to_return(last.body), _tail_to_return(last.orelse)
            if tb is not None and fb is not None and len(tb) == 1 and len(fb) == 1:
                return stmts[:-1] + [ast.copy_location(ast.Return(value=ast.IfExp(test=last.test, body=tb[0].value, orelse=fb[0].value)), last)]
            return None
        if stmts and isinstance(stmts[-1], ast.Return) and stmts[-1].value is not None:
            return stmts
        return None
    if body and isinstance(body[-1], ast.If):
        nb = _tail_to_return(body)
        if nb is not None:
            body = nb
            for x_ in body:
                ast.fix_missing_locations(x_)
    if not body or not isinstance(body[-1], ast.Return) or body[-1].value is None:
        return None
    for x in ast.walk(fn):
        if x is not fn and isinstance(x, (ast.FunctionDef, ast.AsyncFunctionDef, ast.Lambda, ast.Yield, ast.YieldFrom, ast.Global, ast.Nonlocal,
                                          ast.NamedExpr, ast.Await)):
            return None
    # leading temporaries  `t = e`  (bound once, read once, e without side effects on what follows) are folded into what follows
    if len(body) > 1 and all(isinstance(s_, ast.Assign) for s_ in body[:-1]) and len(body) <= 6:
        work = _clone(body)
        ok_fold = True
        while len(work) > 1 and ok_fold:
            a0 = work[0]
            if not (len(a0.targets) == 1 and isinstance(a0.targets[0], ast.Name)):
                ok_fold = False
                break
            t_ = a0.targets[0].id
            stores = [x for s_ in work for x in ast.walk(s_) if isinstance(x, ast.Name) and x.id == t_ and isinstance(x.ctx, ast.Store)]
            loads = [x for s_ in work[1:] for x in ast.walk(s_) if isinstance(x, ast.Name) and x.id == t_ and isinstance(x.ctx, ast.Load)]
            if len(stores) != 1 or len(loads) != 1 or any(isinstance(x, ast.Name) and x.id == t_ for x in ast.walk(a0.value)):
                ok_fold = False
                break

            class _F(ast.NodeTransformer):
                def visit_Name(self, n_):
                    if n_.id == t_ and isinstance(n_.ctx, ast.Load):
                        return ast.copy_location(_clone(a0.value), n_)
                    return n_
            work = [_F().visit(s_) for s_ in work[1:]]
        if ok_fold and len(work) == 1 and isinstance(work[0], ast.Return):
            body = work
    expr = body[-1].value

    def fold(stmts, tail):
        """expression for `stmts; <tail>` where stmts are if-return statements only"""
        e = tail
        for st in reversed(stmts):
            if not isinstance(st, ast.If):
                return None
            tb = fold_block(st.body, None)
            if tb is None:
                return None
            if st.orelse:
                fb = fold_block(st.orelse, None)
                if fb is None:
                    return None
            else:
                fb = e
            if fb is None:
                return None
            c = st.test
            if isinstance(tb, ast.Constant) and tb.value is True and _boolish(fb):
                e = ast.BoolOp(op=ast.Or(), values=[c, fb])
            elif isinstance(tb, ast.Constant) and tb.value is False and _boolish(fb):
                e = ast.BoolOp(op=ast.And(), values=[ast.UnaryOp(op=ast.Not(), operand=c), fb])
            else:
                e = ast.IfExp(test=c, body=tb, orelse=fb)
        return e

    def fold_block(stmts, tail):
        if stmts and isinstance(stmts[-1], ast.Return) and stmts[-1].value is not None:
            return fold(stmts[:-1], stmts[-1].value)
        if tail is None:
            return None
        return fold(stmts, tail)
    return fold(body[:-1], expr)


def _boolish(e):
    return (isinstance(e, ast.Constant) and isinstance(e.value, bool)) or isinstance(e, (ast.Compare, ast.BoolOp)) or \
        (isinstance(e, ast.UnaryOp) and isinstance(e.op, ast.Not))


class _Subst(ast.NodeTransformer):
    def __init__(self, names, exprs):
        self.names = names          # local name -> new local name
        self.exprs = exprs          # parameter name -> argument expression (copied at each use)

    def visit_Name(self, node):
        if node.id in self.exprs and isinstance(node.ctx, ast.Load):
            return ast.copy_location(_clone(self.exprs[node.id]), node)
        if node.id in self.names:
            return ast.copy_location(ast.Name(id=self.names[node.id], ctx=node.ctx), node)
        return node

    def visit_FunctionDef(self, node):
        self.generic_visit(node)
        if node.name in self.names:
            node.name = self.names[node.name]
        return node


class _ExprInliner(ast.NodeTransformer):
    def __init__(self, caller, ecands):
        self.caller = caller
        self.ecands = ecands
        self.done = []

    def visit_FunctionDef(self, node):
        return node

    visit_Lambda = visit_FunctionDef

    def visit_Call(self, node):
        self.generic_visit(node)
        f = node.func
        if isinstance(f, ast.Attribute) and isinstance(f.value, ast.Name) and f.value.id == self.caller.self_name and f.attr in self.ecands:
            helper, expr = self.ecands[f.attr]
            bound = _bind(helper, node)
            if bound is None:
                return node
            uses = {}
            for x in ast.walk(expr):
                if isinstance(x, ast.Name) and x.id in bound:
                    uses[x.id] = uses.get(x.id, 0) + 1
            if any(not _is_simple(a) and uses.get(p, 0) > 1 for p, a in bound.items()):
                return node
            if any(not _is_simple(a) for a in bound.values()) and len([a for a in bound.values() if not _is_simple(a)]) > 1:
                return node                             # keep the evaluation order of several effectful arguments
            names = {}
            if helper.self_name is not None and helper.self_name != self.caller.self_name:
                names[helper.self_name] = self.caller.self_name
            new = _Subst(names, bound).visit(_clone(expr))
            ast.copy_location(new, node)
            ast.fix_missing_locations(new)
            self.done.append(helper.qual)
            return new
        return node


def _bind(helper_fi, call):
    a = helper_fi.node.args
    if a.vararg or a.kwarg or a.posonlyargs or a.kwonlyargs:
        return None
    params = [x.arg for x in a.args]
    if helper_fi.self_name is not None:
        if not params or params[0] != helper_fi.self_name:
            return None
        params = params[1:]
    defaults = dict(zip(params[len(params) - len(a.defaults):], a.defaults)) if a.defaults else {}
    if any(isinstance(x, ast.Starred) for x in call.args) or any(k.arg is None for k in call.keywords):
        return None
    if len(call.args) > len(params):
        return None
    bound = dict(zip(params, call.args))
    for k in call.keywords:
        if k.arg not in params or k.arg in bound:
            return None
        bound[k.arg] = k.value
    for p in params:
        if p not in bound:
            if p not in defaults or not isinstance(defaults[p], ast.Constant):
                return None
            bound[p] = defaults[p]
    return bound


def known_module_functions():
    try:
        with open(KNOWN_PATH) as fh:
            return set(json.load(fh).get("module_functions", []))
    except OSError:
        return None


class _ModFuncStub:
    """just enough of a FuncInfo for _bind"""
    def __init__(self, node):
        self.node = node
        self.self_name = None


def inline_module_value_functions(prog):
    """Private module-level functions that the rule set does not know (not in the frozen list of the pinned tree) and that only decide a
    value are substituted at their call sites in the same module, like value-only private methods."""
    known = known_module_functions()
    done = []
    if known is None:
        return done
    for mi in prog.modules.values():
        cands = {}
        for st in mi.tree.body:
            if isinstance(st, ast.FunctionDef) and not st.name.startswith("__") and (mi.name + "." + st.name) not in known \
                    and not st.decorator_list:
                e = _as_expression(st)
                if e is None or any(isinstance(x, ast.Name) and x.id == st.name for x in ast.walk(st)):
                    continue
                cands[st.name] = (st, e)
        if not cands:
            continue

        class _M(ast.NodeTransformer):
            def visit_Call(self, node):
                self.generic_visit(node)
                if isinstance(node.func, ast.Name) and node.func.id in cands:
                    fdef, e = cands[node.func.id]
                    bound = _bind(_ModFuncStub(fdef), node)
                    if bound is None:
                        return node
                    uses = {}
                    for x in ast.walk(e):
                        if isinstance(x, ast.Name) and x.id in bound:
                            uses[x.id] = uses.get(x.id, 0) + 1
                    if any(not _is_simple(a) and uses.get(p_, 0) > 1 for p_, a in bound.items()):
                        return node
                    # comprehension variables of the expression must not capture names of the arguments
                    comp_vars = {t.id for x in ast.walk(e) if isinstance(x, ast.comprehension) for t in ast.walk(x.target) if isinstance(t, ast.Name)}
                    if any(isinstance(x, ast.Name) and x.id in comp_vars for a in bound.values() for x in ast.walk(a)):
                        return node
                    done.append((mi.name, mi.name + "." + fdef.name, getattr(node, "lineno", 0)))
                    return ast.copy_location(_Subst({}, bound).visit(_clone(e)), node)
                return node
        for st in mi.tree.body:
            if isinstance(st, ast.FunctionDef) and st.name in cands:
                continue
            _M().visit(st)
        ast.fix_missing_locations(mi.tree)
    return done


def inline_unknown_helpers(prog, known):
    """Mutates the ASTs of prog in place.  Returns [(caller qual, helper qual, line)] for the evidence."""
    done = []
    if known is None:
        return done
    done += inline_module_value_functions(prog)
    counter = [0]
    for _pass in range(2):
        for ci in list(prog.classes.values()):
            cands = {}
            inherited = {}
            for base_c in ci.mro:
                if base_c.module is not ci.module:
                    continue
                for name, h in base_c.methods.items():
                    inherited.setdefault(name, h)
            for name, h in inherited.items():
                if name.startswith("__") and name.endswith("__"):
                    continue
                if name.startswith("__") and h.cls is not ci:
                    continue                              # name-mangled: only visible in its own class
                if h.qual in known or h.is_classmethod or (h.self_name is None and not h.is_static):
                    continue
                body = _single_exit(h.node)
                if body is None or len(body) > 30:
                    continue
                if len(prog.overrides(h.cls, name)) != 1:
                    continue
                mangled = "_%s%s" % (h.cls.name.lstrip("_"), name) if name.startswith("__") else name
                if any(isinstance(x, ast.Attribute) and x.attr in (name, mangled) for x in ast.walk(h.node)):
                    continue                              # recursive
                cands[name] = (h, body)
                cands[mangled] = (h, body)
            # helpers that only decide a value are substituted as expressions wherever they are called
            ecands = {}
            for name, h in inherited.items():
                if (name.startswith("__") and name.endswith("__")) or h.qual in known or h.is_classmethod:
                    continue
                if name.startswith("__") and h.cls is not ci:
                    continue
                if h.self_name is None and not h.is_static:
                    continue
                if len(prog.overrides(h.cls, name)) != 1:
                    continue
                e = _as_expression(h.node)
                if e is None:
                    continue
                mangled = "_%s%s" % (h.cls.name.lstrip("_"), name) if name.startswith("__") else name
                if any(isinstance(x, ast.Attribute) and x.attr in (name, mangled) for x in ast.walk(h.node)):
                    continue
                ecands[name] = (h, e)
                ecands[mangled] = (h, e)
            if ecands:
                for m in ci.methods.values():
                    if any(m is h for (h, _e) in ecands.values()):
                        continue
                    tr = _ExprInliner(m, ecands)
                    m.node.body = [tr.visit(st) for st in m.node.body]
                    for hq in tr.done:
                        done.append((m.qual, hq, 0))
            if not cands:
                continue
            for m in ci.methods.values():
                if any(m is h for (h, _b) in cands.values()) and _pass == 0 and False:
                    continue
                for node in ast.walk(m.node):
                    for field in ("body", "orelse", "finalbody"):
                        block = getattr(node, field, None)
                        if not (isinstance(block, list) and block and isinstance(block[0], ast.stmt)):
                            continue
                        i = 0
                        while i < len(block):
                            st = block[i]
                            repl = _try_inline(m, st, cands, counter)
                            if repl is not None:
                                block[i:i + 1] = repl[0]
                                done.append((m.qual, repl[1].qual, getattr(st, "lineno", 0)))
                                i += len(repl[0])
                            else:
                                i += 1
    # a helper with no remaining reference is dead in the normalised program: rules must not analyse it as a method of its own
    for (_c, hq, _l) in list(done):
        h = prog.functions.get(hq)
        if h is None or h.cls is None:
            continue
        name = h.name
        mangled = "_%s%s" % (h.cls.name.lstrip("_"), name) if name.startswith("__") else name
        still = False
        for mi in prog.modules.values():
            for x in ast.walk(mi.tree):
                if isinstance(x, ast.Attribute) and x.attr in (name, mangled):
                    still = True
                if isinstance(x, ast.Constant) and x.value in (name, mangled):
                    still = True                        # getattr(self, "_name")
        if not still:
            h.cls.methods.pop(name, None)
            prog.functions.pop(hq, None)
            if h.node in h.cls.node.body:
                h.cls.node.body.remove(h.node)
    return done


def _try_inline(caller, st, cands, counter):
    if not isinstance(st, (ast.Assign, ast.AugAssign, ast.AnnAssign, ast.Return, ast.Expr)) or getattr(st, "value", None) is None:
        return None
    val = st.value
    call = None
    holder = None          # (container call, arg index) when the helper call is a leading argument of the statement's call
    def is_helper_call(c):
        if not (isinstance(c, ast.Call) and isinstance(c.func, ast.Attribute) and isinstance(c.func.value, ast.Name) and c.func.attr in cands):
            return False
        if c.func.value.id == caller.self_name:
            return True
        h_ = cands[c.func.attr][0]
        return h_.is_static and caller.cls is not None and c.func.value.id in {k.name for k in caller.cls.mro}
    if is_helper_call(val):
        call = val
    elif isinstance(val, ast.Call) and all(isinstance(x, (ast.Name, ast.Attribute, ast.Load)) for x in ast.walk(val.func)):
        for k, a in enumerate(val.args):
            if is_helper_call(a) and all(isinstance(b, (ast.Name, ast.Constant)) for b in val.args[:k]):
                call, holder = a, (val, k)
                break
    if call is None:
        return None
    helper, body = cands[call.func.attr]
    if helper is caller:
        return None
    bound = _bind(helper, call)
    if bound is None:
        return None
    counter[0] += 1
    tag = "__%s%d" % (helper.name.lstrip("_"), counter[0])
    stored = {x.id for x in ast.walk(helper.node) if isinstance(x, ast.Name) and isinstance(x.ctx, (ast.Store, ast.Del))}
    stored |= {x.name for x in ast.walk(helper.node) if isinstance(x, ast.FunctionDef) and x is not helper.node}
    stored |= {x.id for b_ in body for x in ast.walk(b_) if isinstance(x, ast.Name) and isinstance(x.ctx, (ast.Store, ast.Del))}   # result variable of a structured body
    for x in ast.walk(helper.node):
        if isinstance(x, (ast.FunctionDef, ast.Lambda)) and x is not helper.node:
            ia = x.args
            inner_own = {y.arg for y in ia.posonlyargs + ia.args + ia.kwonlyargs}
            for b_ in (x.body if isinstance(x.body, list) else [x.body]):
                inner_own |= {y.id for y in ast.walk(b_) if isinstance(y, ast.Name) and isinstance(y.ctx, (ast.Store, ast.Del))}
            stored -= inner_own
    for x in ast.walk(helper.node):
        if isinstance(x, ast.comprehension):
            for t in ast.walk(x.target):
                if isinstance(t, ast.Name):
                    stored.add(t.id)
    names, exprs, pre = {}, {}, []
    for p, arg in bound.items():
        if p not in stored and _is_simple(arg):
            exprs[p] = arg
        elif isinstance(st, ast.Return) and holder is None and isinstance(arg, ast.Name) \
                and sum(1 for a_ in bound.values() for x in ast.walk(a_) if isinstance(x, ast.Name) and x.id == arg.id) == 1:
            # `return self._h(x)` where the helper re-binds its parameter: the caller's x is dead after the call, so the helper's
            # parameter simply IS the caller's x (this undoes the extraction exactly, no copy `p = x` is needed)
            names[p] = arg.id
        else:
            names[p] = p + tag
            pre.append(ast.copy_location(ast.Assign(targets=[ast.Name(id=p + tag, ctx=ast.Store())], value=_clone(arg), lineno=st.lineno), st))
    for nm in stored:
        if nm not in bound:
            names[nm] = nm + tag
    if helper.self_name is not None and helper.self_name != caller.self_name:
        names[helper.self_name] = caller.self_name
    # `T = self._h(..)` with `return <local>` in the helper: the helper's local IS the caller's T (this undoes the extraction exactly)
    ret_stmt = body[-1] if body and isinstance(body[-1], ast.Return) else None
    direct = False
    if holder is None and isinstance(st, ast.Assign) and len(st.targets) == 1 and ret_stmt is not None and ret_stmt.value is not None:
        tg, rv = st.targets[0], ret_stmt.value
        pairs = None
        if isinstance(tg, ast.Name) and isinstance(rv, ast.Name):
            pairs = [(rv.id, tg.id)]
        elif isinstance(tg, ast.Tuple) and isinstance(rv, ast.Tuple) and len(tg.elts) == len(rv.elts) \
                and all(isinstance(x, ast.Name) for x in tg.elts + rv.elts) and len({x.id for x in rv.elts}) == len(rv.elts):
            pairs = [(r.id, t.id) for r, t in zip(rv.elts, tg.elts)]
        if pairs is not None:
            helper_names = {x.id for x in ast.walk(helper.node) if isinstance(x, ast.Name)} | {x.id for b_ in body for x in ast.walk(b_) if isinstance(x, ast.Name)}
            arg_names = {x.id for a_ in bound.values() for x in ast.walk(a_) if isinstance(x, ast.Name)}
            if all(r in stored and r not in bound and (t not in helper_names or t == r or (t in stored and t not in bound)) and t not in arg_names for (r, t) in pairs):
                for (r, t) in pairs:
                    names[r] = t
                direct = True
    sub = _Subst(names, exprs)
    new = list(pre)
    ret_expr = None
    for s in body:
        s2 = sub.visit(_clone(s))
        if isinstance(s2, ast.Return):
            ret_expr = s2.value
        else:
            new.append(s2)
    if (isinstance(st, ast.Expr) and holder is None) or direct:
        pass                                              # a procedure call, or the helper's locals became the targets
    else:
        if ret_expr is None:
            ret_expr = ast.Constant(value=None)
        st2 = _clone(st)
        if holder is None:
            st2.value = ret_expr
        else:
            st2.value.args[holder[1]] = ret_expr
        new.append(st2)
    for s in new:
        ast.fix_missing_locations(s)
    return new, helper


def expand_value_calls(prog, fi, expr):
    """A copy of the expression `expr` (of function fi) in which every call `self.m(...)` of a method that only decides a value
    (`[if c: return v]*; return w`, see _as_expression) and has exactly one implementation reachable from fi's class is replaced by
    that value with the arguments substituted.  Used by rules that ask "what is added here" when a public helper stands in between."""
    if fi.cls is None:
        return expr

    class _E(ast.NodeTransformer):
        def visit_Call(self, node):
            self.generic_visit(node)
            f = node.func
            if isinstance(f, ast.Attribute) and isinstance(f.value, ast.Name) and f.value.id == fi.self_name:
                tgts = prog.dynamic_targets(fi.cls, f.attr)
                if len(tgts) == 1 and tgts[0] is not fi:
                    h = tgts[0]
                    e = _as_expression(h.node)
                    bound = _bind(h, node) if e is not None else None
                    if bound is not None:
                        uses = {}
                        for x in ast.walk(e):
                            if isinstance(x, ast.Name) and x.id in bound:
                                uses[x.id] = uses.get(x.id, 0) + 1
                        names = {}
                        if h.self_name is not None and h.self_name != fi.self_name:
                            names[h.self_name] = fi.self_name
                        return ast.copy_location(_Subst(names, bound).visit(_clone(e)), node)
            return node
    return _E().visit(_clone(expr))
