"""Helpers shared by the per-property rule modules: finding constructs by role,
guard/dominance queries, return-path checks, attribute read/store scans."""
import ast

from .cfg import cfg_of, walk_local
from .loader import AnalysisError, src
from .terms import Terms, Env, terms_of, negate, subterms, show, MUTATORS


# ----------------------------------------------------------------- locating
def loc(fi, node):
    return fi.loc(node)


def self_attr(node, selfname="self"):
    """'x' if node is `self.x`, else None."""
    if isinstance(node, ast.Attribute) and isinstance(node.value, ast.Name) and node.value.id == selfname:
        return node.attr
    return None


def attr_chain(node):
    """['self','a','b'] for self.a.b ; None if not a pure name/attribute chain."""
    parts = []
    while isinstance(node, ast.Attribute):
        parts.append(node.attr)
        node = node.value
    if isinstance(node, ast.Name):
        parts.append(node.id)
        return list(reversed(parts))
    return None


def calls_in(node, method=None, func=None):
    """Call nodes inside node (not descending into nested defs) filtered by method / function name."""
    out = []
    for n in walk_local(node):
        if isinstance(n, ast.Call):
            if method is not None:
                if isinstance(n.func, ast.Attribute) and n.func.attr == method:
                    out.append(n)
            elif func is not None:
                if isinstance(n.func, ast.Name) and n.func.id == func:
                    out.append(n)
            else:
                out.append(n)
    return out


def method_calls_on_attr(funcnode, attr, methods, selfname="self"):
    """Calls `self.<attr>.<m>(...)` with m in methods."""
    out = []
    for n in walk_local(funcnode):
        if isinstance(n, ast.Call) and isinstance(n.func, ast.Attribute) and n.func.attr in methods:
            if self_attr(n.func.value, selfname) == attr:
                out.append(n)
    return out


def stmt_of(node):
    """Innermost enclosing statement."""
    n = node
    while n is not None and not isinstance(n, ast.stmt):
        n = getattr(n, "_parent", None)
    return n


def enclosing(node, types):
    n = getattr(node, "_parent", None)
    while n is not None:
        if isinstance(n, types):
            return n
        if isinstance(n, (ast.FunctionDef, ast.AsyncFunctionDef)):
            return None
        n = getattr(n, "_parent", None)
    return None


def enclosing_loops(node):
    out = []
    n = getattr(node, "_parent", None)
    while n is not None and not isinstance(n, (ast.FunctionDef, ast.AsyncFunctionDef)):
        if isinstance(n, (ast.For, ast.While)):
            out.append(n)
        n = getattr(n, "_parent", None)
    return list(reversed(out))


def cfg_node(fi, astnode):
    """CFG node executing the given ast node (statement or sub-expression)."""
    c = cfg_of(fi)
    n = c.node_containing(astnode)
    if n is None:
        raise AnalysisError("no CFG node for %s at %s" % (src(astnode), fi.loc(astnode)))
    return n


# ------------------------------------------------------------------- stores
class Store:
    __slots__ = ("attr", "kind", "node", "stmt", "value", "call", "base")

    def __init__(self, attr, kind, node, stmt, value=None, call=None, base=None):
        self.attr = attr      # attribute name
        self.kind = kind      # plain | aug | elem | elem_aug | mutator | del
        self.node = node      # the Attribute node
        self.stmt = stmt
        self.value = value    # rhs for plain/aug/elem
        self.call = call      # Call node for mutator
        self.base = base      # receiver expression of the attribute (e.g. Name self)


def attribute_stores(funcnode):
    """Every store to / in-place mutation of `<expr>.<attr>` inside the function."""
    out = []
    for n in walk_local(funcnode):
        if isinstance(n, ast.Assign):
            for t in n.targets:
                out += _store_targets(t, n, n.value, aug=False)
        elif isinstance(n, ast.AnnAssign) and n.value is not None:
            out += _store_targets(n.target, n, n.value, aug=False)
        elif isinstance(n, ast.AugAssign):
            out += _store_targets(n.target, n, n.value, aug=True)
        elif isinstance(n, ast.Delete):
            for t in n.targets:
                r = t
                while isinstance(r, ast.Subscript):
                    r = r.value
                if isinstance(r, ast.Attribute):
                    out.append(Store(r.attr, "del", r, n, base=r.value))
        elif isinstance(n, (ast.For, ast.AsyncFor)):
            out += _store_targets(n.target, n, None, aug=False)
        elif isinstance(n, ast.Call) and isinstance(n.func, ast.Attribute) and n.func.attr in MUTATORS:
            r = n.func.value
            while isinstance(r, ast.Subscript):
                r = r.value
            if isinstance(r, ast.Attribute):
                out.append(Store(r.attr, "mutator", r, stmt_of(n), call=n, base=r.value))
    return out


def _store_targets(t, stmt, value, aug):
    out = []
    if isinstance(t, (ast.Tuple, ast.List)):
        for e in t.elts:
            out += _store_targets(e, stmt, None, aug)
        return out
    if isinstance(t, ast.Starred):
        return _store_targets(t.value, stmt, None, aug)
    if isinstance(t, ast.Attribute):
        out.append(Store(t.attr, "aug" if aug else "plain", t, stmt, value, base=t.value))
    elif isinstance(t, ast.Subscript):
        r = t
        while isinstance(r, ast.Subscript):
            r = r.value
        if isinstance(r, ast.Attribute):
            out.append(Store(r.attr, "elem_aug" if aug else "elem", r, stmt, value, base=r.value))
    return out


def self_stores(fi, attr=None):
    sn = fi.self_name
    out = []
    for s in attribute_stores(fi.node):
        if isinstance(s.base, ast.Name) and s.base.id == sn and (attr is None or s.attr == attr):
            out.append(s)
    return out


def attr_reads(funcnode, selfname="self"):
    """Names X of `self.X` loads in the function (including inside lambdas/comprehensions)."""
    out = {}
    for n in ast.walk(funcnode):
        if isinstance(n, ast.Attribute) and isinstance(n.ctx, ast.Load):
            a = self_attr(n, selfname)
            if a is not None:
                out.setdefault(a, []).append(n)
    return out


# ------------------------------------------------------------------ returns
def return_paths(fi):
    """(returns_with_value, bare_returns, falls_off_end) as lists of CFG nodes reaching the normal exit."""
    c = cfg_of(fi)
    reach = c.reachable()
    withv, bare, fall = [], [], []
    for (p, _lab) in c.exit.pred:
        if p.idx not in reach:
            continue
        if p.kind == "stmt" and isinstance(p.ast, ast.Return):
            if p.ast.value is None or (isinstance(p.ast.value, ast.Constant) and p.ast.value.value is None):
                bare.append(p)
            else:
                withv.append(p)
        else:
            fall.append(p)
    return withv, bare, fall


def element_of(fi, name):
    """The sequence expression (ast) whose elements the plain local `name` runs over as a for-loop target:
    for x in X / for i, x in enumerate(X) / for a, b in zip(A, B) (also under enumerate);  None otherwise."""
    for loop in ast.walk(fi.node):
        if not isinstance(loop, ast.For):
            continue
        def walk(tg, it):
            if isinstance(tg, ast.Name):
                return it if tg.id == name else None
            if isinstance(tg, ast.Tuple) and isinstance(it, ast.Call) and isinstance(it.func, ast.Name):
                if it.func.id == "enumerate" and len(tg.elts) == 2 and len(it.args) >= 1:
                    return walk(tg.elts[1], it.args[0])
                if it.func.id == "zip" and len(tg.elts) == len(it.args):
                    for e, a in zip(tg.elts, it.args):
                        r = walk(e, a)
                        if r is not None:
                            return r
            return None
        r = walk(loop.target, loop.iter)
        if r is not None:
            return r
    return None


def positional_subst(fi, t, tm):
    """Replace every plain name in term t that a loop header binds to a positioned element (see positional_term) by that element."""
    if isinstance(t, tuple) and len(t) == 2 and t[0] == "n":
        return positional_term(fi, t[1], tm) or t
    if isinstance(t, tuple):
        return tuple(positional_subst(fi, x, tm) for x in t)
    return t


class _Stub:
    """minimal FuncInfo look-alike for a synthetic function (used by block_summaries)"""
    def __init__(self, node, fi):
        self.node = node
        self.params = list(fi.params)
        self.self_name = fi.self_name
        self.cls = fi.cls
        self.module = fi.module
        self.qual = fi.qual + "::<block>"
        self.name = fi.name

    def loc(self, node=None):
        return "%s:%d" % (self.qual, getattr(node, "lineno", 0))


def block_summaries(fi, stmts, is_sink):
    """Path summaries of a loop-free block of `fi`: [(facts, value)] where value is the argument of the first statement for which
    is_sink(stmt) returns an expression (e.g. the argument of `result.append(v)`), evaluated with the block's local assignments
    substituted.  Implemented by copying the block into a synthetic function in which the sink statement returns its value."""
    from .inline import _clone
    body = []
    for st in stmts:
        body.append(_clone(st))

    class T(ast.NodeTransformer):
        def generic_visit(self, node):
            for f in ("body", "orelse", "finalbody"):
                v = getattr(node, f, None)
                if isinstance(v, list) and v and isinstance(v[0], ast.stmt):
                    new = []
                    for x in v:
                        e = is_sink(x)
                        if e is not None:
                            new.append(ast.copy_location(ast.Return(value=e), x))
                        else:
                            new.append(self.generic_visit(x))
                    setattr(node, f, new)
            return node
    fn = ast.FunctionDef(name="_block", args=ast.arguments(posonlyargs=[], args=[], kwonlyargs=[], kw_defaults=[], defaults=[]), body=body,
                         decorator_list=[], returns=None, lineno=getattr(stmts[0], "lineno", 1), col_offset=0)
    if hasattr(fn, "type_params"):
        fn.type_params = []
    T().generic_visit(fn)
    ast.fix_missing_locations(fn)
    for parent in ast.walk(fn):
        for ch in ast.iter_child_nodes(parent):
            if not isinstance(ch, (ast.expr_context, ast.operator, ast.unaryop, ast.boolop, ast.cmpop)):
                ch._parent = parent
    fn._parent = None
    return path_summaries(_Stub(fn, fi))


def positional_term(fi, name, tm, anonymous=False, within=None):
    """If the plain local `name` is bound by a for-loop target to the element at a known position of a sequence, the term
    ("s", <sequence term>, <index term>) of that element, else None.  Understood loop headers:
        for i, x in enumerate(X)                        x -> X[i]
        for i, (l, r) in enumerate(zip(A[:-1], A[1:]))  l -> A[i], r -> A[i + 1]      (slices with constant start)
        for i, (a, b) in enumerate(zip(A, B))           a -> A[i], b -> B[i]
    with anonymous=True also loops without an index variable, the position being the opaque name `$pos<line of the loop>`:
        for a, b in zip(A, B)                           a -> A[$pos], b -> B[$pos]
        for x in X                                      x -> X[$pos]"""
    for loop in ast.walk(fi.node):
        if not isinstance(loop, ast.For):
            continue
        if within is not None and not any(loop is w for w in within):
            continue
        tg, it = loop.target, loop.iter
        if isinstance(tg, ast.Tuple) and len(tg.elts) == 2 and isinstance(tg.elts[0], ast.Name) and isinstance(it, ast.Call) \
                and isinstance(it.func, ast.Name) and it.func.id == "enumerate" and len(it.args) == 1:
            idx = ("n", tg.elts[0].id)
            inner_t, inner_it = tg.elts[1], it.args[0]
        elif anonymous and isinstance(it, ast.Call) and isinstance(it.func, ast.Name) and it.func.id == "zip" and isinstance(tg, ast.Tuple):
            idx = ("n", "$pos%d" % loop.lineno)          # no index variable: the (anonymous) position of this loop
            inner_t, inner_it = tg, it
        elif anonymous and isinstance(tg, ast.Name) and not (isinstance(it, ast.Call) and isinstance(it.func, ast.Name) and it.func.id in ("range", "enumerate", "zip")):
            idx = ("n", "$pos%d" % loop.lineno)
            inner_t, inner_it = tg, it
        else:
            continue

        def at(seq_ast, index_term):
            # X[c:] [i] == X[i + c];  X[:-k][i] == X[i]
            if isinstance(seq_ast, ast.Subscript) and isinstance(seq_ast.slice, ast.Slice) and seq_ast.slice.step is None:
                lo = seq_ast.slice.lower
                if lo is None or (isinstance(lo, ast.Constant) and lo.value == 0):
                    return ("s", tm.term(seq_ast.value), index_term)
                if isinstance(lo, ast.Constant) and isinstance(lo.value, int) and lo.value > 0:
                    return ("s", tm.term(seq_ast.value), ("op", "Add", tuple(sorted((index_term, ("c", repr(lo.value))), key=repr))))
                return None
            return ("s", tm.term(seq_ast), index_term)
        if isinstance(inner_t, ast.Name) and inner_t.id == name:
            return at(inner_it, idx)
        if isinstance(inner_t, ast.Tuple) and isinstance(inner_it, ast.Call) and isinstance(inner_it.func, ast.Name) and inner_it.func.id == "zip" \
                and len(inner_it.args) == len(inner_t.elts):
            for k, e in enumerate(inner_t.elts):
                if isinstance(e, ast.Name) and e.id == name:
                    return at(inner_it.args[k], idx)
    return None


def path_summaries(fi, max_paths=200):
    """Loop-free functions only: [(facts, returned term)] over all entry-to-return paths, with plain locals substituted by the
    terms assigned to them along the path (temporaries, merged / split returns and branch order do not matter).  `facts` is the
    frozenset of branch literals of the path, themselves substituted.  Returns None if the function has a loop, too many paths,
    or a construct that cannot be followed (augmented assignment to an unknown name is kept opaque)."""
    from .cfg import cfg_of
    from .terms import Terms, negate
    c = cfg_of(fi)
    tm = Terms(fi.node, max_depth=0)
    if any(n.kind == "for" or (n.kind == "join" and isinstance(n.stmt, ast.While)) for n in c.nodes):
        return None
    out = []

    def sub(t, env):
        if isinstance(t, tuple) and len(t) == 2 and t[0] == "n" and t[1] in env:
            return env[t[1]]
        if isinstance(t, tuple):
            return tuple(sub(x, env) for x in t)
        return t

    def walk(n, env, facts, depth):
        if len(out) > max_paths or depth > 400:
            raise OverflowError
        if n.kind == "stmt" and n.ast is not None:
            st = n.ast
            if isinstance(st, ast.Return):
                out.append((frozenset(facts), sub(tm.term(st.value), env) if st.value is not None else ("c", "None")))
                return
            if isinstance(st, ast.Assign) and len(st.targets) == 1 and isinstance(st.targets[0], ast.Name):
                env = dict(env)
                env[st.targets[0].id] = sub(tm.term(st.value), env)
            elif isinstance(st, ast.AugAssign) and isinstance(st.target, ast.Name):
                env = dict(env)
                opn = type(st.op).__name__
                cur = env.get(st.target.id, ("n", st.target.id))
                env[st.target.id] = ("op", opn, (cur, sub(tm.term(st.value), env)))
            elif isinstance(st, ast.Assign):
                for tg in st.targets:
                    for x in ast.walk(tg):
                        if isinstance(x, ast.Name) and isinstance(x.ctx, ast.Store) and x.id in env:
                            env = dict(env)
                            env.pop(x.id)
        for (sx, lab) in n.succ:
            if lab == "exc":
                continue
            f2 = facts
            if n.kind == "test" and lab in (True, False):
                lit = sub(tm.term(n.ast), env)
                f2 = facts | {lit if lab else negate(lit)}
            if sx.kind in ("exit", "raise"):
                if sx.kind == "exit" and not (n.kind == "stmt" and isinstance(n.ast, ast.Return)):
                    out.append((frozenset(f2), ("<falls-off>",)))
                continue
            walk(sx, env, f2, depth + 1)
    try:
        walk(c.entry, {}, frozenset(), 0)
    except (OverflowError, RecursionError):
        return None
    return out


def _negated_in_test(test_node):
    """True if the CFG test node stands under an odd number of `not` operators inside the test expression of its statement."""
    n = 0
    x = test_node.ast
    stop = test_node.stmt
    while x is not None and x is not stop:
        par = getattr(x, "_parent", None)
        if isinstance(par, ast.UnaryOp) and isinstance(par.op, ast.Not):
            n += 1
        x = par
    return n % 2 == 1


def trailing_true_conjunctions(fi, target, tm, within=None, limit=64):
    """The alternatives under which control reaches CFG node `target`, each as the set of literals (branch tests taken on the edge
    that makes the literal true; `not t` contributes the negated term) that hold immediately before it (walking backwards until a False edge, a non-test node or the loop head).  `if A and B: X` gives {A, B};
    `if (A and B) or C: X` gives {A, B} and {C}; two consecutive `if A: X` / `if C: X'` give {A} for X and {C} for X'.
    Terms are value terms of the tests; join nodes are passed through."""
    out = set()

    def back(n, acc, depth):
        if depth > limit:
            out.add(frozenset(acc))
            return
        extended = False
        for (p, lab) in n.pred:
            if p.kind == "join":
                back(p, acc, depth + 1)
                extended = True
            elif p.kind == "test" and lab in (True, False) and lab is (not _negated_in_test(p)) and (within is None or within(p)):
                from .terms import negate
                lit = tm.term(p.ast)
                back(p, acc | {lit if lab is True else negate(lit)}, depth + 1)
                extended = True
            else:
                out.add(frozenset(acc))
                extended = True
        if not extended:
            out.add(frozenset(acc))
    back(target, frozenset(), 0)
    return {x for x in out if x}


def iterations(funcnode):
    """Every iteration construct of a function: for loops and comprehension generators, as (iter ast, target ast, [nodes iterated over],
    the construct).  Lets a rule accept `for d in R: f(d)` and `[f(d) for d in R]` alike."""
    out = []
    for n in ast.walk(funcnode):
        if isinstance(n, ast.For):
            out.append((n.iter, n.target, list(n.body), n))
        elif isinstance(n, (ast.ListComp, ast.SetComp, ast.GeneratorExp, ast.DictComp)):
            for k, g in enumerate(n.generators):
                inner = [x for x in ([n.elt] if not isinstance(n, ast.DictComp) else [n.key, n.value])] + list(g.ifs) + \
                        [x for g2 in n.generators[k + 1:] for x in [g2.iter] + list(g2.ifs)]
                out.append((g.iter, g.target, inner, n))
    return out


def flat_body(funcnode):
    """Top-level statements of a function with `try: <body> finally: pass`-style wrappers (no handlers, trivial finally) removed."""
    body = list(funcnode.body)
    while True:
        k = 1 if (body and isinstance(body[0], ast.Expr) and isinstance(body[0].value, ast.Constant)) else 0
        rest = body[k:]
        if len(rest) == 1 and isinstance(rest[0], ast.Try) and not rest[0].handlers and not rest[0].orelse \
                and all(isinstance(x, ast.Pass) for x in rest[0].finalbody):
            body = body[:k] + list(rest[0].body)
            continue
        return body


def is_stub_body(funcnode):
    """pass / docstring / assert <constant> / raise NotImplementedError only (bare call statements such as logging are ignored)."""
    body = [st for st in flat_body(funcnode) if not (isinstance(st, ast.Expr) and isinstance(st.value, ast.Call))]
    if body and isinstance(body[0], ast.Expr) and isinstance(body[0].value, ast.Constant) and isinstance(body[0].value.value, str):
        body = body[1:]
    if not body:
        return True
    for st in body:
        if isinstance(st, ast.Pass):
            continue
        if isinstance(st, ast.Assert) and isinstance(st.test, ast.Constant):
            continue
        if isinstance(st, ast.Raise):
            continue
        if isinstance(st, ast.Expr) and isinstance(st.value, ast.Constant):
            continue
        return False
    return True


# ------------------------------------------------------------------- guards
def dominating_guards(fi, target_node, tm=None):
    """[(term, ast test)] of facts known to hold at the CFG node: branch tests whose True/False
    edge dominates it (as the term that is true there) and asserts that dominate it."""
    c = cfg_of(fi)
    tm = tm or terms_of(fi)
    out = []
    for n in c.nodes:
        if n.kind == "test":
            for lab in (True, False):
                if any(l == lab for (_s, l) in n.succ) and c.edge_dominates(n, lab, target_node) \
                        and n.idx in c.reachable():
                    t = tm.term(n.ast)
                    out.append((t if lab else negate(t), n))
        elif n.kind == "stmt" and isinstance(n.ast, ast.Assert) and n is not target_node and c.dominates(n, target_node):
            t = tm.term(n.ast.test)
            if t[0] == "bool" and t[1] == "and":
                for x in t[2]:
                    out.append((x, n))
            else:
                out.append((t, n))
    return out


def key_of(fi, what):
    return "%s::%s" % (fi.qual, what)


# ------------------------------------------------------- reaching definition
def reaching_unique_def(fi, name, use_astnode):
    """The single binding of local `name` that reaches the use on every path (dominates it and is not
    overwritten on any path in between); None if there is no such unique binding."""
    from .terms import Env
    c = cfg_of(fi)
    env = terms_of(fi).env
    use = c.node_containing(use_astnode)
    if use is None:
        return None
    cands = []
    bnodes = []
    for b in env.bindings.get(name, []):
        if b.kind == "param":
            bn = c.entry
        else:
            bn = c.node_of(b.stmt) if isinstance(b.stmt, ast.stmt) else None
            if bn is None:
                bn = c.node_containing(b.stmt)
        if bn is None:
            continue
        bnodes.append((b, bn))
    for (b, bn) in bnodes:
        if bn is use and b.kind != "param":
            continue
        if not c.dominates(bn, use):
            continue
        others = [x for (_b2, x) in bnodes if x is not bn]
        # no other binding on a path bn -> use
        # paths from bn to the use that do not execute bn again (a later loop iteration re-executes the dominating binding first)
        r = c.reachable_after(bn, blocked=[use, bn]) if bn is not c.entry else c.reachable(blocked=[use])
        clean = True
        # a re-definition behind the use that leads back to the use (loop-carried: `d = 1; while ..: use(d); d += 1`) reaches it too
        after_use = c.reachable_after(use, blocked=[bn] if bn is not c.entry else [])
        for o in others:
            if o.idx in after_use and (use.idx in c.reachable_after(o, blocked=[bn] if bn is not c.entry else []) or o is use):
                clean = False
        for o in others:
            if o.idx in r:
                # o reachable from bn before use; does use remain reachable from o without passing bn again?
                if use.idx in c.reachable_after(o, blocked=[bn] if bn is not c.entry else []) or o is use:
                    clean = False
        if clean:
            cands.append(b)
    if len(cands) == 1:
        return cands[0]
    return None


# ------------------------------------------------------ paired symmetric stores
def _index_pair(sub, tm):
    """(matrix name, i-term, j-term) for M[i][j] or M[i, j] targets; None otherwise."""
    if isinstance(sub, ast.Subscript):
        if isinstance(sub.value, ast.Subscript) and isinstance(sub.value.value, ast.Name):
            return sub.value.value.id, tm.term(sub.value.slice), tm.term(sub.slice)
        if isinstance(sub.value, ast.Name) and isinstance(sub.slice, ast.Tuple) and len(sub.slice.elts) == 2:
            return sub.value.id, tm.term(sub.slice.elts[0]), tm.term(sub.slice.elts[1])
    return None


def triangular_loops(stmt):
    """For a statement nested in `for i in range(..): for j in range(i, ..)` return (outer var, inner var)
    of the innermost triangular pair, else None."""
    loops = [l for l in enclosing_loops(stmt) if isinstance(l, ast.For) and isinstance(l.target, ast.Name)]
    for k in range(len(loops) - 1, 0, -1):
        inner = loops[k]
        it = inner.iter
        if isinstance(it, ast.Call) and isinstance(it.func, ast.Name) and it.func.id == "range" and len(it.args) >= 2:
            lo = it.args[0]
            if isinstance(lo, ast.BinOp) and isinstance(lo.op, ast.Add) and isinstance(lo.right, ast.Constant) and isinstance(lo.left, ast.Name):
                lo = lo.left        # range(i + 1, n): strictly upper triangle
            if not isinstance(lo, ast.Name):
                continue
            for outer in loops[:k]:
                if outer.target.id == lo.id:
                    return outer.target.id, inner.target.id
    return None


def symmetric_store_report(fi, matrices=None):
    """[(store stmt, matrix, ok, detail)] for every element store M[a][b] = v inside a triangular double loop
    (inner loop starts at the outer index) with {a,b} = {outer, inner}: a companion store M[b][a] = v (same value
    term) must exist in the same block, or the store must be on the diagonal (guarded by a == b)."""
    tm = terms_of(fi, max_depth=0)
    out = []
    for st in walk_local(fi.node):
        if not isinstance(st, ast.Assign) or len(st.targets) != 1:
            continue
        ip = _index_pair(st.targets[0], tm)
        if ip is None:
            continue
        m, a, b = ip
        if matrices is not None and m not in matrices:
            continue
        tri = triangular_loops(st)
        if tri is None:
            continue
        outer, inner = ("n", tri[0]), ("n", tri[1])
        if {a, b} != {outer, inner}:
            continue
        v = tm.term(st.value)
        block = getattr(st, "_parent", None)
        sibs = []
        for fld in ("body", "orelse"):
            lst = getattr(block, fld, None)
            if isinstance(lst, list) and st in lst:
                sibs = lst
        comp = False
        for s2 in sibs:
            if s2 is st or not isinstance(s2, ast.Assign) or len(s2.targets) != 1:
                continue
            ip2 = _index_pair(s2.targets[0], tm)
            if ip2 is not None and ip2[0] == m and ip2[1] == b and ip2[2] == a and tm.term(s2.value) == v:
                comp = True
        out.append((st, m, comp, "%s[%s][%s] = %s" % (m, show(a), show(b), show(v))))
    return out


def resolve_locals(fi, t, at_cfg_node, tm, only_calls=False, depth=3):
    """Replace local names occurring in term t by the term of their unique reaching definition at the given CFG node
    (bounded depth).  Parameters and names without a unique reaching plain assignment stay as they are."""
    if depth <= 0:
        return t

    def rec(x):
        if isinstance(x, tuple) and len(x) == 2 and x[0] == "n":
            nm = x[1]
            if nm in fi.params:
                return x
            probe = None
            src_node = at_cfg_node.ast if at_cfg_node.ast is not None else None
            if src_node is None:
                return x
            for cand in ast.walk(src_node):
                if isinstance(cand, ast.Name) and cand.id == nm and isinstance(cand.ctx, ast.Load):
                    probe = cand
                    break
            if nm in tm.env.mutated:
                return x      # the object is modified in place after its definition: the name is its identity
            if probe is None:
                b = tm.env.single(nm)
                if b is not None and b.kind == "assign" and b.value is not None and (not only_calls or isinstance(b.value, ast.Call)):
                    inner = tm.term(b.value)
                    bn = cfg_of(fi).node_of(b.stmt)
                    return resolve_locals(fi, inner, bn, tm, only_calls, depth - 1) if bn is not None else inner
                return x
            b = reaching_unique_def(fi, nm, probe)
            if b is not None and b.kind == "assign" and b.value is not None and (not only_calls or isinstance(b.value, ast.Call)):
                inner = tm.term(b.value)
                bn = cfg_of(fi).node_of(b.stmt)
                return resolve_locals(fi, inner, bn, tm, only_calls, depth - 1) if bn is not None else inner
            return x
        if isinstance(x, tuple):
            return tuple(rec(y) for y in x)
        return x
    return rec(t)


# ------------------------------------------------------------------------------------------------- parameter aliasing
VIEW_CALLS = {"asarray", "asanyarray", "ravel", "reshape", "squeeze", "atleast_1d", "atleast_2d", "view", "transpose", "swapaxes"}
MUTATOR_METHODS = {"sort", "fill", "resize", "put", "itemset", "partition", "setfield", "append", "extend", "insert", "pop", "remove",
                   "clear", "reverse", "update"}


def sequence_params(fi):
    """parameters (other than self) that the function itself treats as sequences / arrays: subscripted, iterated, measured with
    len(), or handed to a numpy view / conversion call"""
    out = set()
    params = [p for p in fi.params if p != fi.self_name]
    a_ = fi.node.args
    for arg in a_.posonlyargs + a_.args + a_.kwonlyargs:
        if arg.arg in params and arg.annotation is not None and any(
                isinstance(x, (ast.Name, ast.Attribute)) and (x.id if isinstance(x, ast.Name) else x.attr) in ("Sequence", "List", "ndarray", "Iterable", "MutableSequence")
                for x in ast.walk(arg.annotation)):
            out.add(arg.arg)
    for n in walk_local(fi.node):
        if isinstance(n, ast.Subscript) and isinstance(n.value, ast.Name) and n.value.id in params:
            out.add(n.value.id)
        elif isinstance(n, (ast.For, ast.comprehension)) and isinstance(n.iter, ast.Name) and n.iter.id in params:
            out.add(n.iter.id)
        elif isinstance(n, ast.Call):
            fn = n.func.attr if isinstance(n.func, ast.Attribute) else (n.func.id if isinstance(n.func, ast.Name) else None)
            if fn in VIEW_CALLS | {"len", "enumerate", "zip", "array", "sum", "inner", "dot"}:
                for a in n.args:
                    if isinstance(a, ast.Name) and a.id in params:
                        out.add(a.id)
    return out


def parameter_aliases(fi, roots=None):
    """{local or parameter name: root parameter} for names that may denote the caller's object (or a view of it): the parameter
    itself, `n = p`, `n = p[a:b]` (basic slice = view), `n = np.asarray(p)` / reshape / ravel / .T (no copy when p is an array)."""
    roots = set(sequence_params(fi) if roots is None else roots)
    alias = {p: p for p in roots}

    def root_of(e):
        if isinstance(e, ast.Name):
            return alias.get(e.id)
        if isinstance(e, ast.Subscript):
            sl = e.slice
            parts = sl.elts if isinstance(sl, ast.Tuple) else [sl]
            if any(isinstance(p_, ast.Slice) for p_ in parts):
                return root_of(e.value)
            return None
        if isinstance(e, ast.Attribute) and e.attr == "T":
            return root_of(e.value)
        if isinstance(e, ast.Call):
            fn = e.func.attr if isinstance(e.func, ast.Attribute) else (e.func.id if isinstance(e.func, ast.Name) else None)
            if fn in VIEW_CALLS:
                if isinstance(e.func, ast.Attribute) and not (isinstance(e.func.value, ast.Name) and e.func.value.id in ("np", "numpy")):
                    return root_of(e.func.value)            # p.reshape(...)
                return root_of(e.args[0]) if e.args else None
        return None
    changed = True
    while changed:
        changed = False
        for st in walk_local(fi.node):
            if isinstance(st, ast.Assign) and len(st.targets) == 1 and isinstance(st.targets[0], ast.Name):
                r = root_of(st.value)
                if r is not None and alias.get(st.targets[0].id) is None:
                    alias[st.targets[0].id] = r
                    changed = True
    return alias


def inplace_modifications_of_parameters(fi, roots=None):
    """[(stmt, name, root parameter, how)]: statements that modify, in place, an object that may be the caller's"""
    alias = parameter_aliases(fi, roots)
    out = []
    for st in walk_local(fi.node):
        if isinstance(st, ast.AugAssign):
            t = st.target
            base = t
            while isinstance(base, ast.Subscript):
                base = base.value
            if isinstance(base, ast.Name) and base.id in alias:
                out.append((st, base.id, alias[base.id], "augmented assignment"))
        elif isinstance(st, ast.Assign):
            for t in st.targets:
                for el in (t.elts if isinstance(t, (ast.Tuple, ast.List)) else [t]):
                    if isinstance(el, ast.Subscript):
                        base = el
                        while isinstance(base, ast.Subscript):
                            base = base.value
                        if isinstance(base, ast.Name) and base.id in alias:
                            out.append((st, base.id, alias[base.id], "element store"))
        for c in ([x for x in ast.walk(st) if isinstance(x, ast.Call)] if isinstance(st, (ast.Expr, ast.Assign, ast.AugAssign, ast.Return)) else []):
            for k in c.keywords:
                if k.arg == "out" and isinstance(k.value, ast.Name) and k.value.id in alias:
                    out.append((st, k.value.id, alias[k.value.id], "out= argument"))
            if isinstance(c.func, ast.Attribute) and c.func.attr in MUTATOR_METHODS and isinstance(c.func.value, ast.Name) and c.func.value.id in alias \
                    and isinstance(st, ast.Expr) and st.value is c:
                out.append((st, c.func.value.id, alias[c.func.value.id], "mutator call .%s()" % c.func.attr))
    # a name that is (also) bound to a fresh object somewhere is not counted: which object is modified would need path sensitivity
    tm = terms_of(fi)
    keep = []
    for (st, nm, root, how) in out:
        bs = [b for b in tm.env.bindings.get(nm, []) if b.kind not in ("param", "aug")]
        if all(b.kind == "assign" and b.value is not None and parameter_aliases_root(fi, b.value, alias) is not None for b in bs):
            keep.append((st, nm, root, how))
    return keep


def parameter_aliases_root(fi, e, alias):
    if isinstance(e, ast.Name):
        return alias.get(e.id)
    if isinstance(e, ast.Subscript):
        sl = e.slice
        parts = sl.elts if isinstance(sl, ast.Tuple) else [sl]
        return parameter_aliases_root(fi, e.value, alias) if any(isinstance(p_, ast.Slice) for p_ in parts) else None
    if isinstance(e, ast.Attribute) and e.attr == "T":
        return parameter_aliases_root(fi, e.value, alias)
    if isinstance(e, ast.Call):
        fn = e.func.attr if isinstance(e.func, ast.Attribute) else (e.func.id if isinstance(e.func, ast.Name) else None)
        if fn in VIEW_CALLS:
            if isinstance(e.func, ast.Attribute) and not (isinstance(e.func.value, ast.Name) and e.func.value.id in ("np", "numpy")):
                return parameter_aliases_root(fi, e.func.value, alias)
            return parameter_aliases_root(fi, e.args[0], alias) if e.args else None
    return None



def normalise_positions(fi, t, at_cfg_node, tm, depth=4, resolve=True):
    """A term in which (1) single-definition locals are looked through, (2) loop elements are written as the indexed sequence
    (`for j, f in enumerate(F)`: f -> F[j]; `for a, b in zip(A, B)`: a -> A[$pos], b -> B[$pos]) and (3) indexing a comprehension over
    range(n) at position k gives the comprehension's element expression for k.  So `matrix[i, j] = f(c)` with f, c taken from
    precomputed lists and `matrix[i, j] = basis(d, j)(coords(d)[i])` are the same term."""
    def subst(x, a, b):
        if x == a:
            return b
        if isinstance(x, tuple):
            return tuple(subst(y, a, b) for y in x)
        return x

    encl = None
    if at_cfg_node is not None and getattr(at_cfg_node, "ast", None) is not None:
        anc = at_cfg_node.ast if isinstance(at_cfg_node.ast, ast.stmt) else stmt_of(at_cfg_node.ast)
        encl = [l for l in enclosing_loops(anc)] if anc is not None else None
        if isinstance(anc, ast.For):
            encl = (encl or []) + [anc]

    def rec(x, d_):
        if d_ <= 0 or not isinstance(x, tuple):
            return x
        if len(x) == 2 and x[0] == "n" and isinstance(x[1], str) and not x[1].startswith("$"):
            p = positional_term(fi, x[1], tm, anonymous=True, within=encl)
            if p is not None:
                return rec(p, d_ - 1)
            if resolve:
                r = resolve_locals(fi, x, at_cfg_node, tm, depth=1)
                if r != x:
                    return rec(r, d_ - 1)
            return x
        y = tuple(rec(z, d_) for z in x)
        if len(y) == 3 and y[0] == "s" and isinstance(y[1], tuple) and y[1] and y[1][0] == "comp" and len(y[1][3]) == 1 and not y[1][3][0][2]:
            gen = y[1][3][0]
            if gen[1][0] == "call" and gen[1][1] == ("n", "range") and len(gen[1][2]) == 1 and gen[0] == ("bv", "$0"):
                return rec(subst(y[1][2], ("bv", "$0"), y[2]), d_ - 1)
        return y
    return rec(t, depth)


def loop_carried_aliases(prog, fi):
    """[(append/store stmt, name, how it is changed)]: inside a loop a container receives the plain name X (`L.append(X)`, `L[k] = X`,
    `D[k] = X`) although X is not re-bound on every path of the iteration before that point -- the object bound before the loop (or in an
    earlier iteration) is stored again -- and the loop changes X in place (element store, in-place operator, mutator call, or a call of a
    package method that stores into that parameter).  All entries then denote one object that keeps changing."""
    from .cfg import cfg_of
    c = cfg_of(fi)
    out = []
    for loop in [l for l in walk_local(fi.node) if isinstance(l, (ast.For, ast.While))]:
        body_nodes = [n for st in loop.body for n in ast.walk(st)]
        # names changed in place inside the loop
        changed = {}
        for n in body_nodes:
            if isinstance(n, ast.Subscript) and isinstance(n.ctx, (ast.Store, ast.Del)) and isinstance(n.value, ast.Name):
                changed.setdefault(n.value.id, "element store")
            elif isinstance(n, ast.Call) and isinstance(n.func, ast.Attribute) and isinstance(n.func.value, ast.Name) and n.func.attr in MUTATOR_METHODS \
                    and n.func.attr not in ("append", "extend", "add", "update", "insert") :
                changed.setdefault(n.func.value.id, "mutator call .%s()" % n.func.attr)
            elif isinstance(n, ast.Call) and isinstance(n.func, ast.Attribute):
                # a package method that stores into one of its parameters
                tgts = prog.methods_named(n.func.attr)
                if 1 <= len(tgts) <= 3:
                    for t_ in tgts:
                        mods = {root for (_s, _n, root, _h) in inplace_modifications_of_parameters(t_)}
                        ps = [p_ for p_ in t_.params if p_ != t_.self_name]
                        for p_, a_ in zip(ps, n.args):
                            if p_ in mods and isinstance(a_, ast.Name):
                                changed.setdefault(a_.id, "stored into by %s()" % n.func.attr)
        if not changed:
            continue
        for st in [s_ for s_ in loop.body for s_ in ast.walk(s_) if isinstance(s_, (ast.Expr, ast.Assign))]:
            stored = None
            if isinstance(st, ast.Expr) and isinstance(st.value, ast.Call) and isinstance(st.value.func, ast.Attribute) and st.value.func.attr in ("append", "add") \
                    and len(st.value.args) == 1 and isinstance(st.value.args[0], ast.Name):
                stored = st.value.args[0].id
            elif isinstance(st, ast.Assign) and len(st.targets) == 1 and isinstance(st.targets[0], ast.Subscript) and isinstance(st.value, ast.Name):
                stored = st.value.id
            if stored is None or stored not in changed:
                continue
            sn = c.node_of(st)
            ln = c.node_of(loop)
            if sn is None or ln is None:
                continue
            # is there a path from the loop head to the store within one iteration that passes no re-binding of the name?
            rebinds = [c.node_of(b.stmt) for b in terms_of(fi).env.bindings.get(stored, []) if b.kind in ("assign", "unpack", "for", "forunpack", "with")
                       and c.node_of(b.stmt) is not None and c.in_loop(c.node_of(b.stmt), loop)]
            reach = c.reachable_after(ln, blocked=[r for r in rebinds] + [ln])
            if sn.idx in reach:
                out.append((st, stored, changed[stored]))
    return out


def absorbing_methods(prog):
    """{method name: [(FuncInfo, parameter, attribute)]}: methods that keep a parameter object as `self.A = p` and also update `self.A` in
    place (`self.A += ...`) -- the caller's object becomes the accumulator, so each receiver needs an object of its own."""
    out = {}
    for fi in prog.functions.values():
        if fi.cls is None or not fi.self_name:
            continue
        ps = set(fi.params) - {fi.self_name}
        kept = {}
        aug = set()
        for s_ in self_stores(fi):
            if s_.kind == "plain" and isinstance(s_.value, ast.Name) and s_.value.id in ps:
                kept[s_.attr] = s_.value.id
            elif s_.kind == "aug":
                aug.add(s_.attr)
        for a_ in sorted(set(kept) & aug):
            out.setdefault(fi.name, []).append((fi, kept[a_], a_))
    return out


def shared_accumulator_arguments(prog, fi, absorbing=None):
    """[(call, name, FuncInfo of the absorbing method)]: a call of an absorbing method inside a loop whose argument is a plain name that the
    loop does not bind to a new object in every iteration (bound before the loop, or a copy of such a name)."""
    from .cfg import cfg_of
    absorbing = absorbing if absorbing is not None else absorbing_methods(prog)
    out = []
    env = terms_of(fi).env
    loops = [l for l in walk_local(fi.node) if isinstance(l, (ast.For, ast.While))]
    for loop in loops:
        inner_stmts = {id(x) for st in loop.body for x in ast.walk(st)}
        for x in [x for st in loop.body for x in ast.walk(st)]:
            if not (isinstance(x, ast.Call) and isinstance(x.func, ast.Attribute) and x.func.attr in absorbing):
                continue
            cands = absorbing[x.func.attr]
            if len(prog.methods_named(x.func.attr)) != len({c[0].qual for c in cands}):
                continue                                  # other methods of that name do not absorb: receiver unknown
            for (m, p, _a) in cands[:1]:
                arg = None
                ps = [q for q in m.params if q != m.self_name]
                if p in ps and ps.index(p) < len(x.args):
                    arg = x.args[ps.index(p)]
                for k in x.keywords:
                    if k.arg == p:
                        arg = k.value
                seen = set()
                while isinstance(arg, ast.Name) and arg.id not in seen:
                    seen.add(arg.id)
                    bs = [b for b in env.bindings.get(arg.id, []) if b.kind != "param"]
                    inside = [b for b in bs if id(b.stmt) in inner_stmts]
                    if not inside:
                        out.append((x, arg.id, m))
                        break
                    # bound in the loop: a copy of another name is followed, anything else counts as a new object
                    vals = [b.value for b in inside]
                    if len(vals) == 1 and isinstance(vals[0], ast.Name):
                        arg = vals[0]
                    else:
                        break
    return out


def reaching_defs(fi, name, use_astnode):
    """the bindings of local `name` that can reach the use: there is a path from the binding to the use that passes no other binding
    of the name (classic reaching definitions on the statement flow graph)"""
    c = cfg_of(fi)
    env = terms_of(fi).env
    use = c.node_containing(use_astnode)
    if use is None:
        return []
    bnodes = []
    for b in env.bindings.get(name, []):
        if b.kind == "param":
            bn = c.entry
        else:
            bn = c.node_of(b.stmt) if isinstance(b.stmt, ast.stmt) else None
            if bn is None:
                bn = c.node_containing(b.stmt)
        if bn is not None:
            bnodes.append((b, bn))
    out = []
    for (b, bn) in bnodes:
        others = [x for (_b, x) in bnodes if x is not bn and x is not use]
        if bn is c.entry:
            r = c.reachable(blocked=others)
        else:
            r = c.reachable_after(bn, blocked=others)
        if use.idx in r:
            out.append(b)
    return out


# ------------------------------------------------------------------------------------------------- mutations through local aliases
INPLACE_SET_METHODS = {"add", "remove", "discard", "update", "clear", "pop", "difference_update", "intersection_update",
                       "symmetric_difference_update", "append", "extend", "insert", "sort", "reverse", "setdefault", "popitem", "fill"}


def attribute_alias_mutations(fi, attrs, selfname=None):
    """[(attr, node, how)] for in-place modifications of the object held in `self.<attr>` (attr in attrs) made through a local alias:
    a local that some assignment of the function binds to exactly `self.<attr>` and that is then the target of an augmented
    assignment (`L |= x` updates a set / list / array in place), the receiver of a mutating method, or the root of an element store /
    deletion.  Conservative in the direction of reporting: any binding of the local to the attribute counts (no flow sensitivity)."""
    sn = selfname or fi.self_name
    alias = {}
    for n in walk_local(fi.node):
        if isinstance(n, ast.Assign) and len(n.targets) == 1 and isinstance(n.targets[0], ast.Name):
            a = self_attr(n.value, sn) if isinstance(n.value, ast.Attribute) else None
            if a is not None and a in attrs:
                alias.setdefault(n.targets[0].id, set()).add(a)
    out = []
    if not alias:
        return out
    for n in walk_local(fi.node):
        if isinstance(n, ast.AugAssign):
            r = n.target
            elem = False
            while isinstance(r, ast.Subscript):
                r, elem = r.value, True
            if isinstance(r, ast.Name) and r.id in alias:
                for a in sorted(alias[r.id]):
                    out.append((a, n, "`%s` updates the object of self.%s in place through the local `%s`" % (src_(n), a, r.id)))
        elif isinstance(n, (ast.Assign, ast.Delete)):
            for t in n.targets:
                r = t
                elem = False
                while isinstance(r, ast.Subscript):
                    r, elem = r.value, True
                if elem and isinstance(r, ast.Name) and r.id in alias:
                    for a in sorted(alias[r.id]):
                        out.append((a, n, "`%s` changes an element of self.%s through the local `%s`" % (src_(n), a, r.id)))
        elif isinstance(n, ast.Call) and isinstance(n.func, ast.Attribute) and n.func.attr in INPLACE_SET_METHODS \
                and isinstance(n.func.value, ast.Name) and n.func.value.id in alias:
            for a in sorted(alias[n.func.value.id]):
                out.append((a, n, "`%s` mutates the object of self.%s through the local `%s`" % (src_(n), a, n.func.value.id)))
    return out


def src_(node):
    try:
        return ast.unparse(node)[:100]
    except Exception:          # noqa: BLE001
        return "<?>"


def triangle_coverage_report(fi):
    """[(inner For, ok, detail)] for every triangular loop pair `for i in range(.., N): for j in range(i | i+1, M)` that encloses a
    symmetric matrix element store: the pair enumerates the whole (upper) triangle only if the inner loop runs to the end of the
    index range the outer loop runs over -- M == N, or M == N + 1 for the strict form `range(N - 1)` / `range(i + 1, N)`.  A shorter
    inner range (a "band") leaves entries of the matrix at their initial value."""
    tm = terms_of(fi, max_depth=0)
    c = cfg_of(fi)
    seen = {}
    for st in walk_local(fi.node):
        if not isinstance(st, ast.Assign) or len(st.targets) != 1 or _index_pair(st.targets[0], tm) is None:
            continue
        tri = triangular_loops(st)
        if tri is None:
            continue
        loops = [l for l in enclosing_loops(st) if isinstance(l, ast.For) and isinstance(l.target, ast.Name)]
        outer = next(l for l in loops if l.target.id == tri[0])
        inner = next(l for l in reversed(loops) if l.target.id == tri[1])
        if id(inner) in seen:
            continue
        oi, ii = outer.iter, inner.iter
        if not (isinstance(oi, ast.Call) and isinstance(oi.func, ast.Name) and oi.func.id == "range" and oi.args and not oi.keywords):
            continue
        o_stop = oi.args[0] if len(oi.args) == 1 else oi.args[1]
        i_stop = ii.args[1]
        strict = isinstance(ii.args[0], ast.BinOp)
        on, inn = c.node_of(outer), c.node_of(inner)
        to = resolve_locals(fi, tm.term(o_stop), on, tm) if on is not None else tm.term(o_stop)
        ti = resolve_locals(fi, tm.term(i_stop), inn, tm) if inn is not None else tm.term(i_stop)
        def array_len(e, t):
            # len(M) of a local M that is bound once, to a numpy constructor: element stores into M do not change its length
            if isinstance(e, ast.Call) and isinstance(e.func, ast.Name) and e.func.id == "len" and len(e.args) == 1 and isinstance(e.args[0], ast.Name):
                b = tm.env.single(e.args[0].id)
                if b is not None and b.kind == "assign" and b.value is not None:
                    bn = c.node_of(b.stmt)
                    inner_t = resolve_locals(fi, tm.term(b.value), bn, tm) if bn is not None else tm.term(b.value)
                    return _len_of_fresh_array(("call", ("n", "len"), (inner_t,), ()))
            return t
        to, ti = array_len(o_stop, to), array_len(i_stop, ti)
        to, ti = _len_of_fresh_array(to), _len_of_fresh_array(ti)
        one = ("c", "1")
        ok = to == ti or (strict and (to == ("op", "Sub", (ti, one)) or ("op", "Add", tuple(sorted((to, one), key=repr))) == ti
                                      or ti == ("op", "Add", (to, one)) or ti == ("op", "Add", (one, to))))
        seen[id(inner)] = (inner, ok, "outer range ends at %s, inner range at %s" % (show(to), show(ti)))
    return list(seen.values())


def _len_of_fresh_array(t):
    """len(np.zeros((a, b))) -> a, len(np.zeros(a)) -> a (also empty / ones / full / eye / identity), applied bottom-up"""
    if not isinstance(t, tuple):
        return t
    t = tuple(_len_of_fresh_array(x) for x in t)
    if len(t) == 4 and t[0] == "call" and t[1] == ("n", "len") and len(t[2]) == 1:
        a = t[2][0]
        if isinstance(a, tuple) and len(a) == 4 and a[0] == "call" and isinstance(a[1], tuple) and a[1][0] == "a" and a[1][1] in (("n", "np"), ("n", "numpy")) \
                and a[1][2] in ("zeros", "empty", "ones", "full", "eye", "identity") and a[2]:
            shape = a[2][0]
            if isinstance(shape, tuple) and shape and shape[0] == "tuple" and len(shape) > 1:
                return shape[1]
            return shape
    return t
