"""Shared rule: the three implementations of the non-symmetric hat function count the centre of a hat exactly once.

A hat is evaluated as (right flank) + (left flank).  At the centre both flank formulas give 1, so exactly one flank may keep the
centre; a flank pair that keeps it on both sides gives 2, on neither side 0.  Each implementation selects the flanks differently:
  scalar               if x[d] >= p[d]: right flank   elif x[d] < p[d]: left flank        (if/elif: at most one flank is applied)
  vectorised           right * ceil(x - p + eps)  +  left * ceil(p - x)                      (eps > 0 on exactly one side)
  completely vect.     right[right > 1] = 0 ; left[left >= 1] = 0                            (exactly one strict upper clip)
This is a necessary condition for "the scalar, vectorised and completely vectorised hat evaluations agree for all points
including points on cell boundaries" (C16) and for "the design matrix holds the basis values at the training points" (C20)."""
import ast
from fractions import Fraction

from .absint import poly_of_term
from .cfg import walk_local
from .loader import AnalysisError, src
from .terms import Terms
from . import rules as R

ML = "GridOperation.MachineLearning"


def _unmodified_branch(fi):
    """statements executed for `not self.grid.modified_basis`: the matching branch of the if, or -- guard form -- the statements that
    follow `if modified_basis: ...; return` in its block"""
    for node in ast.walk(fi.node):
        for field in ("body", "orelse", "finalbody"):
            block = getattr(node, field, None)
            if not (isinstance(block, list) and block and isinstance(block[0], ast.stmt)):
                continue
            for k, st in enumerate(block):
                if not isinstance(st, ast.If):
                    continue
                t = st.test
                neg = isinstance(t, ast.UnaryOp) and isinstance(t.op, ast.Not)
                inner = t.operand if neg else t
                if not (isinstance(inner, ast.Attribute) and inner.attr == "modified_basis"):
                    continue
                branch = st.body if neg else st.orelse
                other = st.orelse if neg else st.body
                if branch:
                    # `if not modified: A; return` followed by the modified code: A is the branch
                    return branch
                if other and isinstance(other[-1], (ast.Return, ast.Raise)):
                    return block[k + 1:]
                return branch
    return None


def _const_value(node):
    """value of an expression built from numeric literals and arithmetic only, else None"""
    for x in ast.walk(node):
        if not isinstance(x, (ast.Constant, ast.BinOp, ast.UnaryOp, ast.operator, ast.unaryop)):
            return None
        if isinstance(x, ast.Constant) and not isinstance(x.value, (int, float)):
            return None
    try:
        return Fraction(eval(compile(ast.Expression(body=node), "<const>", "eval"), {"__builtins__": {}}, {}))
    except Exception:                                            # noqa: BLE001
        return None


def _split_const(node):
    """(polynomial of the non-constant additive terms, sum of the constant additive terms) of a sum / difference"""
    terms = []

    def flat(n, sign):
        if isinstance(n, ast.BinOp) and isinstance(n.op, ast.Add):
            flat(n.left, sign)
            flat(n.right, sign)
        elif isinstance(n, ast.BinOp) and isinstance(n.op, ast.Sub):
            flat(n.left, sign)
            flat(n.right, -sign)
        elif isinstance(n, ast.UnaryOp) and isinstance(n.op, ast.USub) and _const_value(n) is None:
            flat(n.operand, -sign)
        else:
            terms.append((sign, n))
    flat(node, 1)
    const = Fraction(0)
    rest = []
    for sign, n in terms:
        c = _const_value(n)
        if c is not None:
            const += sign * c
        else:
            rest.append((sign, n))
    return rest, const


def check_hat_centre(prog, ctx, rule):
    n = 0
    # ------------------------------------------------------------ completely vectorised: upper clips
    fi = prog.func(ML + ".hat_function_non_symmetric_completely_vectorized")
    ctx.touch(fi)
    body = _unmodified_branch(fi)
    if body is None:
        raise AnalysisError("anchor vanished: unmodified-basis branch of %s" % fi.qual)
    clips = []
    for st in body:
        for s in ast.walk(st):
            if isinstance(s, ast.Assign) and isinstance(s.targets[0], ast.Subscript) and isinstance(s.targets[0].value, ast.Name) \
                    and isinstance(s.targets[0].slice, ast.Compare) and len(s.targets[0].slice.ops) == 1 \
                    and isinstance(s.value, ast.Constant) and s.value.value == 0:
                cmp_ = s.targets[0].slice
                l, r = cmp_.left, cmp_.comparators[0]
                op = type(cmp_.ops[0]).__name__
                if isinstance(r, ast.Name) and isinstance(l, ast.Constant):      # 1 < T
                    l, r = r, l
                    op = {"Lt": "Gt", "LtE": "GtE", "Gt": "Lt", "GtE": "LtE"}.get(op, op)
                if isinstance(l, ast.Name) and l.id == s.targets[0].value.id and isinstance(r, ast.Constant) and r.value == 1 and op in ("Gt", "GtE"):
                    clips.append((l.id, op, s))
    n += 1
    strict = [c for c in clips if c[1] == "Gt"]
    ok = len(clips) == 2 and len(strict) == 1 and clips[0][0] != clips[1][0]
    ctx.check(ok, rule, R.key_of(fi, "centre-counted-once"), fi.loc(clips[0][2]) if clips else fi.loc(),
              "of the two flank arrays exactly one keeps the value 1 (the centre of the hat): %s" % [(c[0], c[1]) for c in clips],
              "completely vectorised hat: the upper clips of the two flank arrays are %s; exactly one must be strict (`> 1`), otherwise "
              "a point lying exactly on a grid point gets the basis value %s instead of 1 in that dimension"
              % ([(c[0], "> 1" if c[1] == "Gt" else ">= 1") for c in clips] or "not found", "0" if not strict else "2"))
    # ------------------------------------------------------------ vectorised: ceil selectors
    fv = prog.func(ML + ".hat_function_non_symmetric_vectorized")
    ctx.touch(fv)
    body = _unmodified_branch(fv)
    if body is None:
        raise AnalysisError("anchor vanished: unmodified-basis branch of %s" % fv.qual)
    tm = Terms(fv.node, max_depth=0)
    ceils = []
    for st in body:
        if isinstance(st, ast.If):
            continue                                             # the debug cross-check
        for c in ast.walk(st):
            if isinstance(c, ast.Call) and isinstance(c.func, ast.Attribute) and c.func.attr == "ceil" and c.args:
                ceils.append(c)
    n += 1
    ok = False
    detail = "expected two np.ceil selectors, found %d" % len(ceils)
    if len(ceils) == 2:
        try:
            (e1, c1), (e2, c2) = _split_const(ceils[0].args[0]), _split_const(ceils[1].args[0])
            from .absint import Poly
            p1 = p2 = Poly.const(0)
            for sign, nd in e1:
                p1 = p1 + (poly_of_term(tm.term(nd)) if sign > 0 else -poly_of_term(tm.term(nd)))
            for sign, nd in e2:
                p2 = p2 + (poly_of_term(tm.term(nd)) if sign > 0 else -poly_of_term(tm.term(nd)))
            s = p1 + p2
            consts = [c1, c2]
            ok = s.is_const() and s.const_value() == 0 and sorted(c > 0 for c in consts) == [False, True] and min(consts) == 0
            detail = "selector arguments %s and %s" % (src(ceils[0].args[0]), src(ceils[1].args[0]))
        except Exception as e:                                   # noqa: BLE001
            detail = "selector arguments not polynomial (%s)" % e
    if not ceils:
        # mask form: the flanks are multiplied by comparisons of x with the centre; with d = x - p one mask must select d > 0 (or d >= 0),
        # the other d < 0 (or d <= 0), and exactly one of them includes d == 0
        masks = []
        for st in body:
            if isinstance(st, ast.If):
                continue
            for b in ast.walk(st):
                if isinstance(b, ast.BinOp) and isinstance(b.op, ast.Mult):
                    for side in (b.left, b.right):
                        if isinstance(side, ast.Compare) and len(side.ops) == 1 and isinstance(side.ops[0], (ast.Gt, ast.GtE, ast.Lt, ast.LtE)):
                            masks.append(side)
        detail = "expected two selectors (np.ceil(...) or comparison masks), found %d comparison masks" % len(masks)
        if len(masks) == 2:
            rel = []
            operands = set()
            for m_ in masks:
                l_, r_ = tm.term(m_.left), tm.term(m_.comparators[0])
                operands.add(frozenset((l_, r_)))
                op = type(m_.ops[0]).__name__
                rel.append((l_, op, r_))
            if len(operands) == 1 and len(list(operands)[0]) == 2:
                a0 = rel[0][0]
                # normalise both to a relation "a0 ? other"
                def norm(l_, op, r_):
                    if l_ == a0:
                        return op
                    return {"Gt": "Lt", "GtE": "LtE", "Lt": "Gt", "LtE": "GtE"}[op]
                ops_ = sorted(norm(*r) for r in rel)
                ok = ops_ in (["Gt", "LtE"], ["GtE", "Lt"])
                detail = "masks %s" % [src(m_) for m_ in masks]
    ctx.check(ok, rule, R.key_of(fv, "centre-counted-once"), fv.loc(ceils[0]) if ceils else fv.loc(),
              "the two flank selectors are ceil(d + eps) and ceil(-d) (or complementary comparison masks): the centre belongs to exactly one flank",
              "vectorised hat: %s; the selectors must be ceil(x - p + eps) and ceil(p - x) with eps > 0 on exactly one side, or two comparison masks "
              "that split the axis at the centre with equality on exactly one side" % detail)
    # ------------------------------------------------------------ scalar: if / elif covers both strict sides
    cands = [f for f in prog.methods_named("hat_function_non_symmetric") if f.module.name == "GridOperation"]
    if len(cands) != 1:
        raise AnalysisError("anchor vanished: scalar hat_function_non_symmetric in GridOperation (found %d)" % len(cands))
    fs = cands[0]
    ctx.touch(fs)
    for which, body in (("unmodified", _unmodified_branch(fs)),):
        if body is None:
            raise AnalysisError("anchor vanished: unmodified-basis branch of %s" % fs.qual)
        tms = Terms(fs.node, max_depth=0)
        for loop in [s for s in body if isinstance(s, ast.For)]:
            for st in loop.body:
                if isinstance(st, ast.If):
                    tests = [st.test]
                    chain = st
                    exclusive = True
                    while len(chain.orelse) == 1 and isinstance(chain.orelse[0], ast.If):
                        chain = chain.orelse[0]
                        tests.append(chain.test)
                    tt = [tms.term(t) for t in tests]
                    n += 1
                    # after normalisation every test is cmp(Lt|LtE, a, b); the two tests must be over swapped operands (one side each)
                    ok = len(tt) == 2 and all(t[0] == "cmp" and t[1] in ("Lt", "LtE") for t in tt) and tt[0][2] == tt[1][3] and tt[0][3] == tt[1][2]
                    ctx.check(ok and exclusive, rule, R.key_of(fs, "flank-selection"), fs.loc(st),
                              "one flank is applied for x right of the centre, the other for x left of it (if / elif)",
                              "scalar hat: the flank tests `%s` do not split the axis into right of / left of the centre" % [src(t) for t in tests])
    return n


DEDUP_CALLS = {"set", "unique", "fromkeys", "frozenset"}


def check_support_enumeration(prog, ctx, rule):
    """The per-sample path of the right-hand side (component grids with >= 200 points) lists the hats whose support contains a
    sample from floor(x/h) and ceil(x/h) per dimension.  On a grid line floor == ceil: the pair names ONE hat, so the two
    candidates have to be de-duplicated (set / np.unique / dict.fromkeys, or an explicit comparison of the two) before the cross
    product -- otherwise the sample is added twice to that hat and the large-grid path disagrees with the vectorised ones."""
    n = 0
    for fi in sorted(prog.functions.values(), key=lambda f: f.qual):
        if fi.cls is None or fi.module.name != "GridOperation":
            continue
        if not any(isinstance(x, ast.Attribute) and x.attr == "floor" for x in ast.walk(fi.node)):
            continue
        tm = Terms(fi.node)                      # single-definition locals are looked through

        def rounding(t):
            if t[0] == "call" and t[1][0] == "a" and t[1][2] in ("floor", "ceil") and len(t[2]) == 1:
                return t[1][2], t[2][0]
            return None
        for j in [x for x in walk_local(fi.node) if isinstance(x, (ast.Call, ast.Tuple, ast.List))]:
            elts = j.args if isinstance(j, ast.Call) else j.elts
            rs = [rounding(tm.term(a)) for a in elts]
            fl = {r[1] for r in rs if r and r[0] == "floor"}
            ce = {r[1] for r in rs if r and r[0] == "ceil"}
            if not (fl & ce):
                continue
            # a joint enumeration of floor(E) and ceil(E): the candidate hats around a sample
            n += 1
            stj = R.stmt_of(j)
            carriers = set()
            if isinstance(stj, ast.Assign) and len(stj.targets) == 1 and isinstance(stj.targets[0], ast.Name):
                carriers.add(stj.targets[0].id)
            # names the joint enumeration flows into (loop / comprehension variables over it, one level of re-assignment)
            changed = True
            while changed:
                changed = False
                for x in walk_local(fi.node):
                    tgt = it = None
                    if isinstance(x, ast.comprehension) or isinstance(x, ast.For):
                        tgt, it = x.target, x.iter
                    elif isinstance(x, ast.Assign) and len(x.targets) == 1:
                        tgt, it = x.targets[0], x.value
                    if tgt is None:
                        continue
                    reads = {y.id for y in ast.walk(it) if isinstance(y, ast.Name)}
                    direct = any(y is j for y in ast.walk(it))
                    if direct or (reads & carriers):
                        for y in ast.walk(tgt):
                            if isinstance(y, ast.Name) and y.id not in carriers:
                                carriers.add(y.id)
                                changed = True
            ok = False
            for d in walk_local(fi.node):
                if isinstance(d, ast.Call) and ((isinstance(d.func, ast.Name) and d.func.id in DEDUP_CALLS) or
                                                (isinstance(d.func, ast.Attribute) and d.func.attr in DEDUP_CALLS)):
                    reads = {y.id for a in list(d.args) for y in ast.walk(a) if isinstance(y, ast.Name)}
                    if reads & carriers or any(y is j for a in d.args for y in ast.walk(a)):
                        ok = True
                if isinstance(d, ast.Compare) and len(d.ops) == 1 and isinstance(d.ops[0], (ast.Eq, ast.NotEq)):
                    sides = [rounding(tm.term(d.left)), rounding(tm.term(d.comparators[0]))]
                    if all(sides) and {sides[0][0], sides[1][0]} == {"floor", "ceil"}:
                        ok = True
                    nm = {y.id for y in ast.walk(d) if isinstance(y, ast.Name)}
                    if len(nm) == 2 and nm <= carriers and isinstance(d.left, ast.Name) and isinstance(d.comparators[0], ast.Name):
                        ok = True                # the two candidates of one dimension (unpacked from the joint enumeration) are compared
            ctx.check(ok, rule, R.key_of(fi, "each-hat-once"), fi.loc(j),
                      "floor / ceil candidates of a sample are de-duplicated before the hats are enumerated (a sample on a grid line names one hat)",
                      "%s enumerates the hats around a sample from floor and ceil of the same quantity without removing the duplicate that "
                      "arises when both coincide (sample on a grid line): the sample is counted twice for that hat" % fi.name)
    return n
