"""Program model: parse /repo/sparseSpACE/*.py, resolve names through explicit and
transitive star imports, build the class hierarchy (C3), method tables and
attribute store/read tables.  Nothing of the analysed package is imported."""
import ast
import hashlib
import json
import os
import warnings

PKG = "sparseSpACE"


class AnalysisError(Exception):
    """Raised when the analysis cannot be carried out (parse failure, vanished
    anchor, floor not met, unsupported construct).  Converted to exit code 2."""


def _escaping_names(fn):
    """Names of `fn` that a nested scope or a global / nonlocal declaration can see."""
    out = set()
    for n in ast.walk(fn):
        if isinstance(n, (ast.Global, ast.Nonlocal)):
            out.update(n.names)
        elif n is not fn and isinstance(n, (ast.FunctionDef, ast.AsyncFunctionDef, ast.Lambda, ast.ClassDef)):
            for m in ast.walk(n):
                if isinstance(m, ast.Name):
                    out.add(m.id)
    return out


def _use_position_simple(stmt, use):
    """True if `use` (a Name node) is reached in `stmt` before anything that could have an effect: it is a direct argument of the
    statement's top-level call preceded only by names / constants (callee: a plain name or attribute chain), or the whole value."""
    val = getattr(stmt, "value", None)
    if val is use:
        return True
    if isinstance(val, ast.Call) and not any(isinstance(a, ast.Starred) for a in val.args):
        if not all(isinstance(x, (ast.Name, ast.Attribute, ast.Load)) for x in ast.walk(val.func)):
            return False
        for i, a in enumerate(val.args):
            if a is use:
                return all(isinstance(b, (ast.Name, ast.Constant)) for b in val.args[:i])
    return False


def _expand_ifexp(st):
    """`T = A if c else B` -> `if c: T = A else: T = B`, same for `return`; nested conditional expressions in the arms are expanded too"""
    if isinstance(st, (ast.Assign, ast.Return)) and isinstance(st.value, ast.IfExp) \
            and (isinstance(st, ast.Return) or (len(st.targets) == 1 and isinstance(st.targets[0], ast.Name))):
        def arm(v):
            if isinstance(st, ast.Return):
                return _expand_ifexp(ast.copy_location(ast.Return(value=v), v))
            return _expand_ifexp(ast.copy_location(ast.Assign(targets=[ast.Name(id=st.targets[0].id, ctx=ast.Store())], value=v, lineno=st.lineno), v))
        return ast.copy_location(ast.If(test=st.value.test, body=[arm(st.value.body)], orelse=[arm(st.value.orelse)]), st)
    return st


def canonicalise(tree):
    """Behaviour-preserving normalisation applied to every module before any rule looks at it, so that rules see one idiom
    instead of two.  A single-definition, single-use temporary `t = <expr>` that is consumed by the very next simple statement
    -- as its whole value (`return t`, `x = t`) or as a leading argument of its top-level call (`x = f(t, ...)`, nothing with
    an effect evaluated before it) -- is substituted into that statement, provided `t` is a plain local that no nested scope can
    see.  Positions of the consuming statement are kept."""
    # `L = []` ; `for x in IT: [if c:] L.append(E)`   ->   `L = [E for x in IT [if c]]`   (x not used after the loop)
    all_nodes = list(ast.walk(tree))
    funcs = [n for n in all_nodes if isinstance(n, (ast.FunctionDef, ast.AsyncFunctionDef))]
    for fn in funcs:
        if not any(isinstance(x, ast.For) for x in ast.walk(fn)):
            continue
        for node in list(ast.walk(fn)):
            for field in ("body", "orelse", "finalbody"):
                block = getattr(node, field, None)
                if not (isinstance(block, list) and len(block) >= 2 and isinstance(block[0], ast.stmt)):
                    continue
                i = 0
                while i + 1 < len(block):
                    a, lp = block[i], block[i + 1]
                    ok = isinstance(a, ast.Assign) and len(a.targets) == 1 and isinstance(a.targets[0], ast.Name) \
                        and isinstance(a.value, ast.List) and not a.value.elts and isinstance(lp, ast.For) and not lp.orelse and len(lp.body) == 1
                    if ok:
                        L = a.targets[0].id
                        inner = lp.body[0]
                        cond = None
                        if isinstance(inner, ast.If) and not inner.orelse and len(inner.body) == 1:
                            cond, inner = inner.test, inner.body[0]
                        ok = isinstance(inner, ast.Expr) and isinstance(inner.value, ast.Call) and isinstance(inner.value.func, ast.Attribute) \
                            and inner.value.func.attr == "append" and isinstance(inner.value.func.value, ast.Name) and inner.value.func.value.id == L \
                            and len(inner.value.args) == 1 and not inner.value.keywords
                        if ok:
                            elt = inner.value.args[0]
                            tnames = {x.id for x in ast.walk(lp.target) if isinstance(x, ast.Name)}
                            reads_L = any(isinstance(x, ast.Name) and x.id == L for part in ([elt, lp.iter] + ([cond] if cond is not None else []))
                                          for x in ast.walk(part))
                            # the loop variables must be dead after the loop (a comprehension does not leak them)
                            inside = {id(y) for y in ast.walk(lp)}
                            later = any(isinstance(y, ast.Name) and y.id in tnames and isinstance(y.ctx, ast.Load) and id(y) not in inside
                                        for y in ast.walk(fn))
                            in_loop = False
                            has_yield = any(isinstance(y, (ast.Yield, ast.YieldFrom, ast.Await, ast.NamedExpr)) for y in ast.walk(lp))
                            if not reads_L and not later and not in_loop and not has_yield:
                                comp = ast.ListComp(elt=elt, generators=[ast.comprehension(target=lp.target, iter=lp.iter, ifs=[cond] if cond is not None else [], is_async=0)])
                                ast.copy_location(comp, lp)
                                block[i:i + 2] = [ast.copy_location(ast.Assign(targets=[ast.Name(id=L, ctx=ast.Store())], value=comp, lineno=lp.lineno), lp)]
                                continue
                    i += 1
    # `a, b = x, y` -> `a = x; b = y` when the targets are distinct plain names that none of the right-hand sides reads
    all_nodes = list(ast.walk(tree))
    for node in all_nodes:
        for field in ("body", "orelse", "finalbody"):
            block = getattr(node, field, None)
            if not (isinstance(block, list) and block and isinstance(block[0], ast.stmt)):
                continue
            i = 0
            while i < len(block):
                st = block[i]
                if isinstance(st, ast.Assign) and len(st.targets) == 1 and isinstance(st.targets[0], ast.Tuple) and isinstance(st.value, ast.Attribute) \
                        and isinstance(st.value.value, ast.Name) and all(isinstance(t, ast.Name) for t in st.targets[0].elts) \
                        and len({t.id for t in st.targets[0].elts}) == len(st.targets[0].elts) and st.value.value.id not in {t.id for t in st.targets[0].elts}:
                    # samples, labels = self._data  ->  samples = self._data[0]; labels = self._data[1]   (analysis view of the unpacking)
                    import copy as _cp
                    block[i:i + 1] = [ast.copy_location(ast.Assign(targets=[ast.Name(id=t.id, ctx=ast.Store())],
                                                                   value=ast.Subscript(value=_cp.deepcopy(st.value), slice=ast.Constant(value=k_), ctx=ast.Load()),
                                                                   lineno=st.lineno), st) for k_, t in enumerate(st.targets[0].elts)]
                    for x_ in block[i:i + len(st.targets[0].elts)]:
                        ast.fix_missing_locations(x_)
                    i += len(st.targets[0].elts)
                    continue
                if isinstance(st, ast.Assign) and len(st.targets) == 1 and isinstance(st.targets[0], ast.Tuple) and isinstance(st.value, ast.Tuple) \
                        and len(st.targets[0].elts) == len(st.value.elts) and all(isinstance(t, ast.Attribute) and isinstance(t.value, ast.Name) for t in st.targets[0].elts) \
                        and all(isinstance(v, (ast.Constant, ast.Dict, ast.List, ast.Set, ast.Tuple)) and not any(isinstance(x, (ast.Name, ast.Attribute, ast.Call)) for x in ast.walk(v))
                                for v in st.value.elts):
                    # self.a, self.b = {}, {}  ->  two assignments (literal values: nothing on the right reads a target)
                    block[i:i + 1] = [ast.copy_location(ast.Assign(targets=[t], value=v, lineno=st.lineno), st) for t, v in zip(st.targets[0].elts, st.value.elts)]
                    i += len(st.value.elts)
                    continue
                if isinstance(st, ast.Assign) and len(st.targets) == 1 and isinstance(st.targets[0], ast.Tuple) and isinstance(st.value, ast.Tuple) \
                        and len(st.targets[0].elts) == len(st.value.elts) and all(isinstance(t, ast.Name) for t in st.targets[0].elts):
                    tnames = [t.id for t in st.targets[0].elts]
                    reads = {x.id for v in st.value.elts for x in ast.walk(v) if isinstance(x, ast.Name)}
                    if len(set(tnames)) == len(tnames) and not (set(tnames) & reads):
                        block[i:i + 1] = [ast.copy_location(ast.Assign(targets=[ast.Name(id=t, ctx=ast.Store())], value=v, lineno=st.lineno), st)
                                          for t, v in zip(tnames, st.value.elts)]
                        i += len(tnames)
                        continue
                i += 1
    # `T = A if c else B` -> `if c: T = A else: T = B`;  `return A if c else B` -> `if c: return A else: return B`
    for node in all_nodes:
        for field in ("body", "orelse", "finalbody"):
            block = getattr(node, field, None)
            if not (isinstance(block, list) and block and isinstance(block[0], ast.stmt)):
                continue
            for i, st in enumerate(block):
                block[i] = _expand_ifexp(st)
    # `T[k] = T[k] <op> e`  ->  `T[k] <op>= e`   (element stores: read, operate, write back -- the same three steps either way)
    for node in list(ast.walk(tree)):
        for field in ("body", "orelse", "finalbody"):
            block = getattr(node, field, None)
            if not (isinstance(block, list) and block and isinstance(block[0], ast.stmt)):
                continue
            for i, st in enumerate(block):
                if isinstance(st, ast.Assign) and len(st.targets) == 1 and isinstance(st.targets[0], ast.Subscript) \
                        and isinstance(st.value, ast.BinOp) and isinstance(st.value.left, ast.Subscript) \
                        and isinstance(st.value.op, (ast.Add, ast.Sub, ast.Mult, ast.Div)) \
                        and ast.dump(st.value.left.value) == ast.dump(st.targets[0].value) \
                        and ast.dump(st.value.left.slice) == ast.dump(st.targets[0].slice) \
                        and not any(isinstance(x, ast.Call) for x in ast.walk(st.targets[0])):
                    block[i] = ast.copy_location(ast.AugAssign(target=st.targets[0], op=st.value.op, value=st.value.right), st)
    for fn in ast.walk(tree):
        if not isinstance(fn, (ast.FunctionDef, ast.AsyncFunctionDef)):
            continue
        esc = None
        changed = True
        rounds = 0
        while changed and rounds < 4:
            changed = False
            rounds += 1
            loads, stores = {}, {}
            for n in ast.walk(fn):
                if isinstance(n, ast.Name):
                    (stores if isinstance(n.ctx, (ast.Store, ast.Del)) else loads).setdefault(n.id, []).append(n)
            # candidate pairs (definition, consuming next statement, use) per temporary
            pairs = {}
            for node in ast.walk(fn):
                for field in ("body", "orelse", "finalbody"):
                    block = getattr(node, field, None)
                    if not (isinstance(block, list) and len(block) >= 2 and isinstance(block[0], ast.stmt)):
                        continue
                    for i in range(len(block) - 1):
                        a, r = block[i], block[i + 1]
                        if isinstance(a, ast.Assign) and len(a.targets) == 1 and isinstance(a.targets[0], ast.Name) \
                                and isinstance(r, (ast.Return, ast.Assign, ast.AugAssign, ast.Expr)) and getattr(r, "value", None) is not None:
                            t = a.targets[0].id
                            inside = [x for x in ast.walk(r) if isinstance(x, ast.Name) and x.id == t and isinstance(x.ctx, ast.Load)]
                            if len(inside) == 1 and _use_position_simple(r, inside[0]) \
                                    and not any(isinstance(x, ast.Name) and x.id == t for x in ast.walk(a.value)):
                                pairs.setdefault(t, []).append((block, a, r, inside[0]))
            for t, ps in pairs.items():
                if esc is None:
                    esc = _escaping_names(fn)
                # every definition of t is consumed by exactly the statement that follows it, and t is read nowhere else
                if t in esc or len(stores.get(t, [])) != len(ps) or len(loads.get(t, [])) != len(ps):
                    continue
                if any(isinstance(r, ast.AugAssign) and isinstance(r.target, ast.Name) and r.target.id == t for (_b, _a, r, _u) in ps):
                    continue
                for (block, a, r, use) in ps:
                    if a not in block:
                        continue
                    if r.value is use:
                        r.value = a.value
                    else:
                        r.value.args[r.value.args.index(use)] = a.value
                    block.remove(a)
                    changed = True


def sink_returns(tree):
    """`if c: T = A else: T = B` immediately followed by `return T`, T used nowhere else  ->  `if c: return A else: return B`
    (recursively through nested if / else; every leaf must end in an assignment of T).  A function written with one exit and a result
    variable is the same program as the one with a return per case; rules look at return paths."""
    done = 0
    for fn in [n for n in ast.walk(tree) if isinstance(n, (ast.FunctionDef, ast.AsyncFunctionDef))]:
        changed = True
        while changed:
            changed = False
            names_load, names_store = {}, {}
            for x in ast.walk(fn):
                if isinstance(x, ast.Name):
                    (names_load if isinstance(x.ctx, ast.Load) else names_store).setdefault(x.id, []).append(x)
            for node in ast.walk(fn):
                for field in ("body", "orelse", "finalbody"):
                    block = getattr(node, field, None)
                    if not (isinstance(block, list) and len(block) >= 2 and isinstance(block[0], ast.stmt)):
                        continue
                    for k in range(len(block) - 1):
                        st, rt = block[k], block[k + 1]
                        if not (isinstance(st, ast.If) and isinstance(rt, ast.Return) and rt.value is not None):
                            continue
                        if isinstance(rt.value, ast.Name):
                            T = rt.value.id
                        else:
                            # `return f(T)`: a local that is assigned at the end of every branch and read only in the returned expression
                            cand_names = [x.id for x in ast.walk(rt.value) if isinstance(x, ast.Name) and isinstance(x.ctx, ast.Load)]
                            last_assigned = set()
                            for blk_ in (st.body, st.orelse):
                                if blk_ and isinstance(blk_[-1], ast.Assign) and len(blk_[-1].targets) == 1 and isinstance(blk_[-1].targets[0], ast.Name):
                                    last_assigned.add(blk_[-1].targets[0].id)
                            picks = [n_ for n_ in cand_names if n_ in last_assigned and cand_names.count(n_) == 1 and len(names_load.get(n_, [])) == 1]
                            if len(picks) != 1 or len(st.body) != 1 or len(st.orelse) != 1:
                                continue                         # only when each branch does nothing but choose the value
                            T = picks[0]
                        if len(names_load.get(T, [])) != 1:
                            continue

                        def leaves(stmts):
                            """assignments of T that end every path through stmts, or None"""
                            if not stmts:
                                return None
                            last = stmts[-1]
                            if isinstance(last, ast.Assign) and len(last.targets) == 1 and isinstance(last.targets[0], ast.Name) and last.targets[0].id == T:
                                return [(stmts, last)]
                            if isinstance(last, ast.If) and last.orelse:
                                a, b = leaves(last.body), leaves(last.orelse)
                                if a is None or b is None:
                                    return None
                                return a + b
                            return None
                        a, b = leaves(st.body), (leaves(st.orelse) if st.orelse else None)
                        if a is None or b is None:
                            continue
                        lv = a + b
                        if len(names_store.get(T, [])) != len(lv):
                            # an initial default `T = <constant>` before the if is tolerated and dropped
                            extra = [x for x in names_store.get(T, []) if not any(x is l_[1].targets[0] for l_ in lv)]
                            ok_extra = True
                            for x in extra:
                                par_ok = False
                                for j in range(k):
                                    pj = block[j]
                                    if isinstance(pj, ast.Assign) and len(pj.targets) == 1 and pj.targets[0] is x and isinstance(pj.value, ast.Constant):
                                        par_ok = True
                                if not par_ok:
                                    ok_extra = False
                            if not ok_extra:
                                continue
                            block[:] = [pj for pj in block if not (isinstance(pj, ast.Assign) and len(pj.targets) == 1 and isinstance(pj.targets[0], ast.Name)
                                                                   and pj.targets[0].id == T and isinstance(pj.value, ast.Constant) and pj is not st)]
                        import copy as _cp
                        for (blk, asg) in lv:
                            if isinstance(rt.value, ast.Name):
                                newv = asg.value
                            else:
                                class _S(ast.NodeTransformer):
                                    def visit_Name(self, n_):
                                        if n_.id == T and isinstance(n_.ctx, ast.Load):
                                            return ast.copy_location(asg.value, n_)
                                        return n_
                                newv = _S().visit(_cp.deepcopy(rt.value))
                            nr = ast.copy_location(ast.Return(value=newv), asg)
                            ast.fix_missing_locations(nr)
                            blk[blk.index(asg)] = nr
                        block.remove(rt)
                        changed = True
                        done += 1
                        break
                    if changed:
                        break
                if changed:
                    break
    return done


def sink_method_values(tree):
    """`if c: f = self.a else: f = self.b` immediately followed by one statement that calls `f(args)` (f used nowhere else)  ->  the call
    is made in each branch: `if c: T = self.a(args) else: T = self.b(args)`.  Choosing a bound method first and calling it afterwards is
    the same program as calling it in the branch."""
    import copy as _copy
    done = 0
    for fn in [n for n in ast.walk(tree) if isinstance(n, (ast.FunctionDef, ast.AsyncFunctionDef))]:
        changed = True
        while changed:
            changed = False
            loads, stores = {}, {}
            for x in ast.walk(fn):
                if isinstance(x, ast.Name):
                    (loads if isinstance(x.ctx, ast.Load) else stores).setdefault(x.id, []).append(x)
            for node in ast.walk(fn):
                for field in ("body", "orelse", "finalbody"):
                    block = getattr(node, field, None)
                    if not (isinstance(block, list) and len(block) >= 2 and isinstance(block[0], ast.stmt)):
                        continue
                    for k in range(len(block) - 1):
                        st, nx = block[k], block[k + 1]
                        if not (isinstance(st, ast.If) and st.orelse and isinstance(nx, (ast.Assign, ast.Expr, ast.Return, ast.AugAssign))
                                and isinstance(getattr(nx, "value", None), ast.Call) and isinstance(nx.value.func, ast.Name)):
                            continue
                        f = nx.value.func.id
                        if len(loads.get(f, [])) != 1:
                            continue

                        def leaves(stmts):
                            if not stmts:
                                return None
                            last = stmts[-1]
                            if isinstance(last, ast.Assign) and len(last.targets) == 1 and isinstance(last.targets[0], ast.Name) and last.targets[0].id == f \
                                    and isinstance(last.value, ast.Attribute):
                                return [(stmts, last)]
                            if isinstance(last, ast.If) and last.orelse:
                                a_, b_ = leaves(last.body), leaves(last.orelse)
                                return None if a_ is None or b_ is None else a_ + b_
                            return None
                        a_, b_ = leaves(st.body), leaves(st.orelse)
                        if a_ is None or b_ is None or len(stores.get(f, [])) != len(a_ + b_):
                            continue
                        # the arguments must not depend on anything the branches assign besides f (they are evaluated in the branch now)
                        for (blk, asg) in a_ + b_:
                            new = _copy.deepcopy(nx)
                            new.value.func = asg.value
                            ast.copy_location(new, asg)
                            ast.fix_missing_locations(new)
                            blk[blk.index(asg)] = new
                        block.remove(nx)
                        changed = True
                        done += 1
                        break
                    if changed:
                        break
                if changed:
                    break
    return done


def sink_branch_chosen_values(tree):
    """`if c: S = A else: S = B` (each branch exactly this one assignment) immediately followed by `L = g(S)` with S read nowhere else
    ->  `if c: L = g(A) else: L = g(B)`."""
    import copy as _cp
    done = 0
    for fn in [n for n in ast.walk(tree) if isinstance(n, (ast.FunctionDef, ast.AsyncFunctionDef))]:
        changed = True
        while changed:
            changed = False
            loads, stores = {}, {}
            for x in ast.walk(fn):
                if isinstance(x, ast.Name):
                    (loads if isinstance(x.ctx, ast.Load) else stores).setdefault(x.id, []).append(x)
            for node in ast.walk(fn):
                for field in ("body", "orelse", "finalbody"):
                    block = getattr(node, field, None)
                    if not (isinstance(block, list) and len(block) >= 2 and isinstance(block[0], ast.stmt)):
                        continue
                    for k in range(len(block) - 1):
                        st, nx = block[k], block[k + 1]
                        if not (isinstance(st, ast.If) and len(st.body) == 1 and len(st.orelse) == 1 and isinstance(nx, ast.Assign) and len(nx.targets) == 1
                                and (isinstance(nx.targets[0], ast.Name) or (isinstance(nx.targets[0], ast.Tuple) and all(isinstance(t_, ast.Name) for t_ in nx.targets[0].elts)))):
                            continue
                        a_, b_ = st.body[0], st.orelse[0]
                        if not all(isinstance(z, ast.Assign) and len(z.targets) == 1 and isinstance(z.targets[0], ast.Name) for z in (a_, b_)):
                            continue
                        T = a_.targets[0].id
                        nx_names = {nx.targets[0].id} if isinstance(nx.targets[0], ast.Name) else {t_.id for t_ in nx.targets[0].elts}
                        if b_.targets[0].id != T or T in nx_names:
                            continue
                        uses = [x for x in ast.walk(nx.value) if isinstance(x, ast.Name) and x.id == T and isinstance(x.ctx, ast.Load)]
                        if len(uses) != 1 or len(loads.get(T, [])) != 1 or len(stores.get(T, [])) != 2:
                            continue
                        # the statement must not read its own target, and the branch values must not read the target either
                        for z in (a_, b_):
                            class _S(ast.NodeTransformer):
                                def visit_Name(self, n_):
                                    if n_.id == T and isinstance(n_.ctx, ast.Load):
                                        return ast.copy_location(z.value, n_)
                                    return n_
                            new = _cp.deepcopy(nx)
                            new.value = _S().visit(new.value)
                            ast.copy_location(new, z)
                            ast.fix_missing_locations(new)
                            blk = st.body if z is a_ else st.orelse
                            blk[0] = new
                        block.remove(nx)
                        changed = True
                        done += 1
                        break
                    if changed:
                        break
                if changed:
                    break
    return done


def _pure_self_chain(e, selfname):
    """self.a / self.a.b / self.a[0] ... (attribute chain on the receiver, constant subscripts allowed, no call)"""
    depth = 0
    while isinstance(e, (ast.Attribute, ast.Subscript)):
        if isinstance(e, ast.Subscript) and not (isinstance(e.slice, ast.Constant) and isinstance(e.slice.value, int)):
            return False
        if isinstance(e, ast.Attribute):
            depth += 1
        e = e.value
    return depth >= 1 and isinstance(e, ast.Name) and e.id == selfname


def uncache_attribute_locals(tree):
    """`objs = self.refinementObjects ... objs.pop(i)`  ->  `self.refinementObjects.pop(i)`: a local that only caches an attribute
    chain of the receiver is replaced by the chain, when
      * the local is bound exactly once, by a plain assignment that is a direct statement of some block, and every use lies in the
        statements that follow it in that block (so the binding dominates all uses),
      * no attribute of the chain is assigned (`self.a = ...`, `del`, augmented) anywhere in the function, the local is not captured
        by a nested function / lambda and not declared global / nonlocal.
    Looking the attribute up once or at every use is then the same program to every rule."""
    for fn in [n for n in ast.walk(tree) if isinstance(n, (ast.FunctionDef, ast.AsyncFunctionDef))]:
        a_ = fn.args
        params = [x.arg for x in a_.posonlyargs + a_.args]
        if not params:
            continue
        selfname = params[0]
        changed = True
        rounds = 0
        while changed and rounds < 6:
            changed = False
            rounds += 1
            stores, loads = {}, {}
            nested_names = set()
            for n in ast.walk(fn):
                if isinstance(n, ast.Name):
                    (stores if isinstance(n.ctx, (ast.Store, ast.Del)) else loads).setdefault(n.id, []).append(n)
                elif isinstance(n, (ast.FunctionDef, ast.AsyncFunctionDef, ast.Lambda)) and n is not fn:
                    nested_names |= {x.id for x in ast.walk(n) if isinstance(x, ast.Name)}
                elif isinstance(n, (ast.Global, ast.Nonlocal)):
                    nested_names |= set(n.names)
            attr_stores = set()
            for n in ast.walk(fn):
                if isinstance(n, ast.Attribute) and isinstance(n.ctx, (ast.Store, ast.Del)):
                    attr_stores.add(n.attr)
            for node in ast.walk(fn):
                for field in ("body", "orelse", "finalbody"):
                    block = getattr(node, field, None)
                    if not (isinstance(block, list) and block and isinstance(block[0], ast.stmt)):
                        continue
                    for k, st in enumerate(block):
                        if not (isinstance(st, ast.Assign) and len(st.targets) == 1 and isinstance(st.targets[0], ast.Name)):
                            continue
                        if not _pure_self_chain(st.value, selfname):
                            # an element of a sequence that the function never changes (`level = levelvec[d]` with levelvec, d never
                            # re-bound and levelvec never stored into): the element means the same at every use
                            v_ = st.value
                            if isinstance(v_, ast.Subscript) and isinstance(v_.value, ast.Name) and isinstance(v_.slice, (ast.Name, ast.Constant)) \
                                    and v_.value.id != st.targets[0].id:
                                involved = {v_.value.id} | ({v_.slice.id} if isinstance(v_.slice, ast.Name) else set())
                                rebound = any(isinstance(n, ast.Name) and n.id in involved and isinstance(n.ctx, (ast.Store, ast.Del)) for n in ast.walk(fn))
                                elem_stored = any(isinstance(n, ast.Subscript) and isinstance(n.ctx, (ast.Store, ast.Del)) and isinstance(n.value, ast.Name)
                                                  and n.value.id == v_.value.id for n in ast.walk(fn))
                                mutated = any(isinstance(n, ast.Call) and isinstance(n.func, ast.Attribute) and isinstance(n.func.value, ast.Name)
                                              and n.func.value.id == v_.value.id for n in ast.walk(fn))
                                x_ = st.targets[0].id
                                if not rebound and not elem_stored and not mutated and x_ not in params and x_ not in nested_names and len(stores.get(x_, [])) == 1:
                                    uses_ = loads.get(x_, [])
                                    after_ = {id(n) for later in block[k + 1:] for n in ast.walk(later)}
                                    if uses_ and all(id(u) in after_ for u in uses_):
                                        import copy as _copy2

                                        class _Sub2(ast.NodeTransformer):
                                            def visit_Name(self, n_):
                                                if n_.id == x_ and isinstance(n_.ctx, ast.Load):
                                                    return ast.copy_location(_copy2.deepcopy(v_), n_)
                                                return n_
                                        for j in range(k + 1, len(block)):
                                            block[j] = _Sub2().visit(block[j])
                                        del block[k]
                                        changed = True
                                        break
                                continue
                            # a chain on another name (`coefficient = component_grid.coefficient`): the same, provided that name is not
                            # re-bound in the statements that follow in this block (they contain all uses)
                            root = st.value
                            depth = 0
                            while isinstance(root, ast.Attribute):
                                root = root.value
                                depth += 1
                            if not (depth >= 1 and isinstance(root, ast.Name) and root.id != st.targets[0].id):
                                continue
                            if any(isinstance(n, ast.Name) and n.id == root.id and isinstance(n.ctx, (ast.Store, ast.Del))
                                   for later in block[k + 1:] for n in ast.walk(later)):
                                continue
                        x = st.targets[0].id
                        if x in params or x in nested_names or len(stores.get(x, [])) != 1:
                            continue
                        chain_attrs = {n.attr for n in ast.walk(st.value) if isinstance(n, ast.Attribute)}
                        uses = loads.get(x, [])
                        after = {id(n) for later in block[k + 1:] for n in ast.walk(later)}
                        if not uses or not all(id(u) in after for u in uses):
                            continue
                        if chain_attrs & attr_stores:
                            # tolerated only when the attribute is re-assigned after the last use of the local, in straight-line code of
                            # the function body (nothing can lead back from the re-assignment to a use)
                            if block is not fn.body:
                                continue
                            use_ids = {id(u) for u in uses}
                            last_use = max(j for j in range(k + 1, len(block)) if any(id(n) in use_ids for n in ast.walk(block[j])))
                            early = False
                            for j, later in enumerate(block):
                                if j <= last_use and later is not st and any(isinstance(n, ast.Attribute) and isinstance(n.ctx, (ast.Store, ast.Del))
                                                                            and n.attr in chain_attrs for n in ast.walk(later)):
                                    early = True
                            if early:
                                continue
                        # the cached object must not be the target of an augmented assignment through the local (x += ... re-binds x)
                        import copy as _copy

                        class _Sub(ast.NodeTransformer):
                            def visit_Name(self, n_):
                                if n_.id == x and isinstance(n_.ctx, ast.Load):
                                    new_ = _copy.deepcopy(st.value)
                                    return ast.copy_location(new_, n_)
                                return n_
                        for j in range(k + 1, len(block)):
                            block[j] = _Sub().visit(block[j])
                        del block[k]
                        changed = True
                        break
                    if changed:
                        break
                if changed:
                    break


def propagate_constant_locals(tree):
    """`lo, hi = 0.0049, 0.9951` / `threshold = 200`: a local that is bound exactly once, to a literal constant, and is not declared
    global / nonlocal is replaced by the literal at its uses (also inside nested functions and comprehensions)."""
    done = 0
    for fn in [n for n in ast.walk(tree) if isinstance(n, (ast.FunctionDef, ast.AsyncFunctionDef))]:
        stores = {}
        for x in ast.walk(fn):
            if isinstance(x, ast.Name) and isinstance(x.ctx, (ast.Store, ast.Del)):
                stores.setdefault(x.id, []).append(x)
            elif isinstance(x, (ast.Global, ast.Nonlocal)):
                for nm in x.names:
                    stores.setdefault(nm, []).extend([None, None])
            elif isinstance(x, ast.arg):
                stores.setdefault(x.arg, []).extend([None, None])
        consts = {}
        owners = {}
        for node in ast.walk(fn):
            for field in ("body", "orelse", "finalbody"):
                block = getattr(node, field, None)
                if not (isinstance(block, list) and block and isinstance(block[0], ast.stmt)):
                    continue
                for st in block:
                    if isinstance(st, ast.Assign) and len(st.targets) == 1:
                        tg, v = st.targets[0], st.value
                        pairs = []
                        if isinstance(tg, ast.Name) and isinstance(v, ast.Constant):
                            pairs = [(tg, v)]
                        elif isinstance(tg, ast.Tuple) and isinstance(v, ast.Tuple) and len(tg.elts) == len(v.elts) \
                                and all(isinstance(t, ast.Name) for t in tg.elts) and all(isinstance(c_, ast.Constant) for c_ in v.elts):
                            pairs = list(zip(tg.elts, v.elts))
                        for (t, c_) in pairs:
                            if len(stores.get(t.id, [])) == 1 and isinstance(c_.value, (int, float)) and not isinstance(c_.value, bool):
                                consts[t.id] = c_
                                owners[t.id] = (block, st)
        if not consts:
            continue
        # only when every assignment statement involved binds nothing but such constants (so that it can be dropped as a whole)
        for nm, (block, st) in list(owners.items()):
            tg = st.targets[0]
            names = [tg.id] if isinstance(tg, ast.Name) else [t.id for t in tg.elts]
            if not all(n_ in consts for n_ in names):
                consts.pop(nm, None)
        if not consts:
            continue

        class _C(ast.NodeTransformer):
            def visit_Name(self, n_):
                if n_.id in consts and isinstance(n_.ctx, ast.Load):
                    return ast.copy_location(ast.Constant(value=consts[n_.id].value), n_)
                return n_
        _C().visit(fn)
        for nm, (block, st) in owners.items():
            if nm in consts and st in block:
                block.remove(st)
                if not block:
                    block.append(ast.Pass())
        done += len(consts)
    return done


def inline_local_functions(tree):
    """`def add(a, b): return tuple(x + y for x, y in zip(a, b))` (or `add = lambda a, b: ...`) defined inside a function and only
    ever called directly there: every call `add(u, v)` is replaced by the returned expression with the parameters substituted, and
    the definition is dropped.  Conditions: positional parameters only, the body is one `return <expr>`, the name is bound once, the
    expression reads no local of the enclosing function (so it means the same wherever it is evaluated), and an argument that is not
    a plain name / constant / attribute or subscript chain is used at most once in the expression."""
    import copy as _copy
    n_done = 0
    for fn in [n for n in ast.walk(tree) if isinstance(n, (ast.FunctionDef, ast.AsyncFunctionDef))]:
        cands = {}
        for node in ast.walk(fn):
            for field in ("body", "orelse", "finalbody"):
                block = getattr(node, field, None)
                if not (isinstance(block, list) and block and isinstance(block[0], ast.stmt)):
                    continue
                for st in block:
                    g = None
                    if isinstance(st, ast.FunctionDef) and st is not fn and not st.decorator_list:
                        b_ = [x for x in st.body if not (isinstance(x, ast.Expr) and isinstance(x.value, ast.Constant))]
                        if len(b_) == 1 and isinstance(b_[0], ast.Return) and b_[0].value is not None:
                            g = (st.name, st.args, b_[0].value, block, st)
                    elif isinstance(st, ast.Assign) and len(st.targets) == 1 and isinstance(st.targets[0], ast.Name) and isinstance(st.value, ast.Lambda):
                        g = (st.targets[0].id, st.value.args, st.value.body, block, st)
                    if g is None:
                        continue
                    a = g[1]
                    if a.vararg or a.kwarg or a.kwonlyargs or a.posonlyargs or a.defaults:
                        continue
                    cands[g[0]] = g
        if not cands:
            continue
        fa = fn.args
        fn_locals = {x.arg for x in fa.posonlyargs + fa.args + fa.kwonlyargs}
        for x in ast.walk(fn):
            if isinstance(x, ast.Name) and isinstance(x.ctx, (ast.Store, ast.Del)):
                fn_locals.add(x.id)
        for name, (nm, args, expr, block, st) in list(cands.items()):
            params = [x.arg for x in args.args]
            own = set(params)
            for x in ast.walk(expr):
                if isinstance(x, ast.comprehension):
                    own |= {t.id for t in ast.walk(x.target) if isinstance(t, ast.Name)}
            free = {x.id for x in ast.walk(expr) if isinstance(x, ast.Name) and isinstance(x.ctx, ast.Load)} - own
            # parameters of the enclosing function that are never re-bound mean the same wherever the expression is evaluated
            stable = {x.arg for x in fa.posonlyargs + fa.args + fa.kwonlyargs} - \
                {x.id for x in ast.walk(fn) if isinstance(x, ast.Name) and isinstance(x.ctx, (ast.Store, ast.Del))}
            if free & (fn_locals - {nm} - stable) or nm in free:
                continue
            binds = [x for x in ast.walk(fn) if (isinstance(x, ast.Name) and x.id == nm and isinstance(x.ctx, (ast.Store, ast.Del)))
                     or (isinstance(x, ast.FunctionDef) and x.name == nm and x is not fn)]
            if len(binds) != 1:
                continue
            loads = [x for x in ast.walk(fn) if isinstance(x, ast.Name) and x.id == nm and isinstance(x.ctx, ast.Load)]
            calls = [x for x in ast.walk(fn) if isinstance(x, ast.Call) and isinstance(x.func, ast.Name) and x.func.id == nm]
            if not loads:
                continue
            if len(loads) != len(calls):
                # handed on as a value (map(f, a, b), key=f, ...): a def with one returned expression is the same as a lambda
                if isinstance(st, ast.FunctionDef):
                    called = {id(c.func) for c in calls}
                    lam_args = _copy.deepcopy(args)
                    for a_ in lam_args.args:
                        a_.annotation = None

                    class _L(ast.NodeTransformer):
                        def visit_Name(self, y):
                            if y.id == nm and isinstance(y.ctx, ast.Load) and id(y) not in called:
                                return ast.copy_location(ast.Lambda(args=_copy.deepcopy(lam_args), body=_copy.deepcopy(expr)), y)
                            return y
                    if not calls:
                        if st in block:
                            block.remove(st)
                            if not block:
                                block.append(ast.Pass())
                        _L().visit(fn)
                        ast.fix_missing_locations(fn)
                        n_done += 1
                continue
            if any(len(c.args) != len(params) or c.keywords or any(isinstance(a_, ast.Starred) for a_ in c.args) for c in calls):
                continue
            uses = {p_: sum(1 for x in ast.walk(expr) if isinstance(x, ast.Name) and x.id == p_) for p_ in params}

            def simple(e):
                return all(isinstance(x, (ast.Name, ast.Constant, ast.Attribute, ast.Subscript, ast.expr_context, ast.Slice, ast.Tuple, ast.UnaryOp, ast.unaryop))
                           for x in ast.walk(e))
            if any(not simple(a_) and uses[p_] > 1 for c in calls for p_, a_ in zip(params, c.args)):
                continue
            # a comprehension variable of the expression must not capture a name of an argument
            comp_vars = own - set(params)
            if any(isinstance(x, ast.Name) and x.id in comp_vars for c in calls for a_ in c.args for x in ast.walk(a_)):
                continue

            class _Repl(ast.NodeTransformer):
                def visit_Call(self, n):
                    self.generic_visit(n)
                    if isinstance(n.func, ast.Name) and n.func.id == nm and len(n.args) == len(params):
                        m = dict(zip(params, n.args))

                        class _P(ast.NodeTransformer):
                            def visit_Name(self, y):
                                if y.id in m and isinstance(y.ctx, ast.Load):
                                    return ast.copy_location(_copy.deepcopy(m[y.id]), y)
                                return y
                        return ast.copy_location(_P().visit(_copy.deepcopy(expr)), n)
                    return n
            if st in block:
                block.remove(st)
                if not block:
                    block.append(ast.Pass())
            _Repl().visit(fn)
            ast.fix_missing_locations(fn)
            n_done += 1
    return n_done


def unfold_any_over_local_function(tree):
    """`return any(g(v) for v in R)` / `if any(g(v) for v in R): <S ending in return / raise>` with a local multi-statement function
    `def g(v): ...; return e` that is used nowhere else  ->  the loop `for v in R: <body of g>; if e: return True / S` (followed by
    `return False` in the first form).  The locals of g get a suffix; g may read the enclosing function's names."""
    import copy as _copy
    n_done = 0
    for fn in [n for n in ast.walk(tree) if isinstance(n, (ast.FunctionDef, ast.AsyncFunctionDef))]:
        for node in ast.walk(fn):
            for field in ("body", "orelse", "finalbody"):
                block = getattr(node, field, None)
                if not (isinstance(block, list) and block and isinstance(block[0], ast.stmt)):
                    continue
                k = 0
                while k < len(block):
                    st = block[k]
                    k += 1
                    call = None
                    if isinstance(st, ast.Return) and isinstance(st.value, ast.Call):
                        call, form = st.value, "return"
                    elif isinstance(st, ast.If) and isinstance(st.test, ast.Call) and not st.orelse and st.body \
                            and isinstance(st.body[-1], (ast.Return, ast.Raise)):
                        call, form = st.test, "if"
                    if call is None or not (isinstance(call.func, ast.Name) and call.func.id == "any" and len(call.args) == 1 and not call.keywords
                                            and isinstance(call.args[0], (ast.GeneratorExp, ast.ListComp)) and len(call.args[0].generators) == 1
                                            and not call.args[0].generators[0].ifs):
                        continue
                    gen = call.args[0]
                    elt = gen.elt
                    if not (isinstance(elt, ast.Call) and isinstance(elt.func, ast.Name) and not elt.keywords and len(elt.args) == 1
                            and isinstance(gen.generators[0].target, ast.Name) and isinstance(elt.args[0], ast.Name)
                            and elt.args[0].id == gen.generators[0].target.id):
                        continue
                    gname = elt.func.id
                    defs = [(b, x) for n2 in ast.walk(fn) for f2 in ("body", "orelse", "finalbody")
                            for b in [getattr(n2, f2, None)] if isinstance(b, list) for x in b if isinstance(x, ast.FunctionDef) and x.name == gname]
                    if len(defs) != 1:
                        continue
                    dblock, g = defs[0]
                    if g.decorator_list or len(g.args.args) != 1 or g.args.vararg or g.args.kwarg or g.args.kwonlyargs or g.args.defaults:
                        continue
                    uses = [x for x in ast.walk(fn) if isinstance(x, ast.Name) and x.id == gname and isinstance(x.ctx, ast.Load)]
                    if len(uses) != 1:
                        continue
                    gbody = [x for x in g.body if not (isinstance(x, ast.Expr) and isinstance(x.value, ast.Constant))]
                    if not gbody or not isinstance(gbody[-1], ast.Return) or gbody[-1].value is None \
                            or any(isinstance(x, (ast.Return, ast.FunctionDef, ast.Lambda, ast.Yield, ast.Global, ast.Nonlocal)) for y in gbody[:-1] for x in ast.walk(y)):
                        continue
                    n_done += 1
                    tag = "__%s%d" % (gname, n_done)
                    param = g.args.args[0].arg
                    loopvar = gen.generators[0].target.id
                    glocals = {x.id for y in gbody for x in ast.walk(y) if isinstance(x, ast.Name) and isinstance(x.ctx, (ast.Store, ast.Del))}

                    class _R(ast.NodeTransformer):
                        def visit_Name(self, y):
                            if y.id == param:
                                return ast.copy_location(ast.Name(id=loopvar, ctx=y.ctx), y)
                            if y.id in glocals:
                                return ast.copy_location(ast.Name(id=y.id + tag, ctx=y.ctx), y)
                            return y
                    new_body = [_R().visit(_copy.deepcopy(x)) for x in gbody[:-1]]
                    cond = _R().visit(_copy.deepcopy(gbody[-1].value))
                    then = [ast.Return(value=ast.Constant(value=True))] if form == "return" else st.body
                    new_body.append(ast.If(test=cond, body=then, orelse=[]))
                    loop = ast.For(target=ast.Name(id=loopvar, ctx=ast.Store()), iter=gen.generators[0].iter, body=new_body, orelse=[])
                    repl = [loop] + ([ast.Return(value=ast.Constant(value=False))] if form == "return" else [])
                    for x in repl:
                        ast.copy_location(x, st)
                        ast.fix_missing_locations(x)
                    idx = block.index(st)
                    block[idx:idx + 1] = repl
                    if g in dblock:
                        dblock.remove(g)
                        if not dblock:
                            dblock.append(ast.Pass())
                    k = idx + len(repl)
    return n_done


def unroll_reflective_loops(tree):
    """`for name in ('_a', '_b'): setattr(o, name, getattr(self, name))`  ->  `o._a = self._a; o._b = self._b`: a loop over a literal
    tuple / list of attribute names whose variable is only used as the name argument of getattr / setattr is unrolled into plain
    attribute accesses (at most 16 names)."""
    import copy as _copy
    import keyword
    done = 0
    for node in ast.walk(tree):
        for field in ("body", "orelse", "finalbody"):
            block = getattr(node, field, None)
            if not (isinstance(block, list) and block and isinstance(block[0], ast.stmt)):
                continue
            k = 0
            while k < len(block):
                st = block[k]
                k += 1
                if not (isinstance(st, ast.For) and isinstance(st.target, ast.Name) and not st.orelse and isinstance(st.iter, (ast.Tuple, ast.List))
                        and 0 < len(st.iter.elts) <= 16 and all(isinstance(e, ast.Constant) and isinstance(e.value, str) and e.value.isidentifier()
                                                                 and not keyword.iskeyword(e.value) for e in st.iter.elts)):
                    continue
                var = st.target.id
                uses = [x for b_ in st.body for x in ast.walk(b_) if isinstance(x, ast.Name) and x.id == var]
                ok_uses = set()
                for b_ in st.body:
                    for x in ast.walk(b_):
                        if isinstance(x, ast.Call) and isinstance(x.func, ast.Name) and x.func.id in ("getattr", "setattr") and len(x.args) >= 2 \
                                and isinstance(x.args[1], ast.Name) and x.args[1].id == var and not x.keywords:
                            ok_uses.add(id(x.args[1]))
                if not uses or any(id(u) not in ok_uses for u in uses) or any(isinstance(u.ctx, ast.Store) for u in uses):
                    continue
                if any(isinstance(x, (ast.Break, ast.Continue)) for b_ in st.body for x in ast.walk(b_)):
                    continue
                # setattr must be a whole expression statement
                bad = False
                for b_ in st.body:
                    for x in ast.walk(b_):
                        if isinstance(x, ast.Call) and isinstance(x.func, ast.Name) and x.func.id == "setattr" and len(x.args) >= 2 \
                                and isinstance(x.args[1], ast.Name) and x.args[1].id == var:
                            if not (isinstance(b_, ast.Expr) and b_.value is x and len(x.args) == 3):
                                bad = True
                        if isinstance(x, ast.Call) and isinstance(x.func, ast.Name) and x.func.id == "getattr" and len(x.args) != 2 \
                                and len(x.args) >= 2 and isinstance(x.args[1], ast.Name) and x.args[1].id == var:
                            bad = True
                if bad:
                    continue
                new = []
                for e in st.iter.elts:
                    name = e.value

                    class _G(ast.NodeTransformer):
                        def visit_Call(self, n):
                            self.generic_visit(n)
                            if isinstance(n.func, ast.Name) and n.func.id == "getattr" and len(n.args) == 2 and isinstance(n.args[1], ast.Name) and n.args[1].id == var:
                                return ast.copy_location(ast.Attribute(value=n.args[0], attr=name, ctx=ast.Load()), n)
                            return n
                    for b_ in st.body:
                        c_ = _G().visit(_copy.deepcopy(b_))
                        if isinstance(c_, ast.Expr) and isinstance(c_.value, ast.Call) and isinstance(c_.value.func, ast.Name) and c_.value.func.id == "setattr" \
                                and len(c_.value.args) == 3 and isinstance(c_.value.args[1], ast.Name) and c_.value.args[1].id == var:
                            c_ = ast.copy_location(ast.Assign(targets=[ast.Attribute(value=c_.value.args[0], attr=name, ctx=ast.Store())],
                                                              value=c_.value.args[2], lineno=b_.lineno), b_)
                        ast.fix_missing_locations(c_)
                        new.append(c_)
                idx = block.index(st)
                block[idx:idx + 1] = new
                k = idx + len(new)
                done += 1
    return done


def unmove_static_aliases(tree):
    """`def _f(..): ...` at module level plus `name = staticmethod(_f)` in a class body (a method moved out of its class, the old name
    kept as an alias) is turned back into a static method `name` of that class; direct calls `_f(...)` become `Class.name(...)`."""
    funcs = {st.name: st for st in tree.body if isinstance(st, (ast.FunctionDef,))}
    moved = {}
    for cls in [st for st in tree.body if isinstance(st, ast.ClassDef)]:
        for k, st in enumerate(cls.body):
            if isinstance(st, ast.Assign) and len(st.targets) == 1 and isinstance(st.targets[0], ast.Name) and isinstance(st.value, ast.Call) \
                    and isinstance(st.value.func, ast.Name) and st.value.func.id == "staticmethod" and len(st.value.args) == 1 \
                    and isinstance(st.value.args[0], ast.Name) and st.value.args[0].id in funcs and st.value.args[0].id.startswith("_"):
                f = funcs[st.value.args[0].id]
                if f.name in moved:
                    continue
                import copy as _copy
                new = _copy.deepcopy(f)
                new.name = st.targets[0].id
                new.decorator_list = [ast.Name(id="staticmethod", ctx=ast.Load())] + list(new.decorator_list)
                ast.copy_location(new, f)
                cls.body[k] = new
                moved[f.name] = (cls.name, new.name)
    if not moved:
        return 0

    class _Calls(ast.NodeTransformer):
        def visit_Call(self, n):
            self.generic_visit(n)
            if isinstance(n.func, ast.Name) and n.func.id in moved:
                c_, m_ = moved[n.func.id]
                n.func = ast.copy_location(ast.Attribute(value=ast.Name(id=c_, ctx=ast.Load()), attr=m_, ctx=ast.Load()), n.func)
            return n
    for st in tree.body:
        if isinstance(st, ast.FunctionDef) and st.name in moved:
            continue
        _Calls().visit(st)
    tree.body = [st for st in tree.body if not (isinstance(st, ast.FunctionDef) and st.name in moved)]
    ast.fix_missing_locations(tree)
    return len(moved)


class ModuleInfo:
    def __init__(self, name, path, source):
        self.name = name
        self.path = path
        self.source = source
        self.sha256 = hashlib.sha256(source.encode("utf-8")).hexdigest()
        self.lines = source.splitlines()
        try:
            with warnings.catch_warnings():
                warnings.simplefilter("ignore")
                self.tree = ast.parse(source, filename=path)
        except SyntaxError as e:
            raise AnalysisError("syntax error in %s: %s" % (path, e))
        self.memos = strip_unknown_memoisations(self.tree, set())     # the pinned tree has no whole-method memo
        unwrap_memo_delegates(self.tree, name)
        assume_new_caches_miss(self.tree, name)
        unmove_static_aliases(self.tree)
        unroll_reflective_loops(self.tree)
        propagate_constant_locals(self.tree)
        inline_named_conditions(self.tree)
        inline_local_functions(self.tree)
        unfold_any_over_local_function(self.tree)
        uncache_attribute_locals(self.tree)
        canonicalise(self.tree)
        uncache_attribute_locals(self.tree)      # tuple assignments were split by canonicalise
        sink_method_values(self.tree)
        sink_branch_chosen_values(self.tree)
        sink_returns(self.tree)
        self.star_imports = []     # module names (package-local or external)
        self.names = {}            # local name -> ('class'|'func'|'module'|'external'|'var', target)
        self.classes = {}          # simple name -> ClassInfo (top level)
        self.functions = {}        # simple name -> FuncInfo (top level)


class FuncInfo:
    def __init__(self, module, cls, node, qual):
        self.module = module
        self.cls = cls             # ClassInfo or None
        self.node = node
        self.qual = qual           # module.Class.method
        self.name = node.name
        decos = []
        for d in node.decorator_list:
            if isinstance(d, ast.Name):
                decos.append(d.id)
            elif isinstance(d, ast.Attribute):
                decos.append(d.attr)
        self.is_static = "staticmethod" in decos
        self.is_classmethod = "classmethod" in decos
        self.is_abstract = "abstractmethod" in decos

    @property
    def params(self):
        a = self.node.args
        return [x.arg for x in a.posonlyargs + a.args + a.kwonlyargs]

    @property
    def self_name(self):
        if self.cls is None or self.is_static:
            return None
        p = self.params
        return p[0] if p else None

    def loc(self, node=None):
        n = node if node is not None else self.node
        return "%s:%d" % (os.path.relpath(self.module.path, os.path.dirname(os.path.dirname(self.module.path))),
                          getattr(n, "lineno", 0))

    def __repr__(self):
        return "<Func %s>" % self.qual


class ClassInfo:
    def __init__(self, module, node, qual, outer=None):
        self.module = module
        self.node = node
        self.qual = qual
        self.name = node.name
        self.outer = outer
        self.methods = {}          # name -> FuncInfo (own)
        self.nested = {}           # name -> ClassInfo
        self.base_exprs = list(node.bases)
        self.bases = []            # ClassInfo (package) resolved
        self.external_bases = []   # dotted strings
        self.mro = []
        self.subclasses = set()    # direct
        self.class_attrs = {}      # name -> value node (class-level assignments)

    def __repr__(self):
        return "<Class %s>" % self.qual


def _dotted(node):
    parts = []
    while isinstance(node, ast.Attribute):
        parts.append(node.attr)
        node = node.value
    if isinstance(node, ast.Name):
        parts.append(node.id)
        return ".".join(reversed(parts))
    return None


class Program:
    def __init__(self, repo_root):
        self.repo_root = os.path.abspath(repo_root)
        self.pkg_dir = os.path.join(self.repo_root, PKG)
        if not os.path.isdir(self.pkg_dir):
            raise AnalysisError("package directory %s not found" % self.pkg_dir)
        self.modules = {}
        self.classes = {}          # qual -> ClassInfo
        self.functions = {}        # qual -> FuncInfo
        self._load()
        self._index()
        self._resolve_imports()
        self._resolve_bases()
        # one canonical way to pass an argument (keywords continuing the positional prefix become positional), see sa/callnorm.py
        from .callnorm import normalise_call_arguments
        self.normalised_arguments = normalise_call_arguments(self)
        # private helpers that the rule set does not know are looked through (extract-method refactorings), see sa/inline.py
        from .inline import inline_unknown_helpers, known_helpers
        self.inlined = inline_unknown_helpers(self, known_helpers())
        if self.inlined:
            for mi in self.modules.values():
                if inline_local_functions(mi.tree):
                    uncache_attribute_locals(mi.tree)
                canonicalise(mi.tree)
                sink_returns(mi.tree)
        self._set_parents()

    # ------------------------------------------------------------------ load
    def _load(self):
        names = sorted(f for f in os.listdir(self.pkg_dir) if f.endswith(".py"))
        if not names:
            raise AnalysisError("no python modules under %s" % self.pkg_dir)
        for f in names:
            path = os.path.join(self.pkg_dir, f)
            with open(path, encoding="utf-8") as fh:
                src = fh.read()
            mod = f[:-3]
            self.modules[mod] = ModuleInfo(mod, path, src)

    def _index_class(self, mi, node, prefix, outer):
        qual = prefix + "." + node.name
        ci = ClassInfo(mi, node, qual, outer)
        self.classes[qual] = ci
        for st in node.body:
            if isinstance(st, (ast.FunctionDef, ast.AsyncFunctionDef)):
                fi = FuncInfo(mi, ci, st, qual + "." + st.name)
                # later definition of the same name wins, as in Python
                ci.methods[st.name] = fi
                self.functions[fi.qual] = fi
            elif isinstance(st, ast.ClassDef):
                ci.nested[st.name] = self._index_class(mi, st, qual, ci)
            elif isinstance(st, ast.Assign):
                for t in st.targets:
                    if isinstance(t, ast.Name):
                        ci.class_attrs[t.id] = st.value
            elif isinstance(st, ast.AnnAssign) and isinstance(st.target, ast.Name) and st.value is not None:
                ci.class_attrs[st.target.id] = st.value
        return ci

    def _index(self):
        for mi in self.modules.values():
            for st in mi.tree.body:
                if isinstance(st, ast.ClassDef):
                    ci = self._index_class(mi, st, mi.name, None)
                    mi.classes[st.name] = ci
                    mi.names[st.name] = ("class", ci.qual)
                elif isinstance(st, (ast.FunctionDef, ast.AsyncFunctionDef)):
                    fi = FuncInfo(mi, None, st, mi.name + "." + st.name)
                    mi.functions[st.name] = fi
                    self.functions[fi.qual] = fi
                    mi.names[st.name] = ("func", fi.qual)

    # --------------------------------------------------------------- imports
    def _local_module(self, dotted):
        if dotted is None:
            return None
        if dotted.startswith(PKG + "."):
            m = dotted[len(PKG) + 1:]
            return m if m in self.modules else None
        return None

    def _resolve_imports(self):
        for mi in self.modules.values():
            for st in ast.walk(mi.tree):
                if isinstance(st, ast.Import):
                    for a in st.names:
                        local = a.asname or a.name.split(".")[0]
                        lm = self._local_module(a.name)
                        if lm is not None and a.asname:
                            mi.names.setdefault(local, ("module", lm))
                        else:
                            mi.names.setdefault(local, ("external", a.name if a.asname else a.name.split(".")[0]))
                elif isinstance(st, ast.ImportFrom):
                    src = st.module or ""
                    lm = self._local_module(src)
                    for a in st.names:
                        if a.name == "*":
                            mi.star_imports.append(lm if lm is not None else "ext:" + src)
                            continue
                        local = a.asname or a.name
                        if lm is not None:
                            mi.names.setdefault(local, ("import", (lm, a.name)))
                        elif src == PKG and a.name in self.modules:
                            mi.names.setdefault(local, ("module", a.name))
                        else:
                            mi.names.setdefault(local, ("external", src + "." + a.name))

    def resolve_name(self, modname, name, _seen=None):
        """Resolve a global name used in module `modname`.
        Returns ('class', qual) | ('func', qual) | ('module', mod) | ('external', dotted) | None."""
        if _seen is None:
            _seen = set()
        if (modname, name) in _seen:
            return None
        _seen.add((modname, name))
        mi = self.modules.get(modname)
        if mi is None:
            return None
        if name in mi.names:
            kind, tgt = mi.names[name]
            if kind == "import":
                r = self.resolve_name(tgt[0], tgt[1], _seen)
                return r
            return (kind, tgt)
        ext = None
        for s in mi.star_imports:
            if s.startswith("ext:"):
                ext = ext or ("external", s[4:] + "." + name + "?")
                continue
            r = self.resolve_name(s, name, _seen)
            if r is not None and not (r[0] == "external" and r[1].endswith("?")):
                return r
            if r is not None:
                ext = ext or r
        return ext

    def resolve_class_expr(self, modname, expr, scope_cls=None):
        """Resolve an expression naming a class to ClassInfo or None."""
        if isinstance(expr, ast.Name):
            c = scope_cls
            while c is not None:
                if expr.id in c.nested:
                    return c.nested[expr.id]
                c = c.outer
            r = self.resolve_name(modname, expr.id)
            if r and r[0] == "class":
                return self.classes[r[1]]
            return None
        if isinstance(expr, ast.Attribute):
            base = expr.value
            if isinstance(base, ast.Name):
                r = self.resolve_name(modname, base.id)
                if r and r[0] == "module":
                    r2 = self.resolve_name(r[1], expr.attr)
                    if r2 and r2[0] == "class":
                        return self.classes[r2[1]]
                if r and r[0] == "class":
                    ci = self.classes[r[1]]
                    return ci.nested.get(expr.attr)
            inner = self.resolve_class_expr(modname, base, scope_cls)
            if inner is not None:
                return inner.nested.get(expr.attr)
        return None

    def _resolve_bases(self):
        for ci in self.classes.values():
            for b in ci.base_exprs:
                rc = self.resolve_class_expr(ci.module.name, b, ci.outer)
                if rc is not None:
                    ci.bases.append(rc)
                    rc.subclasses.add(ci.qual)
                else:
                    d = _dotted(b)
                    ci.external_bases.append(d or ast.dump(b))
        for ci in self.classes.values():
            ci.mro = self._c3(ci, ())

    def _c3(self, ci, stack):
        if ci in stack:
            raise AnalysisError("cyclic class hierarchy at %s" % ci.qual)
        seqs = [self._c3(b, stack + (ci,)) for b in ci.bases] + [list(ci.bases)]
        res = [ci]
        seqs = [list(s) for s in seqs if s]
        while seqs:
            for s in seqs:
                cand = s[0]
                if not any(cand in t[1:] for t in seqs):
                    break
            else:
                raise AnalysisError("inconsistent MRO for %s" % ci.qual)
            res.append(cand)
            for s in seqs:
                if s and s[0] is cand:
                    del s[0]
            seqs = [s for s in seqs if s]
        return res

    def _set_parents(self):
        for mi in self.modules.values():
            for parent in ast.walk(mi.tree):
                for ch in ast.iter_child_nodes(parent):
                    if isinstance(ch, (ast.expr_context, ast.operator, ast.unaryop, ast.boolop, ast.cmpop)):
                        continue          # shared singletons of the parser: never attach analysis state to them
                    ch._parent = parent
            mi.tree._parent = None

    # ---------------------------------------------------------------- lookups
    def cls(self, qual):
        if qual not in self.classes:
            raise AnalysisError("anchor vanished: class %s" % qual)
        return self.classes[qual]

    def func(self, qual):
        if qual not in self.functions:
            raise AnalysisError("anchor vanished: function %s" % qual)
        return self.functions[qual]

    def has_func(self, qual):
        return qual in self.functions

    def all_subclasses(self, ci, include_self=True):
        out = [ci] if include_self else []
        seen = {ci.qual}
        work = [ci]
        while work:
            c = work.pop()
            for s in sorted(c.subclasses):
                if s not in seen:
                    seen.add(s)
                    sc = self.classes[s]
                    out.append(sc)
                    work.append(sc)
        return out

    def lookup_method(self, ci, name):
        """Method resolution along the MRO (package classes only)."""
        for c in ci.mro:
            if name in c.methods:
                return c.methods[name]
        return None

    def dynamic_targets(self, ci, name):
        """All implementations `self.name()` may reach when self is an instance of
        ci or any subclass (class hierarchy analysis)."""
        out = []
        seen = set()
        for c in self.all_subclasses(ci):
            f = self.lookup_method(c, name)
            if f is not None and f.qual not in seen:
                seen.add(f.qual)
                out.append(f)
        return out

    def methods_named(self, name):
        return [f for f in self.functions.values() if f.name == name and f.cls is not None]

    def overrides(self, base_ci, name):
        """Every definition of method `name` in base_ci and its subclasses."""
        out = []
        for c in self.all_subclasses(base_ci):
            if name in c.methods:
                out.append(c.methods[name])
        return out

    def enclosing_function(self, node):
        n = getattr(node, "_parent", None)
        while n is not None and not isinstance(n, (ast.FunctionDef, ast.AsyncFunctionDef)):
            n = getattr(n, "_parent", None)
        return n

    def func_of_node(self, node):
        """FuncInfo of the outermost def enclosing node that is indexed."""
        n = node
        chain = []
        while n is not None:
            if isinstance(n, (ast.FunctionDef, ast.AsyncFunctionDef)):
                chain.append(n)
            n = getattr(n, "_parent", None)
        if not hasattr(self, "_func_by_node"):
            self._func_by_node = {id(fi.node): fi for fi in self.functions.values()}
        for fn in reversed(chain):
            fi = self._func_by_node.get(id(fn))
            if fi is not None:
                return fi
        return None

    def stats(self):
        return {
            "modules": len(self.modules),
            "classes": len(self.classes),
            "functions": len(self.functions),
            "module_digests": {m: mi.sha256[:16] for m, mi in sorted(self.modules.items())},
        }


def src(node):
    """Readable one-line source of a node."""
    try:
        s = ast.unparse(node)
    except Exception:
        s = ast.dump(node)
    s = " ".join(s.split())
    return s if len(s) <= 160 else s[:157] + "..."


# ------------------------------------------------------------------ memoised methods
def find_memoisations(tree):
    """[(FunctionDef, attribute, [statements that implement the memo])] for methods of the shape

        key = <expr>                                   (optional)
        if key in self.C: return self.C[key]           (top level, before any other effect)
        ...
        self.C[key] = R      /  self.C[key] = (a, b)   (directly before the final return of the same value)
        return R             /  return a, b
    """
    out = []
    for cls in [n for n in ast.walk(tree) if isinstance(n, ast.ClassDef)]:
        for fn in [st for st in cls.body if isinstance(st, ast.FunctionDef)]:
            if not fn.args.args:
                continue
            me = fn.args.args[0].arg
            body = fn.body
            for k, st in enumerate(body):
                if not (isinstance(st, ast.If) and not st.orelse and len(st.body) == 1 and isinstance(st.body[0], ast.Return)
                        and isinstance(st.test, ast.Compare) and len(st.test.ops) == 1 and isinstance(st.test.ops[0], ast.In)):
                    continue
                key, cont = st.test.left, st.test.comparators[0]
                if not (isinstance(cont, ast.Attribute) and isinstance(cont.value, ast.Name) and cont.value.id == me):
                    continue
                rv = st.body[0].value
                if not (isinstance(rv, ast.Subscript) and ast.dump(rv.value) == ast.dump(cont) and ast.dump(rv.slice) == ast.dump(key)):
                    continue
                # nothing with an effect before the lookup
                if not all(isinstance(p, ast.Assign) or (isinstance(p, ast.Expr) and isinstance(p.value, ast.Constant)) for p in body[:k]):
                    continue
                # the store directly before the last return
                if len(body) < k + 3 or not isinstance(body[-1], ast.Return) or body[-1].value is None:
                    continue
                sto = body[-2]
                if not (isinstance(sto, ast.Assign) and len(sto.targets) == 1 and isinstance(sto.targets[0], ast.Subscript)
                        and ast.dump(sto.targets[0].value) == ast.dump(cont) and ast.dump(sto.targets[0].slice) == ast.dump(key)):
                    continue

                def same(a, b):
                    if isinstance(a, ast.Tuple) and isinstance(b, ast.Tuple):
                        return len(a.elts) == len(b.elts) and all(same(x, y) for x, y in zip(a.elts, b.elts))
                    return isinstance(a, ast.Name) and isinstance(b, ast.Name) and a.id == b.id
                if not same(sto.value, body[-1].value):
                    continue
                stmts = [st, sto]
                # the key variable, when it serves the memo only
                if isinstance(key, ast.Name):
                    uses = [n for n in ast.walk(fn) if isinstance(n, ast.Name) and n.id == key.id and isinstance(n.ctx, ast.Load)]
                    memo_uses = [n for s_ in stmts for n in ast.walk(s_) if isinstance(n, ast.Name) and n.id == key.id and isinstance(n.ctx, ast.Load)]
                    if len(uses) == len(memo_uses):
                        stmts += [p for p in body[:k] if isinstance(p, ast.Assign) and len(p.targets) == 1 and isinstance(p.targets[0], ast.Name)
                                  and p.targets[0].id == key.id]
                out.append((cls.name, fn, cont.attr, stmts))
                break
    return out


def strip_unknown_memoisations(tree, known):
    """removes the memo statements of whole-method memoisations whose cache attribute the pinned tree does not have (`known`: set of
    'Class.attr'); returns [(class name, method name, attribute, line)] for the report.  The computation is then analysed as if it ran on
    every call; whether the cache is dropped when its inputs change is a separate obligation (C03.D5 for the dimension-wise strategy)."""
    done = []
    for cname, fn, attr, stmts in find_memoisations(tree):
        if "%s.%s" % (cname, attr) in known:
            continue
        for s_ in stmts:
            if s_ in fn.body:
                fn.body.remove(s_)
        done.append((cname, fn.name, attr, fn.lineno))
    return done


# ------------------------------------------------------------------ caches the pinned tree does not have: analysed as if they always missed
_KNOWN_ATTRS = None


def _known_attrs():
    global _KNOWN_ATTRS
    if _KNOWN_ATTRS is None:
        path = os.path.join(os.path.dirname(os.path.abspath(__file__)), "known_attrs.json")
        try:
            with open(path) as fh:
                _KNOWN_ATTRS = json.load(fh)
        except (OSError, ValueError):
            _KNOWN_ATTRS = {}
    return _KNOWN_ATTRS


def _is_empty_dict(v):
    return (isinstance(v, ast.Dict) and not v.keys) or (isinstance(v, ast.Call) and isinstance(v.func, ast.Name) and v.func.id in ("dict", "OrderedDict")
                                                        and not v.args and not v.keywords)


def assume_new_caches_miss(tree, modname):
    """A dict kept in an instance attribute, a class attribute or a module-level name that the pinned tree does not have
    (sa/known_attrs.json), and that a function uses only as a lookup table (`k in C`, `C.get(k)`, `C[k]`, `C[k] = v`,
    `C.setdefault(k, v)`), is a cache added by a later change.  For the analysis every lookup misses: `k in C` is False, `C.get(k)` is
    None, the stored value is bound to a temporary that later `C[k]` loads of the same key read.  The computation is then analysed as if
    it ran on every call; whether the cache can go stale is a separate obligation (sa/statecheck.py S2).  Returns the number of
    rewritten functions."""
    known = _known_attrs()
    if not known:
        return 0
    kmods = set(known.get("modules", {}).get(modname, []))
    new_globals = set()
    for st in tree.body:
        if isinstance(st, ast.Assign) and len(st.targets) == 1 and isinstance(st.targets[0], ast.Name) and _is_empty_dict(st.value) \
                and st.targets[0].id not in kmods:
            new_globals.add(st.targets[0].id)
    done = 0

    def classes(node, prefix):
        for st in node.body:
            if isinstance(st, ast.ClassDef):
                yield prefix + "." + st.name, st
                yield from classes(st, prefix + "." + st.name)
    for cq, cdef in list(classes(tree, modname)):
        kattrs = known.get("classes", {}).get(cq)
        new_class = kattrs is None
        kattrs = set(kattrs or [])
        class_level = {t.id for st in cdef.body if isinstance(st, ast.Assign) and _is_empty_dict(st.value)
                       for t in st.targets if isinstance(t, ast.Name) and (new_class or t.id not in kattrs)}
        inst_new = set()
        for fn in [m for m in cdef.body if isinstance(m, ast.FunctionDef)]:
            if not fn.args.args:
                continue
            me = fn.args.args[0].arg
            for n in ast.walk(fn):
                if isinstance(n, ast.Assign) and _is_empty_dict(n.value):
                    for t in n.targets:
                        if isinstance(t, ast.Attribute) and isinstance(t.value, ast.Name) and t.value.id == me and (new_class or t.attr not in kattrs):
                            inst_new.add(t.attr)
        if not (class_level or inst_new or new_globals):
            continue
        for fn in [m for m in cdef.body if isinstance(m, ast.FunctionDef)]:
            static = any(isinstance(d, ast.Name) and d.id == "staticmethod" for d in fn.decorator_list)
            me = fn.args.args[0].arg if fn.args.args and not static else None

            def container(e):
                if isinstance(e, ast.Attribute) and isinstance(e.value, ast.Name):
                    if me and e.value.id == me and e.attr in inst_new:
                        return "self." + e.attr
                    if e.value.id in (cdef.name, "cls") and e.attr in class_level:
                        return "cls." + e.attr
                    if me and e.value.id == me and e.attr in class_level:
                        return "cls." + e.attr
                if isinstance(e, ast.Name) and e.id in new_globals:
                    return "glob." + e.id
                return None
            if _rewrite_cache_uses(fn, container):
                done += 1
    for fn in [m for m in tree.body if isinstance(m, ast.FunctionDef)]:
        if new_globals and _rewrite_cache_uses(fn, lambda e: ("glob." + e.id) if isinstance(e, ast.Name) and e.id in new_globals else None):
            done += 1
    return done


def unwrap_memo_delegates(tree, modname):
    """A recursion that was given a per-call memo:  F(a, b) became `return X._F_memo(a, b, {})` and the recursion moved into the new
    helper `_F_memo(a, b, memo)`, which looks (a, b) up in `memo`, recurses with `memo` handed on, stores and returns.  The dict lives
    for one top-level call and is keyed by the arguments, so for the analysis the helper IS the old recursion: its body (memo idioms
    removed as in assume_new_caches_miss, recursive calls re-directed to F) replaces F's body and the helper disappears.  Only helpers
    the pinned tree does not have are touched."""
    known = _known_attrs()
    pinned = set(known.get("functions", [])) if known else set()
    if not pinned:
        return 0
    done = 0

    def classes(node, prefix):
        for st in node.body:
            if isinstance(st, ast.ClassDef):
                yield prefix + "." + st.name, st
                yield from classes(st, prefix + "." + st.name)
    for cq, cdef in list(classes(tree, modname)):
        methods = {m.name: m for m in cdef.body if isinstance(m, ast.FunctionDef)}
        for F in list(methods.values()):
            body = [st for st in F.body if not (isinstance(st, ast.Expr) and isinstance(st.value, ast.Constant) and isinstance(st.value.value, str))]
            fresh_name = None
            if len(body) == 2 and isinstance(body[0], ast.Assign) and len(body[0].targets) == 1 and isinstance(body[0].targets[0], ast.Name) \
                    and _is_empty_dict(body[0].value):
                fresh_name = body[0].targets[0].id
                body = body[1:]
            if not (len(body) == 1 and isinstance(body[0], ast.Return) and isinstance(body[0].value, ast.Call)):
                continue
            call = body[0].value
            f_ = call.func
            if not (isinstance(f_, ast.Attribute) and isinstance(f_.value, ast.Name) and f_.attr in methods and f_.attr != F.name and not call.keywords):
                continue
            H = methods[f_.attr]
            if "%s.%s" % (cq, H.name) in pinned or not H.name.startswith("_"):
                continue
            static_f = any(isinstance(d, ast.Name) and d.id == "staticmethod" for d in F.decorator_list)
            static_h = any(isinstance(d, ast.Name) and d.id == "staticmethod" for d in H.decorator_list)
            if static_f != static_h:
                continue
            fp = [a.arg for a in F.args.args][(0 if static_f else 1):]
            hp = [a.arg for a in H.args.args][(0 if static_h else 1):]
            if len(hp) != len(fp) + 1 or len(call.args) != len(hp):
                continue
            if not all(isinstance(a, ast.Name) and a.id == p_ for a, p_ in zip(call.args[:-1], fp)):
                continue
            last = call.args[-1]
            if not (_is_empty_dict(last) or (isinstance(last, ast.Name) and last.id == fresh_name)):
                continue
            memo = hp[-1]
            recv = f_.value.id
            # recursive calls hand the memo on as last argument; re-direct them to F
            ok = True
            rec_calls = []
            for n in ast.walk(H):
                if isinstance(n, ast.Call) and isinstance(n.func, ast.Attribute) and n.func.attr == H.name and isinstance(n.func.value, ast.Name):
                    if n.keywords or len(n.args) != len(hp) or not (isinstance(n.args[-1], ast.Name) and n.args[-1].id == memo):
                        ok = False
                    rec_calls.append(n)
            if not ok:
                continue
            import copy as _copy
            Hc = _copy.deepcopy(H)
            for n in ast.walk(Hc):
                if isinstance(n, ast.Call) and isinstance(n.func, ast.Attribute) and n.func.attr == H.name and isinstance(n.func.value, ast.Name):
                    n.func.attr = F.name
                    n.args = n.args[:-1]
            if not _rewrite_cache_uses(Hc, lambda e: "param" if isinstance(e, ast.Name) and e.id == memo else None):
                continue
            if any(isinstance(n, ast.Name) and n.id == memo for n in ast.walk(Hc)):
                continue
            # parameter names of the helper become those of F
            ren = dict(zip(hp[:-1], fp))
            if not static_f:
                ren[H.args.args[0].arg] = F.args.args[0].arg
            for n in ast.walk(Hc):
                if isinstance(n, ast.Name) and n.id in ren:
                    n.id = ren[n.id]
            F.body = [st for st in F.body if isinstance(st, ast.Expr) and isinstance(st.value, ast.Constant) and isinstance(st.value.value, str)][:1] + \
                [st for st in Hc.body if not (isinstance(st, ast.Expr) and isinstance(st.value, ast.Constant) and isinstance(st.value.value, str))]
            cdef.body.remove(H)
            del methods[H.name]
            _sink_trailing_return(F)
            ast.fix_missing_locations(F)
            done += 1
    return done


def _sink_trailing_return(fn):
    """`if ..: T = A  elif ..: T = B  else: <stmts>` followed by `return T` as the last two statements of the function: every leaf that
    ends in `T = X` returns X, every other leaf returns T (the single exit a memo store needed becomes a return per case again)"""
    body = fn.body
    if len(body) < 2 or not (isinstance(body[-1], ast.Return) and isinstance(body[-1].value, ast.Name) and isinstance(body[-2], ast.If)):
        return False
    T = body[-1].value.id

    def sink(block):
        if not block:
            block.append(ast.Return(value=ast.Name(id=T, ctx=ast.Load())))
            return
        last = block[-1]
        if isinstance(last, ast.Assign) and len(last.targets) == 1 and isinstance(last.targets[0], ast.Name) and last.targets[0].id == T:
            block[-1] = ast.copy_location(ast.Return(value=last.value), last)
        elif isinstance(last, ast.If):
            sink(last.body)
            sink(last.orelse)
        elif not isinstance(last, (ast.Return, ast.Raise)):
            block.append(ast.Return(value=ast.Name(id=T, ctx=ast.Load())))
    iff = body[-2]
    sink(iff.body)
    sink(iff.orelse)
    body.pop()
    return True


def _rewrite_cache_uses(fn, container):
    """rewrite one function; False (and nothing changed) unless every use of the containers in it is a lookup-table idiom"""
    uses = []
    parents = {}
    for p_ in ast.walk(fn):
        for c_ in ast.iter_child_nodes(p_):
            parents[id(c_)] = p_
    for n in ast.walk(fn):
        cid = container(n) if isinstance(n, (ast.Attribute, ast.Name)) else None
        if cid is None:
            continue
        if isinstance(n, ast.Name) and isinstance(n.ctx, ast.Store):
            return False
        par = parents.get(id(n))
        kind = None
        if isinstance(par, ast.Compare) and len(par.ops) == 1 and isinstance(par.ops[0], (ast.In, ast.NotIn)) and par.comparators[0] is n:
            kind = "member"
        elif isinstance(par, ast.Attribute) and par.value is n and par.attr in ("get", "setdefault") and isinstance(parents.get(id(par)), ast.Call) \
                and parents[id(par)].func is par:
            kind = par.attr
        elif isinstance(par, ast.Subscript) and par.value is n:
            kind = "load" if isinstance(par.ctx, ast.Load) else "store"
            gp = parents.get(id(par))
            if kind == "store" and not (isinstance(gp, ast.Assign) and len(gp.targets) == 1 and gp.targets[0] is par):
                return False
        elif isinstance(par, ast.Assign) and isinstance(n, ast.Attribute) and n in par.targets and _is_empty_dict(par.value):
            kind = "create"
        else:
            return False
        uses.append((n, par, kind, cid))
    if not any(k in ("member", "get", "setdefault", "load") for (_n, _p, k, _c) in uses):
        return False
    # a memo: the function that looks a value up is the one that stores it.  A table that another method fills is state, not a cache of
    # this function -- its lookups are left as they are
    for cid_ in {c_ for (_n, _p, _k, c_) in uses}:
        kinds_ = {k for (_n, _p, k, c_) in uses if c_ == cid_}
        if kinds_ & {"member", "get", "load"} and not kinds_ & {"store", "setdefault"}:
            return False
    counter = [0]
    temps = {}          # (container id, dump of key) -> temp name

    def temp_for(cid, key):
        k_ = (cid, ast.dump(key))
        if k_ not in temps:
            counter[0] += 1
            temps[k_] = "_cached_value_%d" % counter[0]
        return temps[k_]
    # stores first (they define the temporaries)
    for (n, par, kind, cid) in uses:
        if kind == "store":
            assign = parents[id(par)]
            assign.targets = [ast.copy_location(ast.Name(id=temp_for(cid, par.slice), ctx=ast.Store()), par)]

    class Rw(ast.NodeTransformer):
        def visit_Compare(self, node):
            self.generic_visit(node)
            if len(node.ops) == 1 and isinstance(node.ops[0], (ast.In, ast.NotIn)) and container(node.comparators[0]) is not None:
                return ast.copy_location(ast.Constant(value=isinstance(node.ops[0], ast.NotIn)), node)
            return node

        def visit_Call(self, node):
            self.generic_visit(node)
            f_ = node.func
            if isinstance(f_, ast.Attribute) and f_.attr in ("get", "setdefault") and container(f_.value) is not None and node.args:
                if f_.attr == "get":
                    return ast.copy_location(node.args[1] if len(node.args) > 1 else ast.Constant(value=None), node)
                return ast.copy_location(node.args[1] if len(node.args) > 1 else ast.Constant(value=None), node)
            return node

        def visit_Subscript(self, node):
            self.generic_visit(node)
            cid = container(node.value)
            if cid is not None and isinstance(node.ctx, ast.Load):
                k_ = (cid, ast.dump(node.slice))
                if k_ in temps:
                    return ast.copy_location(ast.Name(id=temps[k_], ctx=ast.Load()), node)
            return node
    Rw().visit(fn)
    _fold_constant_tests(fn)
    # temporaries nobody reads, and `x = None` that the very next statement overwrites (left over from `x = C.get(k)`)
    loaded = {n.id for n in ast.walk(fn) if isinstance(n, ast.Name) and isinstance(n.ctx, ast.Load)}

    def clean(block):
        out = []
        for k, st in enumerate(block):
            for field in ("body", "orelse", "finalbody"):
                sub = getattr(st, field, None)
                if isinstance(sub, list) and sub and isinstance(sub[0], ast.stmt):
                    setattr(st, field, clean(sub) or [ast.Pass()])
            if isinstance(st, ast.Assign) and len(st.targets) == 1 and isinstance(st.targets[0], ast.Name):
                nm = st.targets[0].id
                if nm.startswith("_cached_value_") and nm not in loaded and isinstance(st.value, (ast.Name, ast.Constant)):
                    continue
                nxt = block[k + 1] if k + 1 < len(block) else None
                if isinstance(st.value, ast.Constant) and st.value.value is None and isinstance(nxt, ast.Assign) and len(nxt.targets) == 1 \
                        and isinstance(nxt.targets[0], ast.Name) and nxt.targets[0].id == nm \
                        and not any(isinstance(y, ast.Name) and y.id == nm for y in ast.walk(nxt.value)):
                    continue
            out.append(st)
        return out
    fn.body = clean(fn.body) or [ast.Pass()]
    ast.fix_missing_locations(fn)
    return True


def _fold_constant_tests(fn):
    """`if False: A else: B` -> B, `if True: A` -> A, `x = None` directly followed by `if x is None: A [else: B]` -> `x = None; A`,
    `c and True` -> c, `c and False` -> False (only what the rewrite above produces)"""
    def simp(e):
        if isinstance(e, ast.BoolOp):
            vals = [simp(v) for v in e.values]
            if isinstance(e.op, ast.And):
                if any(isinstance(v, ast.Constant) and v.value is False for v in vals):
                    return ast.Constant(value=False)
                vals = [v for v in vals if not (isinstance(v, ast.Constant) and v.value is True)]
            else:
                if any(isinstance(v, ast.Constant) and v.value is True for v in vals):
                    return ast.Constant(value=True)
                vals = [v for v in vals if not (isinstance(v, ast.Constant) and v.value is False)]
            if not vals:
                return ast.Constant(value=isinstance(e.op, ast.And))
            return vals[0] if len(vals) == 1 else ast.BoolOp(op=e.op, values=vals)
        if isinstance(e, ast.UnaryOp) and isinstance(e.op, ast.Not):
            o = simp(e.operand)
            if isinstance(o, ast.Constant) and isinstance(o.value, bool):
                return ast.Constant(value=not o.value)
            return ast.UnaryOp(op=e.op, operand=o)
        return e

    def fold_block(block):
        out = []
        k = 0
        while k < len(block):
            st = block[k]
            for field in ("body", "orelse", "finalbody"):
                sub = getattr(st, field, None)
                if isinstance(sub, list) and sub and isinstance(sub[0], ast.stmt):
                    setattr(st, field, fold_block(sub) or [ast.Pass()])
            if isinstance(st, ast.If):
                st.test = simp(st.test)
                t = st.test
                prev = out[-1] if out else None
                none_name = prev.targets[0].id if (isinstance(prev, ast.Assign) and len(prev.targets) == 1 and isinstance(prev.targets[0], ast.Name)
                                                   and isinstance(prev.value, ast.Constant) and prev.value.value is None) else None
                if isinstance(t, ast.Compare) and len(t.ops) == 1 and isinstance(t.ops[0], (ast.Is, ast.IsNot)) and isinstance(t.left, ast.Name) \
                        and t.left.id == none_name and isinstance(t.comparators[0], ast.Constant) and t.comparators[0].value is None:
                    t = ast.Constant(value=isinstance(t.ops[0], ast.Is))
                if isinstance(t, ast.Constant) and isinstance(t.value, bool):
                    chosen = st.body if t.value else st.orelse
                    out.extend([x for x in chosen if not isinstance(x, ast.Pass)])
                    k += 1
                    continue
            elif isinstance(st, ast.While):
                st.test = simp(st.test)
            out.append(st)
            k += 1
        return out
    fn.body = fold_block(fn.body) or [ast.Pass()]


def inline_named_conditions(tree):
    """`reached = error <= tol` ... `if reached and not below: break`: a local that is bound exactly once to a condition (comparison,
    and/or/not of conditions) and read exactly once, in the test of an `if`/`while` statement of the same block, with nothing but other
    such condition bindings between the binding and the test, is replaced by its condition there (the short-circuit decomposition of the
    flow graph then sees the real tests).  The order in which the conditions are evaluated is not preserved and need not be."""
    def is_condition(e):
        if isinstance(e, ast.Compare):
            return True
        if isinstance(e, ast.BoolOp):
            return all(is_condition(v) or isinstance(v, ast.Name) for v in e.values) and any(is_condition(v) for v in e.values)
        if isinstance(e, ast.UnaryOp) and isinstance(e.op, ast.Not):
            return is_condition(e.operand)
        return False
    done = 0
    for fn in [n for n in ast.walk(tree) if isinstance(n, (ast.FunctionDef, ast.AsyncFunctionDef))]:
        stores, loads = {}, {}
        for x in ast.walk(fn):
            if isinstance(x, ast.Name):
                (stores if isinstance(x.ctx, (ast.Store, ast.Del)) else loads).setdefault(x.id, []).append(x)
            elif isinstance(x, (ast.Global, ast.Nonlocal)):
                for nm in x.names:
                    stores.setdefault(nm, []).extend([None, None])
            elif isinstance(x, ast.arg):
                stores.setdefault(x.arg, []).extend([None, None])
        for node in ast.walk(fn):
            for field in ("body", "orelse", "finalbody"):
                block = getattr(node, field, None)
                if not (isinstance(block, list) and block and isinstance(block[0], ast.stmt)):
                    continue
                changed = True
                while changed:
                    changed = False
                    for k, st in enumerate(block):
                        if not (isinstance(st, ast.Assign) and len(st.targets) == 1 and isinstance(st.targets[0], ast.Name) and is_condition(st.value)):
                            continue
                        nm = st.targets[0].id
                        if len(stores.get(nm, [])) != 1 or len(loads.get(nm, [])) != 1:
                            continue
                        # the next statement that is not such a binding must be the if / while whose test reads the name
                        j = k + 1
                        while j < len(block) and isinstance(block[j], ast.Assign) and len(block[j].targets) == 1 \
                                and isinstance(block[j].targets[0], ast.Name) and is_condition(block[j].value):
                            j += 1
                        if j >= len(block) or not isinstance(block[j], (ast.If, ast.While)):
                            continue
                        use = loads[nm][0]
                        holder = None
                        for cand in [block[j]] + [b for b in block[k + 1:j]]:
                            test = cand.test if isinstance(cand, (ast.If, ast.While)) else cand.value
                            if any(y is use for y in ast.walk(test)):
                                holder = cand
                        if holder is None:
                            continue

                        class _S(ast.NodeTransformer):
                            def visit_Name(self, n_):
                                return ast.copy_location(st.value, n_) if n_ is use else n_
                        if isinstance(holder, (ast.If, ast.While)):
                            holder.test = _S().visit(holder.test)
                        else:
                            holder.value = _S().visit(holder.value)
                        block.remove(st)
                        # the inlined expression's own names keep their counts; the name itself is gone
                        loads.pop(nm, None)
                        done += 1
                        changed = True
                        break
    return done
