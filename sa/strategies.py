"""Facts about the adaptive strategies shared by C05 / C13 / C14: which classes are concrete
strategies, whether a strategy evaluates incrementally (new areas add, removed areas subtract) or
resets its accumulators before every evaluation."""
import ast

from .cfg import cfg_of, walk_local
from .loader import AnalysisError
from . import rules as R

BASE = "spatiallyAdaptiveBase.SpatiallyAdaptivBase"
INTEGRATION = "GridOperation.Integration"
EVAL_METHODS = ("evaluate_area", "calculate_operation_dimension_wise", "compute_subcell_with_interpolation", "evaluate_levelvec")


def strategies(prog):
    base = prog.cls(BASE)
    out = []
    for c in prog.all_subclasses(base, include_self=False):
        f = prog.lookup_method(c, "do_refinement")
        if f is not None and f.cls is not base:
            out.append(c)
    if len(out) < 3:
        raise AnalysisError("expected at least 3 concrete strategies below SpatiallyAdaptivBase, found %d" % len(out))
    return out


def operation_accumulators(prog):
    """self attributes of Integration that its evaluation methods augment (today: {'integral'})."""
    integ = prog.cls(INTEGRATION)
    acc = set()
    for m in EVAL_METHODS:
        fi = integ.methods.get(m)
        if fi is None:
            raise AnalysisError("anchor vanished: Integration.%s" % m)
        for s in R.self_stores(fi):
            if s.kind == "aug":
                acc.add(s.attr)
    if not acc:
        raise AnalysisError("no accumulator found in Integration's evaluation methods")
    return acc


def plain_reset_attrs(fi):
    """(self attrs plainly re-assigned on every normal path, {param: attrs} likewise) for a reset method."""
    c = cfg_of(fi)
    selfs, params = set(), {}
    for s in R.attribute_stores(fi.node):
        if s.kind != "plain" or not isinstance(s.base, ast.Name):
            continue
        n = c.node_of(s.stmt)
        if n is None or not c.post_dominates(n, c.entry):
            continue
        if s.base.id == fi.self_name:
            selfs.add(s.attr)
        elif s.base.id in fi.params:
            params.setdefault(s.base.id, set()).add(s.attr)
    return selfs, params


def reset_methods(prog, accumulators=None):
    """Names of GridOperation methods every Integration-like implementation of which plainly re-assigns all
    operation accumulators (e.g. initialize, initialize_evaluation_dimension_wise)."""
    acc = accumulators or operation_accumulators(prog)
    integ = prog.cls(INTEGRATION)
    out = {}
    for name, fi in integ.methods.items():
        if name.startswith("__"):
            continue
        selfs, params = plain_reset_attrs(fi)
        if acc <= selfs:
            out[name] = (selfs, params)
    return out


def discipline(prog, strat):
    """'reset' if the strategy's init_evaluation_operation reaches an operation method that re-assigns the
    accumulators before every evaluation, else 'incremental'.  Returns (kind, evidence string)."""
    f = prog.lookup_method(strat, "init_evaluation_operation")
    if f is None:
        raise AnalysisError("anchor vanished: init_evaluation_operation for %s" % strat.qual)
    resets = reset_methods(prog)
    c = cfg_of(f)
    for call in [n for n in walk_local(f.node) if isinstance(n, ast.Call)]:
        if isinstance(call.func, ast.Attribute) and call.func.attr in resets:
            ch = R.attr_chain(call.func.value)
            if ch == [f.self_name, "operation"]:
                n = R.cfg_node(f, call)
                if c.post_dominates(n, c.entry):
                    return "reset", "%s calls self.operation.%s on every path" % (f.qual, call.func.attr)
    return "incremental", "%s resets no accumulator" % f.qual
