"""C11 -- Romberg extrapolation grids give consistent weights.

Decided structural clauses:
 D1 exhaustive dispatch: every member of ExtrapolationVersion / SliceVersion / SliceContainerVersion is handled by its
    factory, every branch returns an instance, the final else raises
 D2 partition identities (polynomial domain): the two support-point weights of a slice add up to the slice width; one
    extrapolation step combines the finer and the coarser table entry with coefficients adding up to 1
 D3 the weight cache of GlobalRombergGrid is keyed by points AND levels; the other inputs of the cached computation are
    construction-time attributes; what is stored is what was computed for that key
 D4 tree completion only adds the missing side, at the mirror image of the existing child, iterating over the node list
    taken before any insertion
 D5 memo invalidation: weights that are computed lazily (`if self.weights is None: ...`) are reset by every method that
    replaces the grid they were computed for
 D6 object freshness: the base weight of a leaf of the balanced tree is computed from that leaf; slice containers created while
    splitting are fresh instances (no shallow copy of a container shares its mutable lists / dictionaries with another one)
Not decided: exactness to any order, equality of grouping variants (numerical)."""
import ast

from ..absint import poly_of_term, Poly
from ..cfg import cfg_of, walk_local
from ..loader import AnalysisError, src
from ..terms import Terms, terms_of, show, subterms
from .. import rules as R

EXPLANATION = ("Static analysis of Extrapolation.py and Grid.GlobalRombergGrid: enum-member / dispatcher exhaustiveness with "
               "return-on-all-paths, polynomial identities for the slice weights and the extrapolation step, cache-key coverage "
               "with init-only ownership of the remaining inputs, and complementary setter / mirror-point checks in the binary "
               "tree completion.")

EX = "Extrapolation."


def _enum_members(prog, qual):
    ci = prog.cls(qual)
    return sorted(k for k in ci.class_attrs if not k.startswith("_"))


def run(prog, ctx):
    # ------------------------------------------------------------------ D1
    disp = [(EX + "ExtrapolationVersion", EX + "ExtrapolationCoefficientsFactory.get"),
            (EX + "ExtrapolationVersion", EX + "RombergWeightFactory.get"),
            (EX + "SliceVersion", EX + "ExtrapolationGridSliceFactory.get_grid_slice"),
            (EX + "SliceContainerVersion", EX + "ExtrapolationGridSliceContainerFactory.get_grid_slice_container")]
    for (enum_q, fq) in disp:
        members = _enum_members(prog, enum_q)
        fi = prog.func(fq)
        ctx.touch(fi)
        enum_name = enum_q.split(".")[-1]
        handled = set()
        for n in ast.walk(fi.node):
            if isinstance(n, ast.Compare) and len(n.ops) == 1 and isinstance(n.ops[0], (ast.Eq, ast.Is)):
                for side in (n.left, n.comparators[0]):
                    ch = R.attr_chain(side)
                    if ch and len(ch) == 2 and ch[0] == enum_name:
                        handled.add(ch[1])
            table = None
            if isinstance(n, ast.Dict):
                table = n
            elif isinstance(n, ast.Attribute) and fi.cls is not None and isinstance(n.value, ast.Name) \
                    and n.value.id in (fi.self_name, fi.cls.name) and isinstance(fi.cls.class_attrs.get(n.attr), ast.Dict):
                table = fi.cls.class_attrs[n.attr]              # dispatch table kept as a class attribute
            elif isinstance(n, ast.Name) and isinstance(getattr(fi.module, "tree", None), ast.Module):
                for st_ in fi.module.tree.body:
                    if isinstance(st_, ast.Assign) and any(isinstance(t_, ast.Name) and t_.id == n.id for t_ in st_.targets) and isinstance(st_.value, ast.Dict):
                        table = st_.value                       # ... or as a module-level constant
            if table is not None:
                for k in table.keys:
                    ch = R.attr_chain(k) if k is not None else None
                    if ch and len(ch) == 2 and ch[0] == enum_name:
                        handled.add(ch[1])
        missing = [m for m in members if m not in handled]
        withv, bare, fall = R.return_paths(fi)
        c = cfg_of(fi)
        raises = [n for n in c.nodes if n.kind == "stmt" and isinstance(n.ast, ast.Raise) and n.idx in c.reachable()]
        ok = not missing and bool(withv) and not bare and not fall and bool(raises)
        ctx.check(ok, "C11.D1", R.key_of(fi, "exhaustive:%s" % enum_name), fi.loc(),
                  "all %d members of %s are dispatched, every branch returns, the fall-through raises" % (len(members), enum_name),
                  "%s: members %s of %s have no branch / a branch does not return an instance / the fall-through does not raise "
                  "(handled %s, value returns %d, bare %d, fall-off %d, raises %d)" % (fi.qual, missing, enum_name, sorted(handled), len(withv), len(bare), len(fall), len(raises)))
    ctx.floor("C11.D1", len(disp), 4, "enum dispatchers")

    # ------------------------------------------------------------------ D2
    for cq in (EX + "RombergGridSlice", EX + "TrapezoidalGridSlice"):
        fi = prog.func(cq + ".get_weight_for_left_and_right_support_point")
        ctx.touch(fi)
        tm = Terms(fi.node)
        rets = R.return_paths(fi)[0]
        ok = bool(rets)
        why = "no value returned"
        for r in rets:
            t = tm.term(r.ast.value)
            if not (t[0] == "tuple" and len(t) == 3):
                ok = False
                why = "does not return a (left, right) pair"
                continue
            total = poly_of_term(t[1]) + poly_of_term(t[2])
            width = Poly.atom(("a", ("n", "self"), "width"))
            if total != width:
                ok = False
                why = "left + right = %r, not the slice width" % total
        ctx.check(ok, "C11.D2", R.key_of(fi, "weights-partition-width"), fi.loc(),
                  "left weight + right weight == slice width (identically)",
                  "%s: the two support-point weights do not add up to the slice width: %s" % (cq.split(".")[-1], why))
    ex = prog.func(EX + "BalancedExtrapolationGrid.extrapolate_dicts_one_step")
    ctx.touch(ex)
    tme = Terms(ex.node)
    # role of the result table: the local that the step returns
    returned = {r.ast.value.id for r in R.return_paths(ex)[0] if isinstance(r.ast.value, ast.Name)}
    stores = [st for st in walk_local(ex.node) if isinstance(st, ast.Assign) and isinstance(st.targets[0], ast.Subscript)
              and isinstance(st.targets[0].value, ast.Name) and st.targets[0].value.id in returned]
    ctx.floor("C11.D2.step", len(stores), 2, "stores of the extrapolation step")
    left_p, top_p = ex.params[0], ex.params[1]
    top_coef = None
    for k, st in enumerate(stores):
        t = tme.term(st.value)
        keyt = tme.term(st.targets[0].slice)
        p = poly_of_term(t)
        # atoms: table entries
        la = ("s", ("n", left_p), keyt)
        ta = ("s", ("n", top_p), keyt)
        def coef_of(atom):
            out = Poly()
            for mono, v in p.terms.items():
                d = dict(mono)
                if d.get(atom) == 1:
                    rest = tuple(sorted(((a, e) for a, e in d.items() if a != atom), key=repr))
                    out = out + Poly({rest: v})
            return out
        if any(la in dict(m) for m in p.terms):
            cl, ct = coef_of(la), coef_of(ta)
            ok = (cl + ct) == Poly.const(1) and cl != Poly.const(0)
            top_coef = ct
            ctx.check(ok, "C11.D2", R.key_of(ex, "step-coefficients-sum-to-one"), ex.loc(st),
                      "finer and coarser entry are combined with coefficients adding up to 1",
                      "one extrapolation step combines the finer entry with %r and the coarser with %r, which do not add up to 1" % (cl, ct))
        else:
            # point only in the coarser dictionary: the missing finer entry is an explicit 0, same coefficient on the coarser entry
            atoms = set()
            for m in p.terms:
                atoms |= {a for a, _e in m}
            wn = None
            loops = [l for l in R.enclosing_loops(st) if isinstance(l, ast.For)]
            if loops and isinstance(loops[-1].target, ast.Tuple):
                wn = ("unpack", ("elem", ("call", ("a", ("n", top_p), "items"), (), ())), (1,))
            cand = [a for a in atoms if a == wn or (a[0] == "s" and a[1] == ("n", top_p))]
            ok = bool(cand) and top_coef is not None
            if ok:
                atom = cand[0]
                ct = Poly()
                for mono, v in p.terms.items():
                    d = dict(mono)
                    if d.get(atom) == 1:
                        rest = tuple(sorted(((a, e) for a, e in d.items() if a != atom), key=repr))
                        ct = ct + Poly({rest: v})
                ok = ct == top_coef and all(atom in dict(m) for m in p.terms)
            ctx.check(ok, "C11.D2", R.key_of(ex, "step-missing-finer-entry"), ex.loc(st),
                      "a point missing in the finer table contributes 0 * (1 - c) + c * coarser entry",
                      "for points that exist only in the coarser table the step does not apply the same coefficient to the coarser entry "
                      "(with 0 for the missing finer entry): `%s`" % src(st))
    # the coefficient is -1 / (4**k - 1)
    okc = False
    # role of the coefficient: the local whose definition is a quotient with a power of 4 in it
    for b in [b for bs in tme.env.bindings.values() for b in bs]:
        if b.kind == "assign" and b.value is not None and any(isinstance(y, ast.Pow) for y in ast.walk(b.value)):
            t = tme.term(b.value)
            kk = ("n", ex.params[2])
            okc = okc or t == ("op", "Div", (("c", "-1"), ("op", "Sub", (("op", "Pow", (("c", "4"), kk)), ("c", "1")))))
    ctx.check(okc, "C11.D2", R.key_of(ex, "romberg-coefficient"), ex.loc(), "a_k = -1 / (4**k - 1)",
              "the extrapolation coefficient is no longer -1 / (4 ** k - 1)")

    # ------------------------------------------------------------------ D3
    cw = prog.func("Grid.GlobalRombergGrid.compute_1D_quad_weights")
    ctx.touch(cw)
    tmc = Terms(cw.node)
    c = cfg_of(cw)
    pts, lv = cw.params[1], cw.params[5]
    keyt = None
    # role of the key: the subscript of the cache accesses
    key_names = {n.slice.id for n in ast.walk(cw.node) if isinstance(n, ast.Subscript) and R.self_attr(n.value, "self") == "weight_cache"
                 and isinstance(n.slice, ast.Name)}
    KEY = sorted(key_names)[0] if len(key_names) == 1 else None
    for b in Terms(cw.node, max_depth=0).env.bindings.get(KEY, []):
        if b.kind == "assign":
            keyt = tmc.term(b.value)
    covers = keyt is not None and any(x == ("n", pts) for x in subterms(keyt)) and any(x == ("n", lv) for x in subterms(keyt))
    ctx.check(covers, "C11.D3", R.key_of(cw, "key-covers-points-and-levels"), cw.loc(),
              "the cache key is built from the points and the levels",
              "the weight cache key %s does not cover both the points `%s` and the levels `%s`: grids with the same points but different "
              "level assignments share one cache entry" % (show(keyt) if keyt else None, pts, lv))
    tm0 = Terms(cw.node, max_depth=0)
    lookups, stores_ = [], []
    for n in ast.walk(cw.node):
        if isinstance(n, ast.Subscript) and R.self_attr(n.value, "self") == "weight_cache":
            (stores_ if isinstance(n.ctx, ast.Store) else lookups).append(n)
    samekey = KEY is not None and all(tm0.term(n.slice) == ("n", KEY) for n in lookups + stores_) and bool(lookups) and bool(stores_)
    val_ok = False
    for st in walk_local(cw.node):
        if isinstance(st, ast.Assign) and st.targets[0] in stores_:
            v = tm0.term(st.value)
            rets = [tm0.term(r.ast.value) for r in R.return_paths(cw)[0]]
            val_ok = v in rets and v[0] == "n"
            b = R.reaching_unique_def(cw, v[1], st.value) if v[0] == "n" else None
            val_ok = val_ok and b is not None and c.dominates(c.node_of(b.stmt), c.node_of(st))
            if not val_ok:
                # store-then-return-the-entry form:  cache[K] = <weights of this call>;  ...;  return cache[K]
                entry = ("s", ("a", ("n", "self"), "weight_cache"), ("n", KEY)) if KEY is not None else None
                sn_ = c.node_of(st)
                after = [r for r in R.return_paths(cw)[0] if tm0.term(r.ast.value) == entry and sn_ is not None and r.idx in c.reachable_after(sn_)]
                computed = v[0] != "c" and v != entry and not any(x[0] == "a" and x[2] == "weight_cache" for x in subterms(v))
                val_ok = bool(after) and computed
    ctx.check(samekey and val_ok, "C11.D3", R.key_of(cw, "store-and-lookup-same-key"), cw.loc(),
              "the value computed in this call is stored and looked up under the same key",
              "the weight cache is not read and written under the same key / does not store the weights computed in this call")
    # other inputs of the cached computation are init-only attributes
    used = set()
    for n in ast.walk(cw.node):
        a = R.self_attr(n, "self")
        if a is not None and isinstance(n.ctx, ast.Load) and a not in ("weight_cache", "do_cache"):
            used.add(a)
    gr = prog.cls("Grid.GlobalRombergGrid")
    for a in sorted(used):
        writers = [fi.qual for fi in prog.functions.values() for s in R.attribute_stores(fi.node)
                   if s.attr == a and fi.name != "__init__" and
                   not (isinstance(s.base, ast.Name) and s.base.id == fi.self_name and fi.cls is not None and gr not in fi.cls.mro)]
        ctx.check(not writers, "C11.D3", "Grid.GlobalRombergGrid::init-only:%s" % a, gr.methods["__init__"].loc(),
                  "%s (an input of the cached weights) is fixed at construction" % a,
                  "%s influences the cached weights but is re-assigned by %s and is not part of the cache key" % (a, writers))
    ctx.floor("C11.D3", len(used), 3, "construction-time inputs of the cached computation")
    # the remaining parameters a, b, d do not influence the computation
    other_params = [p for p in cw.params[2:5]]
    infl = [p for p in other_params if any(isinstance(n, ast.Name) and n.id == p and isinstance(n.ctx, ast.Load) for n in ast.walk(cw.node))]
    ctx.check(not infl, "C11.D3", R.key_of(cw, "no-uncovered-parameter"), cw.loc(),
              "no parameter outside the key influences the cached weights",
              "parameters %s influence the cached weights but are not part of the cache key" % infl)

    # the cached weights also depend on the instance's slice / container settings (init-only attributes, not part of the key): the
    # table therefore belongs to the instance -- created in a constructor, never a class-level (shared) dictionary
    gr_ = prog.cls("Grid.GlobalRombergGrid")
    shared = [c_ for c_ in gr_.mro if "weight_cache" in c_.class_attrs]
    made = [f_ for c_ in gr_.mro for f_ in c_.methods.values() if f_.name == "__init__"
            and any(s_.attr == "weight_cache" and s_.kind == "plain" for s_ in R.self_stores(f_))]
    ctx.check(not shared and bool(made), "C11.D3", "Grid.GlobalRombergGrid::cache-per-instance", gr_.methods["__init__"].loc() if "__init__" in gr_.methods else cw.loc(),
              "the weight cache is created per instance in the constructor",
              "the weight cache of GlobalRombergGrid is %s: grids with different slice grouping / slice version / container version share cached "
              "weights, although these settings are not part of the key" % ("a class attribute of %s" % shared[0].name if shared else "not created in a constructor"))

    # ------------------------------------------------------------------ D5 / D6
    check_memo_invalidation(prog, ctx)
    check_freshness(prog, ctx)
    check_normalised_levels_from_structure(prog, ctx)
    check_leaves_are_kept(prog, ctx)

    # ------------------------------------------------------------------ D4
    ft = None
    for q, fi in prog.functions.items():
        if q.endswith("__GridBinaryTree.force_full_tree_invariant"):
            ft = fi
    if ft is None:
        raise AnalysisError("anchor vanished: GridBinaryTree.__GridBinaryTree.force_full_tree_invariant")
    ctx.touch(ft)
    tmf = Terms(ft.node, max_depth=0)
    cf = cfg_of(ft)
    setters = [x for x in R.calls_in(ft.node) if isinstance(x.func, ast.Attribute) and x.func.attr in ("set_left_child", "set_right_child")]
    ctx.floor("C11.D4", len(setters), 2, "child setters in the tree completion")
    for x in setters:
        side = "left" if x.func.attr == "set_left_child" else "right"
        other = "right" if side == "left" else "left"
        node_t = tmf.term(x.func.value)
        guards = [g for (g, gn) in R.dominating_guards(ft, R.cfg_node(ft, x), tmf) if gn.kind == "test"]
        has_other = ("call", ("a", node_t, "has_%s_child" % other), (), ())
        only_one = ("call", ("a", node_t, "has_only_one_child"), (), ())
        okg = has_other in guards and only_one in guards
        # the new point is the mirror image 2 * p - existing child
        arg = x.args[0] if x.args else None
        pt = None
        if arg is not None:
            # look through temporaries: the argument is Node(<point>) after copy propagation of single-definition locals
            ta = R.resolve_locals(ft, tmf.term(arg), R.cfg_node(ft, x), tmf)
            if ta[0] == "call" and len(ta[2]) >= 1:
                pt = ta[2][0]
        okp = False
        if pt is not None:
            p_atom = Poly.atom(("a", node_t, "point"))
            child = Poly.atom(("a", ("a", node_t, "%s_child" % other), "point"))
            okp = poly_of_term(pt) == p_atom * Poly.const(2) - child
        ctx.check(okg and okp, "C11.D4", R.key_of(ft, "adds-missing-%s-child" % side), ft.loc(x),
                  "a %s child is added only when only the %s child exists, at the mirror image 2*p - child" % (side, other),
                  "tree completion: `%s` is %s and the new point %s" % (src(x), "correctly guarded" if okg else "not guarded by has_only_one_child() and has_%s_child()" % other,
                                                                        "is the mirror image" if okp else "is not 2 * node.point - node.%s_child.point" % other))
    loops = [l for l in walk_local(ft.node) if isinstance(l, ast.For)]
    okl = False
    for l in loops:
        if isinstance(l.iter, ast.Name):
            b = R.reaching_unique_def(ft, l.iter.id, l.iter)
            if b is not None and b.kind == "assign" and not any(lp is l for lp in R.enclosing_loops(b.stmt)):
                okl = True
    ctx.check(okl, "C11.D4", R.key_of(ft, "iterates-snapshot"), ft.loc(),
              "the loop runs over the node list taken before any insertion",
              "force_full_tree_invariant iterates a node sequence that is not a snapshot taken before the loop: inserted children are visited too")


def check_memo_invalidation(prog, ctx):
    eg = prog.cls(EX + "ExtrapolationGrid")
    # lazily computed attributes: tested `is None` and recomputed under that test
    memos = set()
    for fi in eg.methods.values():
        tm = Terms(fi.node, max_depth=0)
        c = cfg_of(fi)
        for n in c.nodes:
            if n.kind == "test":
                t = tm.term(n.ast)
                if t[0] == "cmp" and t[1] == "Is" and t[3] == ("c", "None") and t[2][0] == "a" and t[2][1] == ("n", fi.self_name):
                    attr = t[2][2]
                    # something under the True edge stores it (directly or through a method of the class that stores it)
                    for m in c.nodes:
                        if m.kind == "stmt" and m.ast is not None and c.edge_dominates(n, True, m):
                            stores = [s for s in R.attribute_stores(m.ast) if s.attr == attr] if isinstance(m.ast, ast.stmt) else []
                            calls = [x for x in ast.walk(m.ast) if isinstance(x, ast.Call) and isinstance(x.func, ast.Attribute)
                                     and isinstance(x.func.value, ast.Name) and x.func.value.id == fi.self_name]
                            if stores or any(any(s2.attr == attr for s2 in R.self_stores(eg.methods[x.func.attr])) for x in calls if x.func.attr in eg.methods):
                                memos.add(attr)
    # the same idiom with a widened test (`if self.X is None or <other reason to recompute>:`): the body of an `if` whose test contains the
    # `is None` comparison stores the attribute
    for fi in eg.methods.values():
        for iff in [x for x in walk_local(fi.node) if isinstance(x, ast.If)]:
            for cmp_ in [y for y in ast.walk(iff.test) if isinstance(y, ast.Compare) and len(y.ops) == 1 and isinstance(y.ops[0], ast.Is)
                         and isinstance(y.comparators[0], ast.Constant) and y.comparators[0].value is None]:
                attr = R.self_attr(cmp_.left, fi.self_name)
                if attr is None:
                    continue
                for st in iff.body:
                    stores = [s_ for s_ in R.attribute_stores(st) if s_.attr == attr] if isinstance(st, ast.stmt) else []
                    calls = [x for x in ast.walk(st) if isinstance(x, ast.Call) and isinstance(x.func, ast.Attribute)
                             and isinstance(x.func.value, ast.Name) and x.func.value.id == fi.self_name]
                    if stores or any(any(s2.attr == attr for s2 in R.self_stores(eg.methods[x.func.attr])) for x in calls if x.func.attr in eg.methods):
                        memos.add(attr)
    ctx.floor("C11.D5", len(memos), 1, "lazily computed attributes of ExtrapolationGrid")
    for attr in sorted(memos):
        for name, fi in sorted(eg.methods.items()):
            if name == "__init__":
                continue
            grid_stores = [s for s in R.self_stores(fi, "grid") if s.kind == "plain"]
            if not grid_stores:
                continue
            ctx.touch(fi)
            c = cfg_of(fi)
            resets = [c.node_of(s.stmt) for s in R.self_stores(fi, attr) if s.kind == "plain" and isinstance(s.value, ast.Constant) and s.value.value is None]
            recomputes = [R.cfg_node(fi, x) for x in R.calls_in(fi.node) if isinstance(x.func, ast.Attribute) and x.func.attr in eg.methods
                          and isinstance(x.func.value, ast.Name) and x.func.value.id == fi.self_name
                          and any(s2.attr == attr for s2 in R.self_stores(eg.methods[x.func.attr]))]
            ok = any(c.post_dominates(n, c.entry) for n in resets + recomputes)
            ctx.check(ok, "C11.D5", R.key_of(fi, "invalidates:%s" % attr), fi.loc(grid_stores[0].stmt),
                      "replacing the grid resets the lazily computed self.%s on every path" % attr,
                      "%s replaces self.grid but does not reset the lazily computed self.%s: weights computed for the previous grid are "
                      "reused for the new one" % (fi.qual, attr))


def check_freshness(prog, ctx):
    bw = prog.func(EX + "BalancedExtrapolationGrid.get_weights")
    ctx.touch(bw)
    tm = Terms(bw.node, max_depth=0)
    n = 0
    # role of the base-weight table: a local created as an (default)dict in get_weights
    fresh = {st.targets[0].id for st in walk_local(bw.node) if isinstance(st, ast.Assign) and len(st.targets) == 1 and isinstance(st.targets[0], ast.Name)
             and ((isinstance(st.value, ast.Dict) and not st.value.keys) or (isinstance(st.value, ast.Call) and isinstance(st.value.func, ast.Name)
                                                                           and st.value.func.id in ("dict", "defaultdict", "OrderedDict")))}
    for st in walk_local(bw.node):
        if isinstance(st, ast.Assign) and isinstance(st.targets[0], ast.Subscript) and isinstance(st.targets[0].value, ast.Name) \
                and st.targets[0].value.id in fresh:
            loops = [l for l in R.enclosing_loops(st) if isinstance(l, ast.For) and isinstance(l.target, ast.Name)]
            if not loops:
                continue
            n += 1
            leaf = loops[-1].target.id
            k = tm.term(st.targets[0].slice)
            v = R.resolve_locals(bw, tm.term(st.value), cfg_of(bw).node_of(st), tm)
            ok = any(x == ("n", leaf) for x in subterms(k)) and any(x == ("n", leaf) for x in subterms(v))
            ctx.check(ok, "C11.D6", R.key_of(bw, "leaf-own-step-width"), bw.loc(st),
                      "the base weight stored for a leaf is computed from that leaf",
                      "`%s`: the base weight of a leaf does not depend on the leaf itself (on an unbalanced / partially refined tree leaves of "
                      "one extrapolation level have different step widths)" % src(st))
    # the table filled at construction: dict / defaultdict(factory, <(key, value) for leaf in leaves>) or a dict comprehension
    for st in [x for x in walk_local(bw.node) if isinstance(x, (ast.DictComp, ast.Call))]:
        v_ = st
        gens = []
        if isinstance(v_, ast.DictComp) and len(v_.generators) == 1:
            gens.append((v_.generators[0], v_.key, v_.value))
        elif isinstance(v_, ast.Call) and isinstance(v_.func, ast.Name) and v_.func.id in ("dict", "defaultdict", "OrderedDict"):
            for a_ in v_.args:
                if isinstance(a_, (ast.GeneratorExp, ast.ListComp)) and len(a_.generators) == 1 and isinstance(a_.elt, ast.Tuple) and len(a_.elt.elts) == 2:
                    gens.append((a_.generators[0], a_.elt.elts[0], a_.elt.elts[1]))
        for (g_, k_, val_) in gens:
            if not isinstance(g_.target, ast.Name):
                continue
            n += 1
            leaf = g_.target.id
            ok = any(isinstance(x, ast.Name) and x.id == leaf for x in ast.walk(k_)) and any(isinstance(x, ast.Name) and x.id == leaf for x in ast.walk(val_))
            ctx.check(ok, "C11.D6", R.key_of(bw, "leaf-own-step-width"), bw.loc(st),
                      "the base weight stored for a leaf is computed from that leaf",
                      "`%s`: the base weight of a leaf does not depend on the leaf itself (on an unbalanced / partially refined tree leaves of "
                      "one extrapolation level have different step widths)" % src(st)[:100])
    ctx.floor("C11.D6", n, 1, "base-weight stores of the balanced grid")
    # shallow copies of objects that own mutable containers
    hits = []
    for q, fi in prog.functions.items():
        if fi.module.name != "Extrapolation" or fi.cls is None:
            continue
        for x in R.calls_in(fi.node):
            f = x.func
            is_copy = (isinstance(f, ast.Attribute) and f.attr == "copy" and isinstance(f.value, ast.Name) and f.value.id == "copy") or \
                      (isinstance(f, ast.Name) and f.id == "copy")
            if is_copy and x.args and isinstance(x.args[0], ast.Name) and x.args[0].id == fi.self_name:
                hits.append((fi, x))
    for (fi, x) in hits:
        ctx.violation("C11.D6", R.key_of(fi, "shallow-copy-of-self"), fi.loc(x),
                      "`%s` creates a new object that shares every list / dictionary attribute with this one (shallow copy): weights and "
                      "slices recorded in one container show up in the other" % src(x))
    if not hits:
        ctx.ok("C11.D6", "Extrapolation::no-shallow-self-copies", "sparseSpACE/Extrapolation.py", "no object is created as a shallow copy of another one")


def check_normalised_levels_from_structure(prog, ctx):
    """C11.D7: the container-local ("normalised") levels of a container with more than one slice are those of the complete 2^k-slice
    grid the container is extrapolated as: they follow from the NUMBER of its points alone (bisection of the index range).  The tree
    levels of the global grid (get_grid_levels) must not enter: in an adaptive grid the inner points of a container come from different
    subtrees, shifting their levels gives a level pattern no complete grid has, and the container's Romberg weights no longer sum to its
    width."""
    fi = prog.func(EX + "ExtrapolationGridSliceContainer.get_normalized_grid_levels")
    ctx.touch(fi)
    tm = Terms(fi.node, max_depth=0)
    c = cfg_of(fi)
    rets = [n for n in c.nodes if n.kind == "stmt" and isinstance(n.ast, ast.Return) and n.ast.value is not None and n.idx in c.reachable()]
    n = 0
    for rn in rets:
        facts = [g for (g, gn) in R.dominating_guards(fi, rn, tm) if gn.kind == "test"]
        unit = any(g[0] == "cmp" and g[1] == "Eq" and ("c", "2") in (g[2], g[3]) for g in facts)
        if unit:
            continue                       # a single slice: its two end points keep their levels
        n += 1
        t = R.resolve_locals(fi, tm.term(rn.ast.value), rn, tm)
        uses = [x for x in subterms(t) if isinstance(x, tuple) and x and x[0] == "call" and isinstance(x[1], tuple) and x[1][0] == "a"
                and x[1][2] in ("get_grid_levels", "get_levels")]
        ctx.check(not uses, "C11.D7", R.key_of(fi, "normalised-levels-from-structure#%d" % n), fi.loc(rn.ast),
                  "the normalised levels of a multi-slice container are computed from the number of its points only",
                  "`%s`: the normalised levels of a container with several slices are derived from the tree levels of the global grid "
                  "(get_grid_levels) instead of from the container's own index structure" % src(rn.ast)[:100])
    ctx.floor("C11.D7", n, 1, "multi-slice return paths of get_normalized_grid_levels")


def check_leaves_are_kept(prog, ctx):
    """C11.D8: the balanced extrapolation collects, for every level, the leaves above that level together with the nodes on it
    (`get_leafs_or_max_level_nodes`).  The recursive collection may descend into the children of a node only when the node is known
    not to be a leaf: every path to a recursive call carries the fact `not node.is_leaf()`.  Otherwise a leaf above the level limit
    (an adaptive, not complete tree) is replaced by its non-existent children, drops out of the level's rule, and the weights no longer
    sum to the interval length."""
    gn = prog.cls(EX + "GridNode")
    cand = [f for name, f in gn.methods.items() if "get_leafs_or_max_level_nodes" in name and len(f.params) >= 2
            and any(isinstance(x, ast.Call) and isinstance(x.func, ast.Attribute) and x.func.attr.endswith(name.lstrip("_")) for x in ast.walk(f.node))]
    n = 0
    for fi in cand:
        node_p = fi.params[1]
        tm = Terms(fi.node, max_depth=0)
        c = cfg_of(fi)
        leaf = ("call", ("a", ("n", node_p), "is_leaf"), (), ())
        rec = [x for x in ast.walk(fi.node) if isinstance(x, ast.Call) and isinstance(x.func, ast.Attribute) and x.func.attr == fi.name
               or (isinstance(x, ast.Call) and isinstance(x.func, ast.Attribute) and fi.name.endswith(x.func.attr) and x.func.attr.startswith("__"))]
        for k, call in enumerate(rec):
            cn = c.node_containing(call)
            if cn is None:
                continue
            n += 1
            ctx.touch(fi)
            facts = [g for (g, gn_) in R.dominating_guards(fi, cn, tm) if gn_.kind == "test"]
            ok = ("not", leaf) in facts
            ctx.check(ok, "C11.D8", R.key_of(fi, "descend-only-below-inner-nodes#%d" % k), fi.loc(call),
                      "the recursion descends into the children only of a node that is not a leaf",
                      "`%s` is reached on a path that has not established `not %s.is_leaf()`: a leaf above the level limit is replaced by its "
                      "(missing) children and drops out of the rule of that level" % (src(call)[:80], node_p))
    ctx.floor("C11.D8", n, 1, "recursive descents of get_leafs_or_max_level_nodes")
