"""C17 -- density-estimation caching and size-dependent code paths are transparent.

Decided structural clauses (nothing else is claimed):
 D1 the matrix-entry cache holds the lambda-free value of the very pair it is keyed by, and a hit is used exactly like a
    freshly computed value
 D2 a right-hand-side entry is copied from the previous step only if both its point and its support domain match, and the
    entry copied is the one the domain match found for that same point; the old support domains and the old points are those
    of the stored mesh of the same key as the copied right-hand side
 D3 the hand-over of the caches between iterations replaces old by new (nothing of an older step survives)
 D4 the hat implementations behind the small-grid and large-grid paths count the centre of a hat exactly once (sa/hats.py)
 D5 per-dimension caches (data bins) are distinct objects per dimension (no list multiplication of a mutable)
 D6 the per-dimension index ranges of the samples inside a support (data bins) contain both of their ends when they are sliced
Not decided: equality of results with reuse on/off over histories, small-grid vs large-grid equality as values."""
import ast

from ..cfg import cfg_of, walk_local
from ..loader import AnalysisError, src
from ..terms import Terms, terms_of, show, subterms, norm_cmp
from .. import rules as R

EXPLANATION = ("Static analysis of the reuse branches of GridOperation.DensityEstimation: dominance and value-term checks of what "
               "is stored into / read from the matrix-entry cache relative to the lambda addition, guard-set and index checks of "
               "the copy of right-hand-side entries, and the hand-over assignments between iterations.")

DE = "GridOperation.DensityEstimation"


def check_matrix_cache(prog, ctx, rule):
    bd = prog.func(DE + ".build_R_matrix_dimension_wise")
    ctx.touch(bd)
    tm = Terms(bd.node, max_depth=0)
    c = cfg_of(bd)
    lam = ("a", ("n", "self"), "lambd")

    # ------------------------------------------------------------------ D1
    cache_stores = [s for s in R.self_stores(bd, "old_R") if s.kind == "elem"]
    cache_reads = [n for n in ast.walk(bd.node) if isinstance(n, ast.Subscript) and isinstance(n.ctx, ast.Load) and R.self_attr(n.value, "self") == "old_R"]
    ctx.floor(rule, len(cache_stores) + len(cache_reads), 2, "stores into / reads from the matrix-entry cache")
    for k, s in enumerate(cache_stores):
        sn = c.node_of(s.stmt)
        keyt = R.resolve_locals(bd, tm.term(s.stmt.targets[0].slice), sn, tm)
        valn = s.value
        vt = tm.term(valn)
        problems = []
        # key: computed from the (i, j) pair of the enclosing loops
        loops = [l for l in sn.loops if isinstance(l, ast.For) and isinstance(l.target, ast.Name)]
        ij = [l.target.id for l in loops][-2:]
        kcall = [x for x in subterms(keyt) if x[0] == "call" and x[1][0] == "a" and x[1][2] == "get_domain_overlap_width"]
        if not kcall:
            problems.append("the key %s is not the domain overlap of the pair" % show(keyt))
        else:
            kargs = kcall[0][2]
            pts = [a for a in kargs if a[0] == "s" and a[2][0] == "n"]
            if list(dict.fromkeys(a[2][1] for a in pts)) != ij:
                problems.append("the key is computed for points %s, the loops run over %s" % ([show(a) for a in pts], ij))
        # value: every definition reaching the store is computed from the same pair and contains no lambda
        if isinstance(valn, ast.Name):
            defs = [b for b in tm.env.bindings.get(valn.id, []) if b.kind == "assign" and any(l in sn.loops for l in R.enclosing_loops(b.stmt))
                    and c.dominates(c.node_of(b.stmt), sn) or (b.kind == "assign" and c.node_of(b.stmt) is not None and
                                                              sn.idx in c.reachable_after(c.node_of(b.stmt), blocked=[c.node_of(loops[-1])]) and c.in_loop(c.node_of(b.stmt), loops[-1]))]
            seen = False
            for b in defs:
                t = tm.term(b.value)
                if t == ("n", valn.id):
                    continue
                if t[0] == "s" and t[1] == ("a", ("n", "self"), "old_R"):
                    continue        # the hit branch (not on a path to the store)
                seen = True
                if any(x == lam for x in subterms(t)):
                    problems.append("the cached value `%s` already contains lambda" % src(b.stmt)[:70])
                idxs = [x[2][1] for x in subterms(t) if x[0] == "s" and x[1] == ("n", "points") and x[2][0] == "n"]
                if idxs and not (set(idxs) == set(ij) and idxs[0] == ij[0]):
                    problems.append("the cached value is computed for points %s, the key for %s" % (idxs[:2], ij))
            if not seen:
                problems.append("no computation of the cached value reaches the store")
        else:
            if any(x == lam for x in subterms(vt)):
                problems.append("the cached value contains lambda")
            # a matrix entry is cached: no statement that adds lambda to that entry may precede the store within the iteration
            for n in c.nodes:
                if n.kind == "stmt" and isinstance(n.ast, (ast.AugAssign, ast.Assign)) and loops and c.in_loop(n, loops[-1]) \
                        and any(R.self_attr(x, "self") == "lambd" for x in ast.walk(n.ast.value)):
                    tg = n.ast.target if isinstance(n.ast, ast.AugAssign) else n.ast.targets[0]
                    tt = tm.term(tg)
                    mirror = ("s", ("s", vt[1][1], vt[2]), vt[1][2]) if vt[0] == "s" and vt[1][0] == "s" else None
                    if (tt == vt or tt == mirror or (vt[0] == "s" and vt[1][0] == "s" and tt[0] == "s" and tt[1][0] == "s" and tt[1][1] == vt[1][1])) \
                            and sn.idx in c.reachable_after(n, blocked=[c.node_of(loops[-1])]):
                        problems.append("`%s` adds lambda to the matrix entry before `%s` caches it (cached diagonal values contain lambda and "
                                        "receive it again on every hit)" % (src(n.ast), src(s.stmt)))
            if not (vt[0] == "s"):
                pass
        # lambda is added to the matrix only after the cache store (never to the cached object)
        for n in c.nodes:
            if n.kind == "stmt" and n.ast is not None and any(R.self_attr(x, "self") == "lambd" for x in ast.walk(n.ast)) and loops and c.in_loop(n, loops[-1]):
                if isinstance(n.ast, ast.AugAssign) and isinstance(n.ast.target, ast.Name) and isinstance(valn, ast.Name) and n.ast.target.id == valn.id \
                        and sn.idx in c.reachable_after(n, blocked=[c.node_of(loops[-1])]):
                    problems.append("lambda is added to `%s` before it is cached" % valn.id)
        ctx.check(not problems, rule, R.key_of(bd, "cache-store#%d" % k), bd.loc(s.stmt),
                  "the cache stores the lambda-free entry of the pair it is keyed by",
                  "matrix-entry cache: " + "; ".join(problems))
    # a hit is used like a fresh value: the hit assigns the same local that the matrix stores read, under key membership
    for k, rd in enumerate(cache_reads):
        par = getattr(rd, "_parent", None)
        rn = c.node_containing(rd)
        keyt = tm.term(rd.slice)
        ok = isinstance(par, ast.Assign) and isinstance(par.targets[0], ast.Name)
        why = "the cached value is not bound to the local the matrix is filled from"
        if ok:
            local = par.targets[0].id
            guards = [g for (g, gn) in R.dominating_guards(bd, rn, tm) if gn.kind == "test"]
            member = norm_cmp("In", keyt, ("a", ("n", "self"), "old_R"))
            ok = member in guards
            why = "the cache is read without the membership test of the same key"
            if ok:
                keys_store = {tm.term(s.stmt.targets[0].slice) for s in cache_stores}
                ok = keys_store == {keyt}
                why = "the cache is read under %s but written under %s" % (show(keyt), [show(x) for x in keys_store])
            if ok:
                loops = [l for l in rn.loops if isinstance(l, ast.For)]
                fills = [n for n in c.nodes if n.kind == "stmt" and isinstance(n.ast, ast.Assign) and isinstance(n.ast.targets[0], ast.Subscript)
                         and R._index_pair(n.ast.targets[0], tm) is not None and loops and c.in_loop(n, loops[-1])
                         and tm.term(n.ast.value) == ("n", local)]
                ok = len(fills) >= 2 and all(rn.idx not in c.reachable_after(f, blocked=[c.node_of(loops[-1])]) for f in fills) and \
                    all(f.idx in c.reachable_after(rn, blocked=[c.node_of(loops[-1])]) for f in fills)
                why = "a cache hit does not flow into the same matrix stores as a fresh value"
        ctx.check(ok, rule, R.key_of(bd, "cache-hit#%d" % k), bd.loc(rd),
                  "a hit is read under the membership test of the same key and fills the same matrix entries as a fresh value",
                  "matrix-entry cache: " + why)
        # the regulariser treats hits and misses alike: every statement of the iteration that involves lambda is reachable from the hit
        # (the cached value is lambda-free, see above, so a lambda applied on the miss path only is missing on every hit)
        loops_r = [l for l in rn.loops if isinstance(l, ast.For)] if rn is not None else []
        if loops_r:
            head = c.node_of(loops_r[-1])
            lam_nodes = [n for n in c.nodes if n.kind == "stmt" and n.ast is not None and c.in_loop(n, loops_r[-1])
                         and any(R.self_attr(x, "self") == "lambd" for x in ast.walk(n.ast))]
            missing = [n for n in lam_nodes if n.idx not in c.reachable_after(rn, blocked=[head])]
            ctx.check(not missing, rule, R.key_of(bd, "hit-regularised-like-miss#%d" % k), bd.loc(rd),
                      "every use of lambda in the iteration (%d) is reached after a cache hit as well as after a miss" % len(lam_nodes),
                      "matrix-entry cache: `%s` is executed for freshly computed entries only; a diagonal entry taken from the cache never "
                      "receives lambda" % (src(missing[0].ast)[:70] if missing else ""))



def check_pair_arguments(prog, ctx, rule):
    """Every routine that works on a pair of hats -- the numeric and the analytic scalar product and the overlap key of the cache -- is
    called as f(points[a], D(a), points[b], D(b)): the support handed in for the second hat is the support expression of the first with
    the index of the second (`domains[j]` next to `domains[i]`, `list(zip(lower[j], upper[j]))` next to `list(zip(lower[i], upper[i]))`)."""
    bd = prog.func(DE + ".build_R_matrix_dimension_wise")
    tm = Terms(bd.node, max_depth=0)
    c = cfg_of(bd)
    n = 0
    bad = []

    def subst(t, a, b):
        if t == a:
            return b
        if isinstance(t, tuple):
            return tuple(subst(x, a, b) for x in t)
        return t

    def uncopy(t):
        """list(list(X)) / tuple(list(X)) -> list(X): a shallow copy of a freshly built list is that list for this rule"""
        while isinstance(t, tuple) and len(t) == 3 and t[0] == "copy" and isinstance(t[2], tuple) and len(t[2]) == 3 and t[2][0] == "copy":
            t = t[2]
        return t
    for call in [x for x in ast.walk(bd.node) if isinstance(x, ast.Call)]:          # local helper functions of the builder included
        f_ = call.func
        if not (isinstance(f_, ast.Attribute) and f_.attr in ("calculate_L2_scalarproduct", "calculate_R_value_analytically", "get_domain_overlap_width")
                and len(call.args) == 4):
            continue
        cn = c.node_containing(call)
        if cn is not None and cn.ast is not None:
            a0, a1, a2, a3 = [R.resolve_locals(bd, tm.term(x), cn, tm) for x in call.args]
        else:                                   # a call inside a nested helper: raw terms
            a0, a1, a2, a3 = [tm.term(x) for x in call.args]
        if not (a0[0] == "s" and a2[0] == "s" and a0[1] == a2[1]):
            continue
        a1, a3 = uncopy(a1), uncopy(a3)
        n += 1
        ia, ib = a0[2], a2[2]
        if subst(a1, ia, ib) != a3 or (ia != ib and a1 == a3):
            bad.append(call)
    ctx.check(not bad, rule, R.key_of(bd, "pair-arguments"), bd.loc(bad[0]) if bad else bd.loc(),
              "all %d pair routines receive the support of the very hat they receive the point of" % n,
              "`%s`: the support passed for the second hat is not the support of that hat (it does not follow the index of the second point)"
              % (src(bad[0])[:110] if bad else ""))
    return n


def run(prog, ctx):
    check_matrix_cache(prog, ctx, "C17.D1")
    ctx.floor("C17.D1.pairs", check_pair_arguments(prog, ctx, "C17.D1"), 3, "pair routines (scalar products, overlap key) in build_R_matrix_dimension_wise")
    bd = prog.func(DE + ".build_R_matrix_dimension_wise")
    tm = Terms(bd.node, max_depth=0)
    c = cfg_of(bd)

    # ------------------------------------------------------------------ D2
    n2 = 0
    for fq in (DE + ".calculate_B", DE + ".calculate_B_dimension_wise"):
        fi = prog.func(fq)
        ctx.touch(fi)
        tmf = Terms(fi.node, max_depth=0)
        cf = cfg_of(fi)
        # roles (not names): OB the local bound to self.old_B[K]; a copy site is  b[p] = OB[DM[p]]
        old_b_defs = {}
        list_roles = set()
        for nm, bs in tmf.env.bindings.items():
            for b in bs:
                if b.kind == "assign" and b.value is not None:
                    t = tmf.term(b.value)
                    if t[0] == "s" and t[1] == ("a", ("n", fi.self_name), "old_B"):
                        old_b_defs[nm] = t[2]
        for n in cf.nodes:
            if n.kind == "stmt" and isinstance(n.ast, ast.Assign) and isinstance(n.ast.targets[0], ast.Subscript) and n.idx in cf.reachable():
                v = tmf.term(n.ast.value)
                if not (v[0] == "s" and v[1][0] == "n" and v[1][1] in old_b_defs):
                    continue
                n2 += 1
                OBK = old_b_defs[v[1][1]]
                p = tmf.term(n.ast.targets[0].slice)
                guards = [R.positional_subst(fi, g, tmf) for (g, gn) in R.dominating_guards(fi, n, tmf)
                          if gn.kind == "test" and n.loops and cf.in_loop(gn, n.loops[-1])]        # `for p, x in enumerate(PL)`: x is PL[p]
                # membership guard  PL[p] in OPL  fixes the roles of the new and the old point list
                mem = [g for g in guards if g[0] == "cmp" and g[1] == "In" and g[2][0] == "s" and g[2][2] == p and g[2][1][0] == "n" and g[3][0] == "n"]
                in_old = bool(mem)
                PL, OPL = (mem[0][2][1][1], mem[0][3][1]) if mem else (None, None)
                if PL is not None:
                    list_roles.add((PL, OPL, OBK))
                DM = v[2][1] if v[2][0] == "s" and v[2][2] == p and v[2][1][0] == "n" else None
                dm = ("s", DM, p) if DM is not None else None
                matched = dm is not None and (any(g[0] == "cmp" and g[1] == "NotEq" and dm in (g[2], g[3]) and ("c", "-1") in (g[2], g[3]) for g in guards) or
                                              any(g[0] == "cmp" and g[1] in ("LtE",) and g[2] == ("c", "0") and g[3] == dm for g in guards))
                idx_ok = dm is not None and v[2] == dm
                ctx.check(in_old and matched and idx_ok, "C17.D2", R.key_of(fi, "copy-guard#%d" % n2), fi.loc(n.ast),
                          "an old entry is copied only for a point of the old grid whose support domain matched, from the matched position",
                          "`%s` copies a right-hand-side entry %s%s%s" % (src(n.ast), "" if in_old else "without testing that the point existed in the old grid; ",
                                                                          "" if matched else "without testing that its support domain is unchanged; ",
                                                                          "" if idx_ok else "from a position other than the domain match of the same point"))
                # the domains that are compared: new domains on the new mesh for the new points, old domains on the OLD mesh stored
                # under the same key as the old right-hand side, for the old points (themselves the points of that old mesh)
                if PL is not None:
                    n2 += 1
                    old_mesh = ("s", ("a", ("n", fi.self_name), "old_grid_coord"), OBK)
                    tfull = Terms(fi.node, max_depth=0)
                    tdeep = Terms(fi.node)
                    doms = {}
                    for nm, bs in tfull.env.bindings.items():
                        for b in bs:
                            if b.kind == "assign" and isinstance(b.value, ast.ListComp):
                                t = tfull.term(b.value)
                                if t[0] == "comp" and t[2][0] == "call" and t[2][1] == ("a", ("n", fi.self_name), "get_hat_domain") and len(t[3]) == 1 \
                                        and len(t[2][2]) == 2 and t[2][2][0] == ("bv", "$0") and isinstance(b.value.elt, ast.Call) and len(b.value.elt.args) == 2:
                                    doms[t[3][0][1]] = (tdeep.term(b.value.elt.args[1]), b)
                    problems = []
                    newd, oldd = doms.get(("n", PL)), doms.get(("n", OPL))
                    if newd is None or oldd is None:
                        problems.append("the support domains of the new / old points are no longer computed by get_hat_domain per point")
                    else:
                        if oldd[0] != old_mesh:
                            problems.append("the support domains of the OLD points are computed on %s, not on the old mesh %s that the copied values belong to"
                                            % (show(oldd[0]), show(old_mesh)))
                        if any(x == ("a", ("n", fi.self_name), "old_grid_coord") for x in subterms(newd[0])):
                            problems.append("the support domains of the new points are computed on %s, not on the current mesh" % show(newd[0]))
                    opl_defs = [tdeep.term(b.value) for b in tfull.env.bindings.get(OPL, []) if b.kind == "assign" and b.value is not None]
                    if not opl_defs or not all(any(x == old_mesh for x in subterms(t)) for t in opl_defs):
                        problems.append("the old point list is not built from the old mesh %s" % show(old_mesh))
                    ctx.check(not problems, "C17.D2", R.key_of(fi, "old-domains-on-old-mesh"), fi.loc(oldd[1].stmt) if oldd else fi.loc(n.ast),
                              "old support domains and old points come from the stored mesh of the same key as the copied right-hand side",
                              "reuse of right-hand-side entries: " + "; ".join(problems))
        # the old right-hand side is indexed like the point list of the grid it was stored for: where the current point list is built from
        # coordinates handed in by the caller (they contain the boundary points), the old point list has to be built in exactly the same
        # way from the old mesh, branch by branch (boundary flag).  calculate_B builds inner-only coordinates itself: not concerned.
        if list_roles:
            tshal = Terms(fi.node, max_depth=0)
            for (PLn, OPLn, OBK) in sorted(list_roles, key=repr):
                old_mesh = ("s", ("a", ("n", fi.self_name), "old_grid_coord"), OBK)

                def listing(t):
                    """('all' | 'inner', mesh term) for the recognised ways of listing the points of a mesh, else None"""
                    if t[0] == "call" and len(t[2]) == 1:
                        arg = t[2][0]
                        if arg[0] == "comp" and len(arg[3]) == 1 and not arg[3][0][2] and arg[2][0] == "s" and arg[2][1] == ("bv", "$0") \
                                and arg[2][2] == ("slice", ("c", "1"), ("c", "-1"), ("c", "None")):
                            return ("inner", arg[3][0][1])
                        if arg[0] in ("n", "s"):
                            return ("all", arg)
                    if t[0] == "comp" and t[2] == ("bv", "$0") and len(t[3]) == 1 and t[3][0][1][0] == "call" and len(t[3][0][1][2]) == 1:
                        conds = {y for x in t[3][0][2] for y in (x[2] if x[0] == "bool" and x[1] == "and" else (x,))}
                        if {("cmp", "NotIn", ("c", "0.0"), ("bv", "$0")), ("cmp", "NotIn", ("c", "1.0"), ("bv", "$0"))} <= conds:
                            return ("inner", t[3][0][1][2][0])
                    return None

                def by_branch(entries):
                    out = {}
                    for (facts, t) in entries:
                        k = listing(t)
                        pols = set()
                        for f_ in facts:
                            neg = f_[0] == "not"
                            pols.add(not neg)
                        for pol in (pols or {True, False}):
                            out.setdefault(pol, set()).add(k)
                    return out
                shallow = {}
                for nm in (PLn, OPLn):
                    es = []
                    for b_ in tshal.env.bindings.get(nm, []):
                        bn = cf.node_of(b_.stmt) if b_.kind == "assign" and b_.value is not None else None
                        if bn is None:
                            continue
                        facts = tuple(sorted((g for (g, gn) in R.dominating_guards(fi, bn, tshal)
                                              if any(isinstance(x, tuple) and len(x) == 3 and x[0] == "a" and x[2] == "boundary" for x in subterms(g))), key=repr))
                        es.append((facts, R.resolve_locals(fi, tshal.term(b_.value), bn, tshal, depth=2)))
                    shallow[nm] = es
                pl, opl = by_branch(shallow[PLn]), by_branch(shallow[OPLn])
                kinds = [k for v in list(pl.values()) + list(opl.values()) for k in v]
                pl_meshes = {k[1] for v in pl.values() for k in v if k}
                opl_meshes = {k[1] for v in opl.values() for k in v if k}
                caller_mesh = len(pl_meshes) == 1 and list(pl_meshes)[0][0] == "n" and list(pl_meshes)[0][1] in fi.params
                if None in kinds or not caller_mesh or opl_meshes != {old_mesh}:
                    ctx.note("C17.D2", R.key_of(fi, "old-point-list-mirrors-point-list:%s" % OPLn), fi.loc(),
                             "not decided here: the current point list is not listed from coordinates handed in by the caller in a recognised way "
                             "(a mesh built locally from the level vector holds inner points only, both listings coincide)")
                    continue
                n2 += 1
                bad = [pol for pol in (True, False) if {k[0] for k in pl.get(pol, set())} != {k[0] for k in opl.get(pol, set())}]
                ctx.check(not bad, "C17.D2", R.key_of(fi, "old-point-list-mirrors-point-list:%s" % OPLn), fi.loc(),
                          "with and without boundary points the old point list `%s` lists the old mesh the way `%s` lists the current one" % (OPLn, PLn),
                          "for boundary=%s the current points (`%s`) are listed as %s but the points of the old grid (`%s`) as %s: the stored right-hand side is "
                          "indexed like the point list of its own grid, so entries are copied from the position of another point"
                          % (bad[0] if bad else "", PLn, sorted(k[0] for k in pl.get(bad[0], set())) if bad else "", OPLn,
                             sorted(k[0] for k in opl.get(bad[0], set())) if bad else ""))
        # the domain match compares both ends of the support in every dimension
        for st in walk_local(fi.node):
            if isinstance(st, ast.Assign) and isinstance(st.targets[0], ast.Name) and isinstance(st.value, ast.ListComp) \
                    and any(isinstance(x, ast.Compare) and isinstance(x.ops[0], ast.Eq) and isinstance(x.left, ast.Subscript) for x in ast.walk(st.value)) \
                    and any(isinstance(x, ast.Attribute) and x.attr == "dim" for x in ast.walk(st.value)):
                t = Terms(fi.node).term(st.value)
                both = any(x[0] == "cmp" and x[1] == "Eq" and x[2][0] == "s" and x[2][2] == ("c", "0") for x in subterms(t)) and \
                    any(x[0] == "cmp" and x[1] == "Eq" and x[2][0] == "s" and x[2][2] == ("c", "1") for x in subterms(t))
                alld = any(x[0] == "cmp" and x[1] == "Eq" and ("a", ("n", "self"), "dim") in (x[2], x[3]) for x in subterms(t))
                n2 += 1
                ctx.check(both and alld, "C17.D2", R.key_of(fi, "domain-match-all-dims"), fi.loc(st),
                          "a support domain matches only if start and end agree in all dimensions",
                          "the domain match of %s no longer requires start AND end to agree in all self.dim dimensions" % fi.name)
    ctx.floor("C17.D2", n2, 4, "copy sites and domain-match definitions")

    # ------------------------------------------------------------------ D4 (shared with C16.D7 / C20.D6): the small-grid and the
    # large-grid interpolation / right-hand side use different hat implementations; they agree on grid points only if each counts
    # the centre of a hat exactly once
    from ..hats import check_hat_centre
    ctx.floor("C17.D4", check_hat_centre(prog, ctx, "C17.D4"), 3, "hat implementations analysed for the centre rule")
    from ..hats import check_support_enumeration
    ctx.floor("C17.D4.support", check_support_enumeration(prog, ctx, "C17.D4"), 1, "floor/ceil enumerations of the hats around a sample")

    check_per_dimension_caches(prog, ctx, "C17.D5")
    # ------------------------------------------------------------------ D6
    check_index_ranges_cover_their_ends(prog, ctx)

    # ------------------------------------------------------------------ D3
    # hand-over between iterations
    cand = []
    for ci in prog.cls(DE).mro:
        for f in ci.methods.values():
            if f.name != "__init__" and any(s.attr == "old_B" and s.kind in ("plain", "elem") for s in R.self_stores(f)):
                cand.append(f)
    ctx.floor("C17.D3", len(cand), 1, "methods handing the caches over")
    for fi in cand:
        ctx.touch(fi)
        tmf = Terms(fi.node, max_depth=0)
        cf = cfg_of(fi)
        problems = []
        for old, new in (("old_B", "new_B"), ("old_grid_coord", "new_grid_coord")):
            resets_old = [s for s in R.self_stores(fi, old) if s.kind == "plain" and isinstance(s.value, ast.Dict) and not s.value.keys]
            resets_new = [s for s in R.self_stores(fi, new) if s.kind == "plain" and isinstance(s.value, ast.Dict) and not s.value.keys]
            fills = [s for s in R.self_stores(fi, old) if s.kind == "elem"]
            whole = [s for s in R.self_stores(fi, old) if s.kind == "plain" and any(x == ("a", ("n", "self"), new) for x in subterms(tmf.term(s.value)))]
            if whole:
                pass
            elif not (resets_old and fills):
                problems.append("%s is not rebuilt from %s" % (old, new))
            else:
                for s in fills:
                    loops = [l for l in R.enclosing_loops(s.stmt) if isinstance(l, ast.For)]
                    it = tmf.term(loops[-1].iter) if loops else ("?",)
                    k = tmf.term(s.stmt.targets[0].slice)
                    v = tmf.term(s.value)
                    newattr = ("a", ("n", "self"), new)
                    whole_iter = it in (("call", ("a", newattr, "keys"), (), ()), newattr)
                    same_key = any(x == ("s", newattr, k) for x in subterms(v))
                    # `for key, value in self.new.items(): self.old[key] = list(value)`: the loop's second target is new[key]
                    if it == ("call", ("a", newattr, "items"), (), ()) and loops and isinstance(loops[-1].target, ast.Tuple) \
                            and len(loops[-1].target.elts) == 2 and all(isinstance(e_, ast.Name) for e_ in loops[-1].target.elts):
                        kn, vn = loops[-1].target.elts[0].id, loops[-1].target.elts[1].id
                        rebound = any(isinstance(x_, ast.Name) and isinstance(x_.ctx, ast.Store) and x_.id in (kn, vn)
                                      for st_ in loops[-1].body for x_ in ast.walk(st_))
                        whole_iter = not rebound
                        same_key = k == ("n", kn) and any(x == ("n", vn) for x in subterms(v))
                    if not (whole_iter and same_key):
                        problems.append("%s[%s] is filled with %s while iterating %s" % (old, show(k), show(v), show(it)))
                    if not any(cf.dominates(cf.node_of(r.stmt), cf.node_of(s.stmt)) for r in resets_old):
                        problems.append("%s is not emptied before it is refilled (entries of an older step survive)" % old)
            if not resets_new:
                problems.append("%s is not restarted empty" % new)
            else:
                lastfill = [cf.node_of(s.stmt) for s in fills] + [cf.node_of(s.stmt) for s in whole]
                for r in resets_new:
                    rn = cf.node_of(r.stmt)
                    if any(f.idx in cf.reachable_after(rn) for f in lastfill):
                        problems.append("%s is emptied before it was handed over to %s" % (new, old))
        ctx.check(not problems, "C17.D3", R.key_of(fi, "hand-over"), fi.loc(),
                  "old_B/old_grid_coord are emptied, refilled from all of new_B/new_grid_coord under the same keys, and the new ones restart empty",
                  "hand-over of cached right-hand sides between iterations: " + "; ".join(problems))


# ---------------------------------------------------------------------------------------------------------------- D6
def check_per_dimension_caches(prog, ctx, rule="C17.D5"):
    """per-dimension caches (data bins) are distinct objects per dimension: built by a comprehension, never by multiplying a list that
    holds one mutable"""
    def _mutable(e):
        return isinstance(e, (ast.Dict, ast.List, ast.Set, ast.ListComp, ast.DictComp, ast.SetComp)) or \
            (isinstance(e, ast.Call) and isinstance(e.func, ast.Name) and e.func.id in ("dict", "list", "set", "defaultdict", "OrderedDict"))
    n5 = 0
    for ci in prog.cls(DE).mro:
        if ci.module.name != "GridOperation":
            continue
        for f in ci.methods.values():
            for s_ in R.self_stores(f):
                v = s_.value
                if s_.kind != "plain" or v is None:
                    continue
                if isinstance(v, ast.BinOp) and isinstance(v.op, ast.Mult):
                    for side in (v.left, v.right):
                        if isinstance(side, ast.List) and len(side.elts) == 1 and _mutable(side.elts[0]):
                            n5 += 1
                            ctx.touch(f)
                            ctx.violation(rule, R.key_of(f, "distinct-per-dimension:%s" % s_.attr), f.loc(s_.stmt),
                                          "`%s` makes every dimension share ONE mutable object: what is cached for one dimension is returned for "
                                          "another (list multiplication copies the reference)" % src(s_.stmt))
                elif isinstance(v, ast.ListComp) and _mutable(v.elt):
                    n5 += 1
                    ctx.touch(f)
                    ctx.ok(rule, R.key_of(f, "distinct-per-dimension:%s" % s_.attr), f.loc(s_.stmt),
                           "one fresh object per dimension (comprehension)")
    ctx.floor(rule, n5, 1, "per-dimension cache containers of the density estimation")


def check_index_ranges_cover_their_ends(prog, ctx):
    """find_data_in_domain scans the sorted samples of a dimension for the first position `lower` and the last position `upper` inside
    the support, stores the pair widened by a margin and clamped,  [max(lower - c3, 0), min(upper + c1, len(S) - c2)],  in the data
    bins and later slices  S[lo + k0 : hi + k].  Every sample inside the support must be in the slice, i.e. for all
    0 <= lower, upper <= len(S) - 1:   lo + k0 <= lower   and   hi + k >= upper + 1.   With the clamps this is
        k0 <= 0,  k0 <= c3,  c1 + k >= 1,  k >= c2
    (an end clamped to the last valid POSITION, c2 = 1, needs k = 1; clamped to the length, c2 = 0, k = 0).
    Decided from the constants; nothing is claimed when the range is not built in this max/min form."""
    from ..absint import poly_of_term
    fi = prog.func(DE + ".find_data_in_domain")
    ctx.touch(fi)
    tm = Terms(fi.node, max_depth=0)
    pairs = []
    for st in walk_local(fi.node):
        if isinstance(st, ast.Assign) and isinstance(st.value, (ast.List, ast.Tuple)) and len(st.value.elts) == 2:
            lo_t, hi_t = tm.term(st.value.elts[0]), tm.term(st.value.elts[1])
            if lo_t[0] == "call" and lo_t[1] == ("n", "max") and hi_t[0] == "call" and hi_t[1] == ("n", "min") and len(lo_t[2]) == 2 and len(hi_t[2]) == 2:
                pairs.append((st, lo_t, hi_t))
    if not pairs:
        ctx.note("C17.D6", R.key_of(fi, "ranges-cover-their-ends"), fi.loc(),
                 "the index range is not built as [max(lower - c, 0), min(upper + c, len - c)]: nothing decided")
        return 0
    n = 0
    for (st, lo_t, hi_t) in pairs:
        target = tm.term(st.targets[0])
        try:
            # lower end
            zero = [a for a in lo_t[2] if a in (("c", "0"),)]
            other = [a for a in lo_t[2] if a not in zero]
            pl = poly_of_term(other[0])
            atoms_l = [k for k in pl.terms if k != ()]
            c3 = -pl.const_value()
            lens = [a for a in hi_t[2] if any(x[0] == "call" and x[1] == ("n", "len") for x in subterms(a))]
            ups = [a for a in hi_t[2] if a not in lens]
            pu, pL = poly_of_term(ups[0]), poly_of_term(lens[0])
            c1, c2 = pu.const_value(), -pL.const_value()
            simple = bool(zero) and len(atoms_l) == 1 and len([k for k in pu.terms if k != ()]) == 1 and len([k for k in pL.terms if k != ()]) == 1
        except Exception:                                        # noqa: BLE001
            simple = False
        if not simple:
            ctx.note("C17.D6", R.key_of(fi, "ranges-cover-their-ends"), fi.loc(st), "range `%s` not in the analysed form: nothing decided" % src(st)[:80])
            continue
        # the slices over the stored pair (directly, or through the bins the pair is stored in)
        carriers = {target}
        for st2 in walk_local(fi.node):
            if isinstance(st2, ast.Assign) and tm.term(st2.value) in carriers:
                carriers.add(tm.term(st2.targets[0]))
        slices = []
        for sub in [x for x in walk_local(fi.node) if isinstance(x, ast.Subscript) and isinstance(x.slice, ast.Slice) and x.slice.lower is not None and x.slice.upper is not None]:
            lo_s, hi_s = tm.term(sub.slice.lower), tm.term(sub.slice.upper)

            def offset(t, pos):
                # t == carrier[pos] + k  ->  k ; the dimension index of the carrier is abstracted (data_ranges[d] / data_ranges[0])
                p = poly_of_term(t)
                atoms = [k_ for k_ in p.terms if k_ != ()]
                if len(atoms) != 1 or len(atoms[0]) != 1 or p.terms[atoms[0]] != 1:
                    return None
                a = atoms[0][0][0] if isinstance(atoms[0][0], tuple) and len(atoms[0][0]) == 2 and isinstance(atoms[0][0][1], int) else atoms[0][0]
                if not (isinstance(a, tuple) and a[0] == "s" and a[2] == ("c", str(pos))):
                    return None
                base = a[1]
                if base in carriers or (base[0] == "s" and (("s", base[1], ("n", "d")) in carriers or any(c_[0] == "s" and c_[1] == base[1] for c_ in carriers))):
                    return p.const_value()
                return None
            try:
                k0, k = offset(lo_s, 0), offset(hi_s, 1)
            except Exception:                                    # noqa: BLE001
                k0 = k = None
            if k0 is not None and k is not None:
                slices.append((sub, k0, k))
        for (sub, k0, k) in slices:
            n += 1
            ok = k0 <= 0 and k0 <= c3 and c1 + k >= 1 and k >= c2
            ctx.check(ok, "C17.D6", R.key_of(fi, "ranges-cover-their-ends#%d" % n), fi.loc(sub),
                      "slice [lo%+d : hi%+d] over [max(lower - %s, 0), min(upper + %s, len - %s)] contains every position from lower to upper" % (k0, k, c3, c1, c2),
                      "`%s` does not contain every sample inside the support: the stored upper end is min(upper + %s, len - %s) and the slice ends at "
                      "hi%+d, so for upper = len - 1 the sample with the largest coordinate is cut off (need k >= %s and %s + k >= 1)"
                      % (src(sub)[:70], c1, c2, k, c2, c1))
    if n == 0:
        ctx.note("C17.D6", R.key_of(fi, "ranges-cover-their-ends"), fi.loc(), "no slice over the stored range recognised: nothing decided")
    return n
