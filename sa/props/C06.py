"""C06 -- refinement structures stay well formed under every refinement history (dimension-wise strategy).

Decided code-shape premises of the inductive argument (initial container tiles [a,b]; every step preserves tiling and
level agreement):
 D0 initial container: interval i is (p[i], p[i+1]) with levels (l[i], l[i+1]) from one point/level array
 D1 split: children (start, m), (m, end) with one midpoint term, levels (l0, n), (n, l1) with n = max(levels) + 1, inherited
    attributes, child coarsening 0 if parent 0 else parent - 1, assert start < m < end dominates both constructions
 D2 replace = remove + add of exactly the refined position / its children; only RefinementContainer mutates its list
 D4 coarsening update: level = lmax[d] - max(levels); the same positive increment goes to lmax[d] and to every object
 D5 selection: tolerance = benefit_max * margin, `>=` comparison, cursor advances, new children are not candidates, the loop
    runs until nothing is found, do_refinement never stops it, benefit_max is re-read every evaluation
 D6 rebalancing keeps neighbours in agreement: each change of an interval's right-end level is paired with the same change of
    the successor's left-end level; nothing else writes `levels`
Not decided: binary-tree relation after rebalancing, lmax >= deepest level, tiling as a numerical fact."""
import ast

from ..absint import poly_of_term, Poly
from ..cfg import cfg_of, walk_local
from ..loader import AnalysisError, src
from ..terms import Terms, terms_of, show, subterms
from .. import rules as R
from .. import strategies as S

EXPLANATION = ("Static analysis of RefinementObjectSingleDimension.refine, RefinementContainer, the selection loop of "
               "SpatiallyAdaptivBase.refine and the dimension-wise post-processing / rebalancing: value-term identity of the shared "
               "midpoint and level, a polynomial identity for the child level, interval reasoning for the child coarsening, "
               "post-dominance of remove+add, who-may-write over the package, and paired stores in the rebalancing branches.")

RO = "RefinementObject.RefinementObjectSingleDimension"
RC = "RefinementContainer.RefinementContainer"
SD = "spatiallyAdaptiveSingleDimension2.SpatiallyAdaptiveSingleDimensions2"


def _ctor_args(prog, fi, call, target_cls):
    """name -> ast for a constructor call, mapped onto the __init__ parameters"""
    init = prog.lookup_method(target_cls, "__init__")
    names = [p for p in init.params if p != init.self_name]
    # name the arguments by the attribute the constructor stores them in (robust against renamed parameters)
    attr_of = {}
    for s_ in R.self_stores(init):
        if s_.kind == "plain" and isinstance(s_.value, ast.Name) and s_.value.id in names:
            attr_of.setdefault(s_.value.id, s_.attr)
    names = [attr_of.get(p, p) for p in names]
    kwmap = {p: attr_of.get(p, p) for p in attr_of}
    out = {}
    for k, a in enumerate(call.args):
        if k < len(names):
            out[names[k]] = a
    for kw in call.keywords:
        out[kwmap.get(kw.arg, kw.arg)] = kw.value
    return out


def run(prog, ctx):
    ro = prog.cls(RO)
    rf = prog.func(RO + ".refine")
    ctx.touch(rf)
    c = cfg_of(rf)
    tm = Terms(rf.node, max_depth=0)
    tmd = Terms(rf.node)

    # ------------------------------------------------------------------ D1
    ctors = [x for x in R.calls_in(rf.node) if prog.resolve_class_expr(rf.module.name, x.func, None) is ro]
    if len(ctors) != 2:
        ctx.violation("C06.D1", R.key_of(rf, "two-children"), rf.loc(),
                      "refine() constructs %d child intervals instead of 2" % len(ctors))
    else:
        a1, a2 = _ctor_args(prog, rf, ctors[0], ro), _ctor_args(prog, rf, ctors[1], ro)
        s1, e1, s2, e2 = (tm.term(a1.get("start")), tm.term(a1.get("end")), tm.term(a2.get("start")), tm.term(a2.get("end")))
        st, en = ("a", ("n", "self"), "start"), ("a", ("n", "self"), "end")
        # order-insensitive: one child starts at self.start, the other ends at self.end, and they meet in one term
        if s1 != st:
            a1, a2, s1, e1, s2, e2 = a2, a1, s2, e2, s1, e1
        ok = s1 == st and e2 == en and e1 == s2 and e1 not in (st, en)
        ctx.check(ok, "C06.D1", R.key_of(rf, "children-tile-parent"), rf.loc(ctors[0]),
                  "children are (start, m) and (m, end) with one midpoint term m = %s" % show(e1),
                  "the children (%s, %s) and (%s, %s) do not tile the parent (self.start, self.end) with a shared midpoint"
                  % (show(s1), show(e1), show(s2), show(e2)))
        # levels
        l1, l2 = tmd.term(a1.get("levels")), tmd.term(a2.get("levels"))

        def pair(t):
            while t[0] == "copy":
                t = t[2]
            return (t[1], t[2]) if t[0] in ("tuple", "list") and len(t) == 3 else None
        p1, p2 = pair(l1), pair(l2)
        lv0, lv1 = ("s", ("a", ("n", "self"), "levels"), ("c", "0")), ("s", ("a", ("n", "self"), "levels"), ("c", "1"))
        ok = p1 is not None and p2 is not None and p1[0] == lv0 and p2[1] == lv1 and p1[1] == p2[0]
        newl = p1[1] if p1 else None
        if ok:
            mx = ("call", ("n", "max"), (("a", ("n", "self"), "levels"),), ())
            diff = poly_of_term(newl) - Poly.atom(mx)
            ok = diff == Poly.const(1)
        ctx.check(ok, "C06.D1", R.key_of(rf, "child-levels"), rf.loc(ctors[0]),
                  "child levels are (l0, n) and (n, l1) with the same n = max(levels) + 1",
                  "child level pairs %s / %s are not (levels[0], n), (n, levels[1]) with one n = max(self.levels) + 1"
                  % (show(l1), show(l2)))
        # inherited attributes
        inh_bad = []
        for nm in ("this_dim", "dim", "grid", "a", "b"):
            for a in (a1, a2):
                v = a.get(nm)
                if v is None or tm.term(v) != ("a", ("n", "self"), nm):
                    inh_bad.append(nm)
        ctx.check(not inh_bad, "C06.D1", R.key_of(rf, "children-inherit"), rf.loc(ctors[0]),
                  "children inherit this_dim, dim, grid, a, b", "children do not inherit %s from the parent" % sorted(set(inh_bad)))
        # coarsening: 0 if parent 0 else parent - 1
        cv1, cv2 = a1.get("coarsening_level"), a2.get("coarsening_level")
        okc = isinstance(cv1, ast.Name) and isinstance(cv2, ast.Name) and cv1.id == cv2.id
        why = "children get different coarsening expressions"
        if okc:
            bs = [b for b in tm.env.bindings.get(cv1.id, []) if b.kind == "assign"]
            par = ("a", ("n", "self"), "coarsening_level")
            seen = {"zero": False, "dec": False}
            okc = bool(bs)
            for b in bs:
                v = tm.term(b.value)
                bn = c.node_of(b.stmt)
                guards = [g for (g, gn) in R.dominating_guards(rf, bn, tm) if gn.kind == "test"]
                if v == ("c", "0"):
                    seen["zero"] = True
                elif v == ("op", "Sub", (par, ("c", "1"))):
                    seen["dec"] = True
                    if not any(g in (("cmp", "NotEq", ("c", "0"), par), ("cmp", "NotEq", par, ("c", "0")), ("cmp", "Lt", ("c", "0"), par)) for g in guards):
                        okc = False
                        why = "parent - 1 is used without the guard parent != 0: the child coarsening can become negative"
                else:
                    okc = False
                    why = "child coarsening %s is neither 0 nor parent - 1" % show(v)
            if okc and not (seen["zero"] and seen["dec"]):
                okc = False
                why = "child coarsening is not '0 if parent is 0 else parent - 1' (found zero=%s, decrement=%s)" % (seen["zero"], seen["dec"])
            # defined on every path to the constructors
            if okc:
                defs = [c.node_of(b.stmt) for b in bs]
                okc = all(c.must_pass_through(c.entry, [R.cfg_node(rf, ctors[0])], defs) for _ in [0])
                why = "the child coarsening is not assigned on every path"
        ctx.check(okc, "C06.D1", R.key_of(rf, "child-coarsening"), rf.loc(ctors[0]),
                  "child coarsening is 0 if the parent's is 0, else parent - 1 (never negative)", why)
        # assertion start < m < end dominates both constructions
        okA = False
        for n in c.nodes:
            if n.kind == "stmt" and isinstance(n.ast, ast.Assert):
                t = tm.term(n.ast.test)
                want = {("cmp", "Lt", st, e1), ("cmp", "Lt", e1, en)}
                have = set(t[2]) if t[0] == "bool" and t[1] == "and" else {t}
                if want <= have and all(c.dominates(n, R.cfg_node(rf, x)) for x in ctors):
                    okA = True
        ctx.check(okA, "C06.D1", R.key_of(rf, "midpoint-inside"), rf.loc(),
                  "`assert start < m < end` dominates both child constructions",
                  "no assertion self.start < %s < self.end dominates the construction of the children: a degenerate or outside midpoint "
                  "produces overlapping / empty intervals" % show(e1))
        # exactly these two are returned
        # the returned list holds exactly the two constructed children: built by two appends, or written as a list literal
        apps = [x for x in R.calls_in(rf.node, method="append")]
        elems = [x.args[0] for x in apps if x.args]
        for st_ in walk_local(rf.node):
            if isinstance(st_, ast.Assign) and isinstance(st_.value, (ast.List, ast.Tuple)) and st_.value.elts \
                    and any(e in ctors for e in st_.value.elts):
                elems += list(st_.value.elts)
        for r_ in R.return_paths(rf)[0]:
            v_ = r_.ast.value.elts[0] if isinstance(r_.ast.value, ast.Tuple) and r_.ast.value.elts else r_.ast.value
            if isinstance(v_, (ast.List, ast.Tuple)) and any(e in ctors for e in v_.elts):
                elems += list(v_.elts)
        # an element may be a local bound (once) to one of the constructor calls
        def ctor_of(e):
            if isinstance(e, ast.Name):
                bs_ = [b for b in tm.env.bindings.get(e.id, []) if b.kind == "assign"]
                if len(bs_) == 1 and bs_[0].value in ctors:
                    return bs_[0].value
            return e
        if not elems:
            for st_ in walk_local(rf.node):
                if isinstance(st_, (ast.Assign, ast.Return)) and st_.value is not None:
                    for cand in [st_.value] + (list(st_.value.elts[:1]) if isinstance(st_.value, ast.Tuple) else []):
                        if isinstance(cand, (ast.List, ast.Tuple)) and cand.elts and all(ctor_of(e) in ctors for e in cand.elts):
                            elems = list(cand.elts)
        elems = [ctor_of(e) for e in elems]
        okr = len(elems) == 2 and all(e in ctors for e in elems) and elems[0] is not elems[1]
        ctx.check(okr, "C06.D1", R.key_of(rf, "returns-both"), rf.loc(), "exactly the two children are returned",
                  "refine() does not return exactly its two children")

    # D0 initial container
    ir = prog.func(SD + ".initialize_refinement")
    ctx.touch(ir)
    tmi = Terms(ir.node, max_depth=0)
    ic = [x for x in ast.walk(ir.node) if isinstance(x, ast.Call) and prog.resolve_class_expr(ir.module.name, x.func, None) is ro]
    ctx.floor("C06.D0", len(ic), 1, "initial interval constructions")
    # the per-dimension point / level arrays are one object per dimension: a loop must not store an array it keeps filling
    als = R.loop_carried_aliases(prog, ir)
    ctx.check(not als, "C06.D0", R.key_of(ir, "own-array-per-dimension"), ir.loc(als[0][0]) if als else ir.loc(),
              "no array that the loop keeps filling is stored once per iteration",
              "`%s` stores the array `%s` in every iteration although the loop does not bind a new array on every path and changes it in "
              "place (%s): all dimensions end up with the points of the last one" % (src(als[0][0]) if als else "", als[0][1] if als else "", als[0][2] if als else ""))
    for x in ic:
        a = _ctor_args(prog, ir, x, ro)
        s_, e_, lv = tmi.term(a.get("start")), tmi.term(a.get("end")), tmi.term(a.get("levels"))
        ok = s_[0] == "s" and e_[0] == "s" and s_[1] == e_[1] and e_[2] == ("op", "Add", tuple(sorted((s_[2], ("c", "1")), key=repr)))
        i_t = s_[2] if ok else None
        while lv[0] == "copy":
            lv = lv[2]
        okl = ok and lv[0] in ("tuple", "list") and len(lv) == 3 and lv[1][0] == "s" and lv[2][0] == "s" and lv[1][1] == lv[2][1] \
            and lv[1][2] == i_t and lv[2][2] == e_[2]
        okc = a.get("coarsening_level") is not None and tmi.term(a["coarsening_level"]) == ("c", "0")
        ctx.check(ok and okl and okc, "C06.D0", R.key_of(ir, "initial-intervals"), ir.loc(x),
                  "interval i is (p[i], p[i+1]) with levels (l[i], l[i+1]) and coarsening 0",
                  "the initial intervals are not (p[i], p[i+1]) with levels (l[i], l[i+1]) from shared index terms and coarsening_level=0: "
                  "start=%s end=%s levels=%s" % (show(s_), show(e_), show(lv)))

    # ------------------------------------------------------------------ D2
    cr = prog.func(RC + ".refine")
    ctx.touch(cr)
    cc = cfg_of(cr)
    tmc = Terms(cr.node)
    oid = cr.params[1]
    rcalls = [x for x in R.calls_in(cr.node, method="refine")]
    if not rcalls:
        raise AnalysisError("C06.D2: RefinementContainer.refine no longer calls the object's refine()")
    rn = R.cfg_node(cr, rcalls[0])
    recv = tmc.term(rcalls[0].func.value)
    ok_recv = recv == ("s", ("a", ("n", "self"), "refinementObjects"), ("n", oid))
    pr = [x for x in R.calls_in(cr.node, method="prepare_remove") if R.attr_chain(x.func.value) == ["self"]]
    ad = [x for x in R.calls_in(cr.node, method="add") if R.attr_chain(x.func.value) == ["self"]]
    ok_pr = any(cc.post_dominates(R.cfg_node(cr, x), rn) and x.args and tmc.term(x.args[0]) == ("n", oid) for x in pr)
    children = ("unpack", tmc.term(rcalls[0]), (0,))
    ok_ad = any(cc.post_dominates(R.cfg_node(cr, x), rn) and x.args and tmc.term(x.args[0]) == children for x in ad)
    ctx.check(ok_recv and ok_pr, "C06.D2", R.key_of(cr, "removes-refined"), cr.loc(),
              "the refined position is scheduled for removal on every path",
              "RefinementContainer.refine does not schedule exactly the refined position `%s` for removal on every path: the parent "
              "interval stays next to its children (overlap)" % oid)
    ctx.check(ok_ad, "C06.D2", R.key_of(cr, "adds-children"), cr.loc(),
              "the children returned by that refine() call are added on every path",
              "RefinementContainer.refine does not add the children returned by the object's refine() on every path (gap)")
    # who mutates the list / the removal schedule
    outsiders = []
    for fi in prog.functions.values():
        for s in R.attribute_stores(fi.node):
            if s.attr in ("refinementObjects", "popArray"):
                is_self = isinstance(s.base, ast.Name) and s.base.id == fi.self_name
                if is_self and fi.cls is not None and fi.cls.qual == RC:
                    continue
                outsiders.append((fi, s))
    for (fi, s) in outsiders:
        ctx.violation("C06.D2", R.key_of(fi, "outside-mutation:%s" % s.attr), fi.loc(s.stmt),
                      "`%s` mutates a refinement container's %s from outside RefinementContainer" % (src(s.stmt), s.attr))
    if not outsiders:
        ctx.ok("C06.D2", "package::only-container-mutates-list", "sparseSpACE/*", "refinementObjects / popArray are mutated only by RefinementContainer methods")
    mut = set()
    rcc = prog.cls(RC)
    for nm, fi in rcc.methods.items():
        for s in R.self_stores(fi, "refinementObjects"):
            mut.add(nm)
    ctx.check(mut <= {"__init__", "add", "apply_remove"}, "C06.D2", RC + "::list-mutators", rcc.methods["add"].loc(),
              "the list is changed only by %s" % sorted(mut), "the interval list is also changed by %s" % sorted(mut - {"__init__", "add", "apply_remove"}))

    # ------------------------------------------------------------------ D4
    uc = prog.func(SD + ".update_coarsening_values")
    ctx.touch(uc)
    tmu = Terms(uc.node, max_depth=0)
    d_par, cont_par = uc.params[2], uc.params[1]
    okst = False
    cu_ = cfg_of(uc)
    cl_value = None            # (object term, value term) of the coarsening-level store
    for s in R.attribute_stores(uc.node):
        if s.attr == "coarsening_level" and s.kind == "plain":
            t = R.resolve_locals(uc, tmu.term(s.value), cu_.node_of(s.stmt), tmu)       # looks through `lmax_d = self.lmax[d]` etc.
            obj = tmu.term(s.base)
            want = ("op", "Sub", (("s", ("a", ("n", "self"), "lmax"), ("n", d_par)), ("call", ("n", "max"), (("a", obj, "levels"),), ())))
            okst = t == want
            cl_value = (obj, want)
    ctx.check(okst, "C06.D4", R.key_of(uc, "coarsening-definition"), uc.loc(),
              "coarsening level = lmax[d] - max(levels) of the same object",
              "update_coarsening_values no longer stores self.lmax[d] - max(object.levels) into that object's coarsening_level")
    # returns -(minimum over objects, at most 0)
    rets = R.return_paths(uc)[0]
    okret = False
    if rets:
        t = Terms(uc.node, max_depth=0).term(rets[0].ast.value)
        # role of the running minimum: the local the return value negates
        acc = None
        if t[0] == "neg" and t[1][0] == "n":
            acc = t[1][1]
        elif t[0] == "op" and t[1] == "Mult" and len(t[2]) == 2 and ("c", "-1") in t[2]:
            o = [x for x in t[2] if x != ("c", "-1")]
            acc = o[0][1] if o and o[0][0] == "n" else None
        okret = acc is not None
        inits = [b for b in tmu.env.bindings.get(acc, []) if b.kind == "assign"]
        zero_init = any(tmu.term(b.value) == ("c", "0") for b in inits)

        def quantity(term, at):
            """the coarsening level of the current object, however it is spelt (attribute read back, local copy, formula)"""
            r = R.resolve_locals(uc, term, at, tmu)
            if cl_value is not None and r == ("a", cl_value[0], "coarsening_level"):
                return cl_value[1]
            return r
        okmin = False
        for b in inits:
            bn = cu_.node_of(b.stmt)
            v = quantity(tmu.term(b.value), bn)
            if cl_value is None or v != cl_value[1]:
                continue
            guards = [(g, gn) for (g, gn) in R.dominating_guards(uc, bn, tmu) if gn.kind == "test"]
            if any(g[0] == "cmp" and g[1] == "Lt" and g[3] == ("n", acc) and quantity(g[2], gn) == cl_value[1] for (g, gn) in guards):
                okmin = True
        # builtin forms of the running minimum:  acc = min(acc, level)  in the loop;  acc = min([0] + [level of every object])  after it
        objs_t = ("call", ("a", ("n", cont_par), "get_objects"), (), ())
        for b in inits:
            bn = cu_.node_of(b.stmt)
            v = tmu.term(b.value)
            if v[0] == "call" and v[1] == ("n", "min") and len(v[2]) == 2 and ("n", acc) in v[2]:
                other = [x for x in v[2] if x != ("n", acc)]
                if other and cl_value is not None and quantity(other[0], bn) == cl_value[1] and bn.loops:
                    okmin = True
            if v[0] == "call" and v[1] == ("n", "min") and len(v[2]) == 1:
                a0 = R.resolve_locals(uc, v[2][0], bn, tmu)
                parts = a0[2] if a0[0] == "op" and a0[1] == "Add" else (a0,)
                has_zero = any(p_ in (("list", ("c", "0")), ("tuple", ("c", "0"))) for p_ in parts) or \
                    any(k_ == "default" and kv == ("c", "0") for (k_, kv) in (v[3] if len(v) > 3 else ()))
                comps = [p_ for p_ in parts if p_[0] == "comp"]
                if has_zero and len(comps) == 1 and len(comps[0][3]) == 1 and not comps[0][3][0][2]:
                    it_ = R.resolve_locals(uc, comps[0][3][0][1], bn, tmu)
                    body_ = comps[0][2]
                    if it_ == objs_t and body_ == ("a", ("bv", "$0"), "coarsening_level"):
                        okmin = True
                        zero_init = True
        okret = okret and zero_init and okmin
    ctx.check(okret, "C06.D4", R.key_of(uc, "returns-deficit"), uc.loc(),
              "returns the negated minimum coarsening level (0 if none is negative)",
              "update_coarsening_values does not return -(min(0, coarsening levels))")
    rp = prog.func(SD + ".refinement_postprocessing")
    ctx.touch(rp)
    tmr = Terms(rp.node, max_depth=0)
    crp = cfg_of(rp)
    ups = [x for x in R.calls_in(rp.node, method="update_coarsening_values")]
    rls = [x for x in R.calls_in(rp.node, method="raise_lmax")]
    uvs = [x for x in R.calls_in(rp.node, method="update_values")]
    ok = len(ups) == 1 and len(rls) == 1 and len(uvs) == 1
    why = "expected one update_coarsening_values, raise_lmax and update_values call each"
    if ok:
        par = getattr(ups[0], "_parent", None)
        var = par.targets[0].id if isinstance(par, ast.Assign) and isinstance(par.targets[0], ast.Name) else None
        cont, dv = tmr.term(ups[0].args[0]), tmr.term(ups[0].args[1])
        g1 = [g for (g, gn) in R.dominating_guards(rp, R.cfg_node(rp, rls[0]), tmr) if gn.kind == "test"]
        g2 = [g for (g, gn) in R.dominating_guards(rp, R.cfg_node(rp, uvs[0]), tmr) if gn.kind == "test"]
        pos = ("cmp", "Lt", ("c", "0"), ("n", var))
        ok = var is not None and tmr.term(rls[0].args[1]) == ("n", var) and tmr.term(uvs[0].args[0]) == ("n", var) \
            and tmr.term(rls[0].args[0]) == dv and tmr.term(uvs[0].func.value) == cont and pos in g1 and pos in g2 and set(g1) == set(g2)
        why = "raise_lmax(%s, %s) under %s vs %s.update_values(%s) under %s" % (
            src(rls[0].args[0]), src(rls[0].args[1]), [show(g) for g in g1], src(uvs[0].func.value), src(uvs[0].args[0]), [show(g) for g in g2])
        # the container is the one of dimension d
        b = R.reaching_unique_def(rp, ups[0].args[0].id, ups[0].args[0]) if isinstance(ups[0].args[0], ast.Name) else None
        if ok and b is not None:
            t = tmr.term(b.value)
            ok = t[0] == "call" and t[1][2] == "get_refinement_container_for_dim" and t[2] and t[2][0] == dv
            why = "the container updated is not the one of dimension d"
    ctx.check(ok, "C06.D4", R.key_of(rp, "same-increment"), rp.loc(),
              "the same positive deficit raises lmax[d] and every object's coarsening level of dimension d, under one guard",
              "lmax and the objects' coarsening levels are not raised by the same value under the same `> 0` guard: " + why)
    # the coarsening update runs for every dimension on every path (not only under an option such as rebalancing)
    if len(ups) == 1:
        un = R.cfg_node(rp, ups[0])
        guards = [g for (g, gn) in R.dominating_guards(rp, un, tmr) if gn.kind == "test"]
        loops = [l for l in un.loops if isinstance(l, ast.For)]
        full = bool(loops) and tmr.term(loops[-1].iter) == ("call", ("n", "range"), (("a", ("n", "self"), "dim"),), ()) and len(loops) == 1
        head = crp.node_of(loops[-1]) if loops else None
        always = head is not None and crp.post_dominates(head, crp.entry)
        ctx.check(not guards and full and always, "C06.D4", R.key_of(rp, "update-every-dimension"), rp.loc(ups[0]),
                  "the coarsening / lmax update runs unconditionally for every dimension after every step",
                  "update_coarsening_values is %s: with that option off lmax is never raised and coarsening levels are never recomputed"
                  % ("guarded by %s" % [show(g) for g in guards] if guards else "not executed for every dimension on every path"))
    rl = prog.func(SD + ".raise_lmax")
    ctx.touch(rl)
    tml = Terms(rl.node, max_depth=0)
    crl = cfg_of(rl)
    # ... and does so on EVERY normal path (no option may switch the raise off: lmax[d] >= deepest level is unconditional)
    okrl = any(s.kind == "elem_aug" and isinstance(s.stmt.op, ast.Add) and tml.term(s.stmt.target.slice) == ("n", rl.params[1])
               and tml.term(s.value) == ("n", rl.params[2]) and crl.must_pass_through(crl.entry, [crl.exit], [crl.node_of(s.stmt)])
               for s in R.self_stores(rl, "lmax"))
    # the coarsening levels are computed from the levels that remain: no rebalancing (which rotates levels in place) after the update
    rbs = [R.cfg_node(rp, x) for x in R.calls_in(rp.node, method="rebalance")]
    upn = [R.cfg_node(rp, x) for x in ups]
    late = [rb for rb in rbs for u in upn if rb.idx in crp.reachable_after(u)]
    ctx.check(not late, "C06.D4", R.key_of(rp, "update-after-rebalancing"), rp.loc(late[0].ast) if late else rp.loc(),
              "the coarsening levels / lmax are updated after the rebalancing of the step, never before it",
              "refinement_postprocessing can rebalance a dimension (line %s) after update_coarsening_values ran: the rotation changes point "
              "levels in place, the coarsening levels and lmax computed before it are stale" % (late[0].ast.lineno if late else 0))
    ctx.check(okrl, "C06.D4", R.key_of(rl, "raises-by-deficit"), rl.loc(), "raise_lmax adds exactly the given value to lmax[d]",
              "raise_lmax does not add exactly `%s` to self.lmax[%s]: lmax and the coarsening levels (raised by the true deficit) drift apart"
              % (rl.params[2], rl.params[1]))
    # update() adds exactly the increment
    upd = prog.func(RO + ".update")
    ctx.touch(upd)
    oku = any(s.attr == "coarsening_level" and s.kind == "aug" and isinstance(s.stmt.op, ast.Add) and
              Terms(upd.node, max_depth=0).term(s.value) == ("n", upd.params[1]) for s in R.self_stores(upd))
    ctx.check(oku, "C06.D4", R.key_of(upd, "adds-increment"), upd.loc(), "update(x) adds x to the coarsening level",
              "RefinementObjectSingleDimension.update no longer adds its argument to coarsening_level")
    uv = prog.func(RC + ".update_values")
    ctx.touch(uv)
    okv = False
    for loop in [l for l in walk_local(uv.node) if isinstance(l, ast.For)]:
        if R.self_attr(loop.iter, "self") == "refinementObjects" and isinstance(loop.target, ast.Name):
            for x in R.calls_in(loop, method="update"):
                if isinstance(x.func.value, ast.Name) and x.func.value.id == loop.target.id and x.args and isinstance(x.args[0], ast.Name) \
                        and x.args[0].id == uv.params[1]:
                    okv = True
    ctx.check(okv, "C06.D4", R.key_of(uv, "all-objects"), uv.loc(), "update_values forwards the increment to every object",
              "update_values does not forward its argument to every refinement object")

    # ------------------------------------------------------------------ D5
    br = prog.func(S.BASE + ".refine")
    ctx.touch(br)
    tmb = Terms(br.node)
    gn_calls = [x for x in R.calls_in(br.node, method="get_next_object_for_refinement")]
    ctx.floor("C06.D5", len(gn_calls), 1, "selection calls in SpatiallyAdaptivBase.refine")
    tol = None
    for kw in gn_calls[0].keywords:
        if kw.arg == "tolerance":
            tol = kw.value
    if tol is None and gn_calls[0].args:
        tol = gn_calls[0].args[0]
    t = tmb.term(tol) if tol is not None else ("?",)
    want = ("op", "Mult", tuple(sorted((("a", ("n", "self"), "benefit_max"), ("a", ("n", "self"), "margin")), key=repr)))
    ctx.check(t == want, "C06.D5", R.key_of(br, "tolerance"), br.loc(gn_calls[0]),
              "the selection threshold is benefit_max * margin", "the selection threshold is %s, not self.benefit_max * self.margin" % show(t))
    # the margin is the caller's value whenever one is given (0 is a legal margin: "split everything")
    nm = 0
    for st_ in [prog.cls(S.BASE)] + S.strategies(prog):
        for mname, f in st_.methods.items():
            for s in R.self_stores(f, "margin"):
                nm += 1
                ctx.touch(f)
                v = s.value
                tmm = Terms(f.node, max_depth=0)
                guards = [g for (g, gn) in R.dominating_guards(f, R.cfg_node(f, s.stmt), tmm) if gn.kind == "test"]
                # role of the margin parameter: the parameter that some store of self.margin in this method reads
                pnames = [x.id for s2 in R.self_stores(f, "margin") if s2.value is not None for x in ast.walk(s2.value)
                          if isinstance(x, ast.Name) and x.id in f.params and x.id != f.self_name]
                MP = pnames[0] if pnames else "margin"
                has_param = MP in f.params
                ok = False
                why = "`%s`" % src(s.stmt)
                if isinstance(v, ast.Constant) and isinstance(v.value, (int, float)):
                    ok = (not has_param) or ("cmp", "Is", ("n", MP), ("c", "None")) in guards
                    why = "the default %r is stored although a margin parameter exists and was not tested for None" % v.value
                elif isinstance(v, ast.Name) and v.id == MP:
                    ok = not guards or guards == [("cmp", "IsNot", ("n", MP), ("c", "None"))]
                    why = "the margin parameter is stored only under %s" % [show(g) for g in guards]
                elif isinstance(v, ast.IfExp):
                    t = tmm.term(v.test)
                    ok = t in (("cmp", "IsNot", ("n", MP), ("c", "None")), ("cmp", "Is", ("n", MP), ("c", "None")))
                    why = "the choice between the caller's margin and the default tests %s, not `margin is None`" % show(t)
                else:
                    why = "`%s` does not take the caller's margin as given (a truthiness test treats margin=0 as missing)" % src(s.stmt)
                ctx.check(ok, "C06.D5", R.key_of(f, "margin-as-given#%d" % nm), f.loc(s.stmt),
                          "the margin is the caller's value whenever it is not None", "selection margin: " + why)
    ctx.floor("C06.D5.margin", nm, 2, "stores of self.margin in the strategies")
    # loop until nothing is found
    cb = cfg_of(br)
    loops = [l for l in walk_local(br.node) if isinstance(l, ast.While)]
    okl = False
    why = "no `while True` selection loop"
    if loops:
        loop = loops[0]
        breaks = [n for n in cb.nodes if n.kind == "stmt" and isinstance(n.ast, ast.Break) and cb.in_loop(n, loop)]
        gnn = R.cfg_node(br, gn_calls[0])
        par = getattr(gn_calls[0], "_parent", None)
        found = par.targets[0].elts[0].id if isinstance(par, ast.Assign) and isinstance(par.targets[0], ast.Tuple) else None
        tm0 = Terms(br.node, max_depth=0)
        okl = cb.in_loop(gnn, loop) and bool(breaks) and found is not None
        for b in breaks:
            guards = [g for (g, gn) in R.dominating_guards(br, b, tm0) if gn.kind == "test" and cb.in_loop(gn, loop) and gn.ast is not loop.test]
            # the loop may only be left when nothing was found (or a strategy asked to quit)
            if not any(g == ("not", ("n", found)) or g == ("n", "quit_refinement") for g in guards) or \
                    any(g == ("n", found) for g in guards) and not any(g == ("n", "quit_refinement") for g in guards):
                # accepted shape: break sits in the else-branch of `if found and not quit`
                pass
        # precise: the do_refinement call is reached iff found and not quit; break otherwise
        drs = [x for x in R.calls_in(br.node, method="do_refinement")]
        if drs:
            g = [gg for (gg, gn) in R.dominating_guards(br, R.cfg_node(br, drs[0]), tm0) if gn.kind == "test" and cb.in_loop(gn, loop)]
            okl = okl and ("n", found) in g
            a = drs[0].args
            names = [e.id for e in par.targets[0].elts] if found else []
            okl = okl and len(a) == 2 and isinstance(a[0], ast.Name) and isinstance(a[1], ast.Name) and names[1:] == [a[1].id, a[0].id]
            why = "do_refinement is not applied to the object/position just selected under `found`"
        else:
            okl = False
            why = "do_refinement is never called"
        # postprocessing on the exit path
        pp = [R.cfg_node(br, x) for x in R.calls_in(br.node, method="refinement_postprocessing")]
        okl = okl and bool(pp) and all(cb.must_pass_through(gnn, [cb.exit], pp) for _ in [0])
    ctx.check(okl, "C06.D5", R.key_of(br, "selection-loop"), br.loc(),
              "every object the container selects is refined; the step ends with refinement_postprocessing", "selection loop: " + why)
    for st in S.strategies(prog):
        f = prog.lookup_method(st, "do_refinement")
        ctx.touch(f)
        withv, bare, fall = R.return_paths(f)
        ok = bool(withv) and not bare and not fall and all(isinstance(r.ast.value, ast.Constant) and r.ast.value.value is False for r in withv)
        ctx.check(ok, "C06.D5", R.key_of(f, "never-stops-selection"), f.loc(),
                  "do_refinement returns False on every path (%d returns)" % len(withv),
                  "%s does not return the constant False on every path: the selection loop stops after the first split and the remaining "
                  "intervals within the margin are not refined" % f.qual)
    gno = prog.func(RC + ".get_next_object_for_refinement")
    ctx.touch(gno)
    _check_container_selection(prog, ctx, gno)
    eo = prog.func(S.BASE + ".evaluate_operation")
    ctx.touch(eo)
    ce = cfg_of(eo)
    tme = Terms(eo.node)
    okb = any(s.kind == "plain" and tme.term(s.value) == ("call", ("a", ("a", ("n", "self"), "refinement"), "get_max_benefit"), (), ())
              and ce.post_dominates(R.cfg_node(eo, s.stmt), ce.entry) for s in R.self_stores(eo, "benefit_max"))
    ctx.check(okb, "C06.D5", R.key_of(eo, "benefit-max-fresh"), eo.loc(), "benefit_max is re-read from the container in every evaluation",
              "evaluate_operation no longer re-reads self.benefit_max = self.refinement.get_max_benefit() on every path")
    mb = prog.func(RC + ".get_max_benefit")
    ctx.touch(mb)
    okm = False
    for loop in [l for l in walk_local(mb.node) if isinstance(l, ast.For)]:
        if R.self_attr(loop.iter, "self") == "refinementObjects" and not any(isinstance(n, (ast.Break, ast.Return)) for n in ast.walk(loop)):
            okm = True
    if not okm:
        # builtin form: max(...) over an unfiltered comprehension / generator of the benefits of all objects
        for call in [x for x in walk_local(mb.node) if isinstance(x, ast.Call) and isinstance(x.func, ast.Name) and x.func.id == "max"]:
            for comp in [x for x in ast.walk(call) if isinstance(x, (ast.GeneratorExp, ast.ListComp))]:
                g = comp.generators[0]
                if len(comp.generators) == 1 and not g.ifs and R.self_attr(g.iter, "self") == "refinementObjects" \
                        and isinstance(comp.elt, ast.Attribute) and comp.elt.attr == "benefit":
                    okm = True
    ctx.check(okm, "C06.D5", R.key_of(mb, "max-over-all"), mb.loc(), "the largest benefit is taken over all objects",
              "get_max_benefit does not scan all refinement objects")
    pp2 = prog.func(RC + ".refinement_postprocessing")
    oks = any(s.attr == "searchPosition" and s.kind == "plain" and isinstance(s.value, ast.Constant) and s.value.value == 0 for s in R.self_stores(pp2))
    ctx.check(oks, "C06.D5", R.key_of(pp2, "cursor-reset"), pp2.loc(), "the search cursor is reset after every step",
              "RefinementContainer.refinement_postprocessing no longer resets searchPosition to 0")

    # ------------------------------------------------------------------ D6
    rb = prog.func(SD + ".rebalance_interval")
    ctx.touch(rb)
    tmb2 = Terms(rb.node, max_depth=0)
    changes = []
    for st in walk_local(rb.node):
        if isinstance(st, ast.AugAssign) and isinstance(st.target, ast.Subscript) and isinstance(st.target.value, ast.Attribute) \
                and st.target.value.attr == "levels":
            changes.append(st)
    rights = [s for s in changes if tmb2.term(s.target.slice) == ("c", "1")]
    lefts = [s for s in changes if tmb2.term(s.target.slice) == ("c", "0")]
    ctx.floor("C06.D6", len(rights), 4, "level changes of right interval ends in rebalance_interval")
    for k, s in enumerate(rights + [x for x in lefts]):
        is_right = s in rights
        block = getattr(s, "_parent", None)
        sibs = []
        for fld in ("body", "orelse"):
            lst = getattr(block, fld, None)
            if isinstance(lst, list) and s in lst:
                sibs = lst
        partner = None
        for s2 in sibs:
            if s2 is s or not isinstance(s2, ast.AugAssign) or s2 not in changes:
                continue
            if type(s2.op) is type(s.op) and tmb2.term(s2.value) == tmb2.term(s.value) and \
                    tmb2.term(s2.target.slice) == (("c", "0") if is_right else ("c", "1")):
                partner = s2
        ok = partner is not None
        why = "no paired change of the neighbour's shared end in the same branch"
        if ok:
            me = s.target.value.value
            other = partner.target.value.value
            cur, nxt = (me, other) if is_right else (other, me)
            # cur is element j of get_objects()[start:end]; nxt is get_object(j + 1 + start)
            okn = False
            if isinstance(cur, ast.Name) and isinstance(nxt, ast.Name):
                loops = [l for l in R.enclosing_loops(s) if isinstance(l, ast.For)]
                for l in loops:
                    it = tmb2.term(l.iter)
                    if it[0] == "call" and it[1] == ("n", "enumerate") and len(it[2]) == 1 and it[2][0][0] == "n":
                        # the slice may be taken once before the loops:  objs = container.get_objects()[start:end]
                        bs_ = [b_ for b_ in tmb2.env.bindings.get(it[2][0][1], []) if b_.kind == "assign"]
                        if len(tmb2.env.bindings.get(it[2][0][1], [])) == 1 and len(bs_) == 1:
                            sl_ = tmb2.term(bs_[0].value)
                            if sl_[0] == "s" and sl_[2][0] == "slice":
                                it = ("call", ("n", "enumerate"), (sl_,), ())
                    if isinstance(l.target, ast.Tuple) and len(l.target.elts) == 2 and isinstance(l.target.elts[1], ast.Name) \
                            and l.target.elts[1].id == cur.id and it[0] == "call" and it[1] == ("n", "enumerate"):
                        j = l.target.elts[0].id
                        seq = it[2][0]
                        startv = seq[2][1] if seq[0] == "s" and seq[2][0] == "slice" else None
                        b = R.reaching_unique_def(rb, nxt.id, nxt)
                        if b is not None and b.kind == "assign" and startv is not None:
                            tv = tmb2.term(b.value)
                            idx = tv[2][0] if tv[0] == "call" and tv[1][0] == "a" and tv[1][2] == "get_object" and tv[2] else None
                            if idx is not None:
                                p = poly_of_term(idx) - poly_of_term(("n", j)) - poly_of_term(startv)
                                okn = p == Poly.const(1) and seq[1][0] == "call" and seq[1][1][2] == "get_objects" and seq[1][1][1] == tv[1][1]
            ok = okn
            why = "the paired object is not the successor (position j + 1 + start) of the changed interval"
        ctx.check(ok, "C06.D6", R.key_of(rb, "paired-level-change#%d" % k), rb.loc(s),
                  "`%s` is paired with the same change of the neighbouring interval's shared end point" % src(s),
                  "`%s` in rebalance_interval: %s -- adjacent intervals would disagree on the level of their shared point" % (src(s), why))
    # nothing else writes levels of an existing interval
    for fi in prog.functions.values():
        if fi.qual in (SD + ".rebalance_interval", RO + ".__init__", RO + ".set_levels"):
            continue
        for s in R.attribute_stores(fi.node):
            if s.attr == "levels" and not (isinstance(s.base, ast.Name) and s.base.id == fi.self_name and (fi.cls is None or not _related(prog, fi.cls, ro))):
                if isinstance(s.base, ast.Name) and s.base.id == fi.self_name:
                    continue
                ctx.violation("C06.D6", R.key_of(fi, "writes-levels"), fi.loc(s.stmt), "`%s` changes the end-point levels of an interval outside the rebalancing" % src(s.stmt))
    sl_callers = [fi.qual for fi in prog.functions.values() for x in R.calls_in(fi.node, method="set_levels")]
    ctx.check(not sl_callers, "C06.D6", "package::set_levels-unused", "sparseSpACE/*", "set_levels is not called anywhere",
              "set_levels is called from %s: interval levels change outside split / rebalancing" % sl_callers)
    # ------------------------------------------------------------------ D7 (shared with C03.D3)
    from .C03 import check_sorted_after_removal
    check_sorted_after_removal(prog, ctx, "C06.D7")


def _related(prog, ci, target):
    return target in ci.mro or ci in target.mro


def _check_container_selection(prog, ctx, gno):
    tm = Terms(gno.node, max_depth=0)
    c = cfg_of(gno)
    tolp = gno.params[1]
    loops = [l for l in walk_local(gno.node) if isinstance(l, ast.For)]
    problems = []
    if not loops:
        problems.append("no scan loop")
    else:
        loop = loops[0]
        it = tm.term(loop.iter)
        i = loop.target.id if isinstance(loop.target, ast.Name) else None
        if not (it[0] == "call" and it[1] == ("n", "range") and len(it[2]) == 2 and it[2][0] == ("a", ("n", "self"), "searchPosition")):
            problems.append("the scan does not start at self.searchPosition (range is %s)" % show(it))
        else:
            endv = it[2][1]
            if endv[0] == "n":
                bs = [b for b in tm.env.bindings.get(endv[1], []) if b.kind == "assign"]
                vals = set()
                for b in bs:
                    guards = [g for (g, gn) in R.dominating_guards(gno, c.node_of(b.stmt), tm) if gn.kind == "test"]
                    vals.add((tm.term(b.value), tuple(sorted(guards, key=repr))))
                sno = ("a", ("n", "self"), "startNewObjects")
                from ..terms import norm_cmp
                eq0, ne0 = norm_cmp("Eq", sno, ("c", "0")), norm_cmp("NotEq", sno, ("c", "0"))
                want = {(("call", ("a", ("n", "self"), "size"), (), ()), (eq0,)), (sno, (ne0,))}
                want2 = {(("call", ("n", "len"), (("a", ("n", "self"), "refinementObjects"),), ()), (eq0,)), (sno, (ne0,))}
                if vals not in (want, want2):
                    problems.append("the scan end is not `size() if startNewObjects == 0 else startNewObjects` (children created in this step must not be candidates)")
            else:
                problems.append("the scan end %s is not bounded by startNewObjects" % show(endv))
        rets = [n for n in c.nodes if n.kind == "stmt" and isinstance(n.ast, ast.Return) and c.in_loop(n, loop)]
        if not rets:
            problems.append("nothing is returned from the scan")
        for r in rets:
            guards = [R.resolve_locals(gno, g, gn, tm) for (g, gn) in R.dominating_guards(gno, r, tm) if gn.kind == "test" and c.in_loop(gn, loop)]
            ben = ("a", ("s", ("a", ("n", "self"), "refinementObjects"), ("n", i)), "benefit")
            if guards != [("cmp", "LtE", ("n", tolp), ben)]:
                problems.append("an object is selected under %s, required: benefit >= tolerance" % [show(g) for g in guards])
            t = R.resolve_locals(gno, tm.term(r.ast.value), r, tm)
            if not (t[0] == "tuple" and t[1] == ("c", "True") and t[2] == ("n", i) and t[3] == ("s", ("a", ("n", "self"), "refinementObjects"), ("n", i))):
                problems.append("the selected position and object are not (i, refinementObjects[i])")
            adv = [s for s in R.self_stores(gno, "searchPosition") if s.kind == "plain" and
                   tm.term(s.value) == ("op", "Add", tuple(sorted((("n", i), ("c", "1")), key=repr))) and c.dominates(c.node_of(s.stmt), r)
                   and c.in_loop(c.node_of(s.stmt), loop)]
            if not adv:
                problems.append("the cursor is not advanced past the returned object")
    ctx.check(not problems, "C06.D5", R.key_of(gno, "container-selection"), gno.loc(),
              "objects with benefit >= tolerance are returned once each, new children excluded",
              "get_next_object_for_refinement: " + "; ".join(problems))
