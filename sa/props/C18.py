"""C18 -- DataSet transformations preserve the labelled samples.

Decided structural clauses:
 D1 the refusal in concatenate depends on the scaling of the *other* data set (field-sensitive dependence)
 D2 every scaling attribute is carried along by _update_internal, and every DataSet built inside a DataSet method
    flows through self._update_internal before it is handed out
 D3 wherever samples and labels are rebuilt / permuted together, the same selector is applied to both
 D4 remove_samples rejects bad indices before it modifies the data
 D6 split_labels makes one piece per label value PRESENT in the label array (the loop ranges over the distinct values of
    self._data[1], not over a count), each piece holding exactly the samples whose label equals that value
 D5 scaling bookkeeping: an overriding / first scaling records the original extrema BEFORE the samples are transformed; a
    non-overriding scaling leaves them untouched and composes the factor; revert_scaling undoes factor then shift and resets
    every scaling attribute
 D7 ownership of the sample / label arrays: arrays are shared between a DataSet and the sets derived from it (split_pieces hands
    out label views, shift_value / scale_factor keep the label array, copy() shares both), so no DataSet operation may store into
    the elements of a data array in place unless the DataSet owning it was built from fresh arrays in the same function
Not decided: min/max land on the range ends, revert restores the samples (numerical), multiset preservation as a value property."""
import ast

from ..cfg import cfg_of, walk_local
from ..loader import AnalysisError, src
from ..terms import Terms, terms_of, show, subterms, contains
from .. import rules as R

EXPLANATION = ("Static analysis of DEMachineLearning.DataSet: field-sensitive dependence of the refusal guard in concatenate, "
               "set inclusion of scaling attributes between the scaling methods and _update_internal, must-flow of constructed "
               "DataSets through _update_internal, selector-term equality between the sample and the label component "
               "(parallel arrays), and dominance of the rejection over the store in remove_samples.")

DS = "DEMachineLearning.DataSet"
SCALING_GETTERS = {"is_scaled", "get_scaling_range", "get_scaling_factor", "get_original_min", "get_original_max"}
SCALING_METHODS = ("scale_range", "scale_factor", "shift_value", "revert_scaling")


def _replace(t, old, new):
    if t == old:
        return new
    if isinstance(t, tuple):
        return tuple(_replace(x, old, new) for x in t)
    return t


def _strip_array(t):
    """np.array(x) / np.asarray(x) / x.copy() / tuple / list wrappers keep element identity."""
    while True:
        if t[0] == "call" and t[1] in (("a", ("n", "np"), "array"), ("a", ("n", "np"), "asarray")) and t[2]:
            t = t[2][0]
            continue
        if t[0] == "copy":
            t = t[2]
            continue
        return t


def run(prog, ctx):
    ds = prog.cls(DS)
    conc = prog.func(DS + ".concatenate")
    upd = prog.func(DS + "._update_internal")
    ctx.touch(conc, upd)

    # ------------------------------------------------------------------ D1
    other = conc.params[1]
    c = cfg_of(conc)
    tm = Terms(conc.node)
    raises = [n for n in c.nodes if n.kind == "stmt" and isinstance(n.ast, ast.Raise) and n.idx in c.reachable()]
    scaling_attrs = _scaling_attrs(prog, ds)
    dep = False
    seen_guards = []
    for r in raises:
        for (t, tn) in R.dominating_guards(conc, r):
            seen_guards.append(show(t))
            for x in subterms(t):
                if x[0] == "call" and x[1][0] == "a" and x[1][2] == "same_scaling":
                    recv, args = x[1][1], x[2]
                    ops = [recv] + list(args)
                    if ("n", other) in ops and (("n", conc.self_name) in ops):
                        dep = True
                if x[0] == "a" and x[1] == ("n", other) and x[2] in scaling_attrs:
                    dep = True
                if x[0] == "call" and x[1][0] == "a" and x[1][1] == ("n", other) and x[1][2] in SCALING_GETTERS:
                    dep = True
    ctx.check(bool(raises), "C18.D1", R.key_of(conc, "refusal-present"), conc.loc(),
              "concatenate can refuse (raises)", "DataSet.concatenate no longer refuses anything: it contains no reachable raise statement")
    if raises:
        ctx.check(dep, "C18.D1", R.key_of(conc, "refusal-depends-on-other-scaling"), conc.loc(raises[-1].ast) if raises else conc.loc(),
                  "a refusal in concatenate is guarded by a comparison of self's scaling with the other data set's scaling",
                  "no refusal in concatenate depends on a scaling attribute of `%s`: the scaling test is applied to an object whose "
                  "scaling attributes were copied from self (self is compared with itself), so data sets with different scalings "
                  "are concatenated silently; guards seen: %s" % (other, seen_guards[:5]))

    # ------------------------------------------------------------------ D2
    carried = set()
    up = upd.params[1]
    for s in R.attribute_stores(upd.node):
        if isinstance(s.base, ast.Name) and s.base.id == up:
            carried.add(s.attr)
    changed = {}
    for mname in SCALING_METHODS:
        fi = prog.func(DS + "." + mname)
        ctx.touch(fi)
        for s in R.self_stores(fi):
            if s.attr not in ("_data",):
                changed.setdefault(s.attr, set()).add(mname)
    ctx.floor("C18.D2", len(changed), 5, "scaling attributes written by the scaling methods")
    for attr, by in sorted(changed.items()):
        ctx.check(attr in carried, "C18.D2", "%s._update_internal::carries:%s" % (DS, attr), upd.loc(),
                  "written by %s and carried along by _update_internal" % sorted(by),
                  "scaling attribute %s (written by %s) is not copied by _update_internal: derived data sets lose it"
                  % (attr, sorted(by)))
    # the copied value is the attribute of the same name (no cross-wiring)
    tmu = Terms(upd.node)
    for s in R.attribute_stores(upd.node):
        if isinstance(s.base, ast.Name) and s.base.id == up and s.value is not None and s.attr in changed:
            t = R.resolve_locals(upd, Terms(upd.node, max_depth=0).term(s.value), cfg_of(upd).node_of(s.stmt), Terms(upd.node, max_depth=0))
            srcattr = ("a", ("n", upd.self_name), s.attr)

            def same(t_):
                return _strip_array(t_) == srcattr or (t_[0] == "call" and t_[1] == ("a", srcattr, "copy"))
            # `X.copy() if c else X`: both arms have to be the attribute of the same name
            good = same(t) or (t[0] == "ifexp" and same(t[2]) and same(t[3]))
            ctx.check(good, "C18.D2", "%s._update_internal::copies-same:%s" % (DS, s.attr), upd.loc(s.stmt),
                      "copied from the attribute of the same name",
                      "`%s` does not copy self.%s" % (src(s.stmt), s.attr))
    # constructor sites inside DataSet methods flow through self._update_internal
    nsites = 0
    for mname, fi in sorted(ds.methods.items()):
        for call in [n for n in walk_local(fi.node) if isinstance(n, ast.Call)]:
            if prog.resolve_class_expr(fi.module.name, call.func, ds) is not ds:
                continue
            if mname in ("copy", "__init__"):
                continue
            if fi.is_static and mname == "list_concatenate":
                continue        # the empty result of list_concatenate([]) has no scaling to inherit
            nsites += 1
            ctx.touch(fi)
            key = R.key_of(fi, "constructed#%d" % sum(1 for i in ctx.instances if i.rule == "C18.D2" and i.key.startswith(fi.qual + "::constructed")))
            par = getattr(call, "_parent", None)
            ok = False
            how = ""
            if isinstance(par, ast.Call) and isinstance(par.func, ast.Attribute) and par.func.attr == "_update_internal" \
                    and R.self_attr(par.func, fi.self_name) == "_update_internal" and par.args and par.args[0] is call:
                ok, how = True, "argument of self._update_internal"
            elif isinstance(par, ast.Assign) and len(par.targets) == 1 and isinstance(par.targets[0], ast.Name):
                local = par.targets[0].id
                cf = cfg_of(fi)
                defn = cf.node_of(par)
                ups = []
                for uc in R.calls_in(fi.node, method="_update_internal"):
                    if R.self_attr(uc.func, fi.self_name) == "_update_internal" and uc.args and isinstance(uc.args[0], ast.Name) \
                            and uc.args[0].id == local:
                        ups.append(R.cfg_node(fi, uc))
                # every path from the construction to a normal exit / next loop iteration passes an update of that local
                targets = [cf.exit]
                for l in defn.loops:
                    hn = cf.node_of(l) if isinstance(l, ast.For) else None
                    if hn is not None:
                        targets.append(hn)
                ok = bool(ups) and cf.must_pass_through(defn, targets, ups)
                how = "local `%s` passed to self._update_internal on every path" % local
            ctx.check(ok, "C18.D2", key, fi.loc(call),
                      "constructed DataSet inherits the scaling attributes (%s)" % how,
                      "`%s` builds a DataSet that is handed out without self._update_internal(...): it loses the scaling attributes"
                      % src(call))
    ctx.floor("C18.D2.sites", nsites, 4, "DataSet constructor sites in DataSet methods")

    # ------------------------------------------------------------------ D3
    D0 = ("s", ("a", ("n", "self"), "_data"), ("c", "0"))
    D1 = ("s", ("a", ("n", "self"), "_data"), ("c", "1"))
    n3 = 0
    # remove_samples: same np.delete selector on both components
    rs = prog.func(DS + ".remove_samples")
    ctx.touch(rs)
    tmr = Terms(rs.node)
    for s in R.self_stores(rs, "_data"):
        t = tmr.term(s.value)
        pair = _pair(t)
        n3 += 1
        ok = pair is not None and _replace(pair[0], D0, ("$D",)) == _replace(pair[1], D1, ("$D",)) and contains(pair[0], D0)
        ctx.check(ok, "C18.D3", R.key_of(rs, "aligned:_data"), rs.loc(s.stmt),
                  "samples and labels are deleted with the same selector",
                  "`%s` applies different selectors to samples and labels" % src(s.stmt))
    # the removed singletons pair sample i with label i
    for call in [n for n in ast.walk(rs.node) if isinstance(n, ast.Call) and prog.resolve_class_expr(rs.module.name, n.func, ds) is ds]:
        t = tmr.term(call.args[0]) if call.args else ("?",)
        pair = _pair(t)
        n3 += 1
        ok = pair is not None and _replace(_strip_array(pair[0]), D0, ("$D",)) == _replace(_strip_array(pair[1]), D1, ("$D",))
        ctx.check(ok, "C18.D3", R.key_of(rs, "aligned:removed-sample"), rs.loc(call),
                  "each removed sample is paired with the label at the same index",
                  "`%s` pairs a sample with the label of a different index" % src(call))
    # split_pieces: same slice on both components; the two pieces are complementary
    sp = prog.func(DS + ".split_pieces")
    ctx.touch(sp)
    tms = Terms(sp.node)
    slices = []
    for call in [n for n in walk_local(sp.node) if isinstance(n, ast.Call) and prog.resolve_class_expr(sp.module.name, n.func, ds) is ds]:
        pair = _pair(tms.term(call.args[0])) if call.args else None
        n3 += 1
        ok = pair is not None
        if ok:
            a, b = _strip_array(pair[0]), _strip_array(pair[1])
            ok = a[0] == "s" and b[0] == "s" and a[1] == D0 and b[1] == D1 and a[2] == b[2] and a[2][0] == "slice"
            if ok:
                slices.append(a[2])
        ctx.check(ok, "C18.D3", R.key_of(sp, "aligned:piece#%d" % len(slices)), sp.loc(call),
                  "samples and labels of the piece use the same slice",
                  "`%s` slices samples and labels differently" % src(call))
    n3 += 1
    none = ("c", "None")
    okc = len(slices) == 2 and {slices[0][1], slices[1][2]} == {none} and slices[0][2] == slices[1][1] and slices[0][3] == slices[1][3] == none
    ctx.check(okc, "C18.D3", R.key_of(sp, "complementary"), sp.loc(),
              "the two pieces are [:k] and [k:] with the same k",
              "the two pieces of split_pieces are not complementary slices [:k] / [k:] (found %s)" % [show(s) for s in slices])
    # split_without_labels: predicates on the label of the same sample
    sw = prog.func(DS + ".split_without_labels")
    ctx.touch(sw)
    preds = _label_filters(sw, D0, D1)
    n3 += 1
    full = [p for p in preds if p[0] == "full"]
    ok = len(full) == 2 and full[0][2] == full[1][2] and {full[0][1], full[1][1]} == {"samples", "labels"}
    ctx.check(ok, "C18.D3", R.key_of(sw, "aligned:labelled"), sw.loc(),
              "labelled samples and their labels are selected by the same predicate on the label",
              "split_without_labels selects labelled samples and labels with different predicates: %s" % [(p[1], show(p[2])) for p in preds])
    less = [p for p in preds if p[0] == "less"]
    lessp = ("cmp", "Eq", ("$L",), ("c", "-1"))
    fullp = ("cmp", "LtE", ("c", "0"), ("$L",))
    n3 += 1
    ok = len(less) == 1 and _norm_pred(less[0][2]) == _norm_pred(lessp) and all(_norm_pred(p[2]) == _norm_pred(fullp) for p in full)
    ctx.check(ok, "C18.D3", R.key_of(sw, "partition"), sw.loc(),
              "label == -1 / label >= 0 partition the samples",
              "the predicates of split_without_labels do not partition the samples into label == -1 and label >= 0: %s"
              % [(p[0], show(p[2])) for p in preds])
    # shuffle: both components rebuilt from one zipped, shuffled sequence
    sh = prog.func(DS + ".shuffle")
    ctx.touch(sh)
    tmh = Terms(sh.node)
    for s in R.self_stores(sh, "_data"):
        n3 += 1
        t = tmh.term(s.value)
        pair = _pair(t)
        ok = False
        if pair is not None:
            comps = [[x for x in subterms(p) if x[0] == "comp"] for p in pair]
            if comps[0] and comps[1]:
                outer0, outer1 = comps[0][0], comps[1][0]
                it0, it1 = outer0[3][0][1], outer1[3][0][1]
                zipped = ("call", ("n", "zip"), (D0, D1), ())
                # element k of each zipped pair: pair[k] with a single loop variable, or the k-th variable of an unpacking target
                def comp_of(outer, k):
                    tgt = outer[3][0][0]
                    if tgt[0] == "tuple" and len(tgt) == 3:
                        return contains(outer[2], tgt[1 + k]) and not contains(outer[2], tgt[2 - k])
                    return contains(outer[2], ("s", ("bv", "$0"), ("c", str(k))))
                ok = it0 == it1 and contains(it0, zipped) and comp_of(outer0, 0) and comp_of(outer1, 1)
        ctx.check(ok, "C18.D3", R.key_of(sh, "aligned:_data"), sh.loc(s.stmt),
                  "samples and labels are taken from the same shuffled sequence of (sample, label) pairs",
                  "`%s` does not rebuild samples and labels from one shuffled sequence of zipped pairs" % src(s.stmt))
    # move_boundaries_to_front: same index pairs in both swaps
    mv = prog.func(DS + ".move_boundaries_to_front")
    ctx.touch(mv)
    tmm = Terms(mv.node)
    swaps = {}
    perm_swaps = {}
    gathers = []
    for st in [n for n in walk_local(mv.node) if isinstance(n, ast.Assign)]:
        tg = st.targets[0]
        if isinstance(tg, ast.Subscript):
            tt = tmm.term(tg)
            tv = tmm.term(st.value)
            if tt[0] == "s" and tv[0] == "s" and tt[1] == tv[1]:
                if tt[1] in (D0, D1):
                    swaps[tt[1]] = (tt[2], tv[2], st)
                elif tt[1][0] == "n":
                    perm_swaps.setdefault(tt[1][1], []).append((tt[2], tv[2]))
    for s_ in R.self_stores(mv, "_data"):
        if s_.kind == "plain" and s_.value is not None:
            gathers.append(s_)
    n3 += 1

    def mirrored(l, r):
        return l[0] == "list" and r[0] == "list" and len(l) == 3 and (l[1], l[2]) == (r[2], r[1])
    notes = []
    if gathers:
        # re-assignment forms: self._data = (samples[order], labels[order]) with ONE index vector that starts as arange(n) and is only
        # changed by exchanging two of its entries (so it stays a permutation of all positions); or private copies of both arrays that
        # receive the same exchanges before they are stored
        ok = not swaps

        def modified_otherwise(nm):
            for st in walk_local(mv.node):
                if isinstance(st, ast.AugAssign) and any(isinstance(x, ast.Name) and x.id == nm for x in ast.walk(st.target)):
                    return True
                if isinstance(st, ast.Expr) and isinstance(st.value, ast.Call) and isinstance(st.value.func, ast.Attribute) \
                        and isinstance(st.value.func.value, ast.Name) and st.value.func.value.id == nm:
                    return True
            return False

        def descriptor(e, Dk):
            t = tmm.term(e)
            if t[0] == "s" and t[1][0] == "n":
                # samples = self._data[0] ... samples[order]
                b_ = tmm.env.bindings.get(t[1][1], [])
                if len(b_) == 1 and b_[0].kind == "assign" and b_[0].value is not None and tmm.term(b_[0].value) == Dk:
                    t = ("s", Dk, t[2])
            if t[0] == "s" and t[1] == Dk and isinstance(e, ast.Subscript) and isinstance(e.slice, ast.Name):
                onm = e.slice.id
                bs = tmm.env.bindings.get(onm, [])
                starts = [b for b in bs if b.kind == "assign" and isinstance(b.value, ast.Call) and isinstance(b.value.func, ast.Attribute)
                          and b.value.func.attr == "arange" and len(b.value.args) == 1]
                if len(bs) == 1 and len(starts) == 1 and perm_swaps.get(onm) and all(mirrored(l, r) for (l, r) in perm_swaps[onm]) \
                        and not modified_otherwise(onm):
                    return ("gather", onm)
                # order = concatenate((B, setdiff1d(arange(n), B))) with a duplicate-free B (B = np.unique(...) / built from a set):
                # B first, every other position once
                def only_def(nm):
                    b_ = tmm.env.bindings.get(nm, [])
                    return b_[0].value if len(b_) == 1 and b_[0].kind == "assign" else None

                def callname(e_):
                    return e_.func.attr if isinstance(e_, ast.Call) and isinstance(e_.func, ast.Attribute) else \
                        (e_.func.id if isinstance(e_, ast.Call) and isinstance(e_.func, ast.Name) else None)
                ov = only_def(onm)
                if callname(ov) == "concatenate" and len(ov.args) >= 1 and isinstance(ov.args[0], (ast.Tuple, ast.List)) and len(ov.args[0].elts) == 2 \
                        and not modified_otherwise(onm) and not perm_swaps.get(onm):
                    B, rest = ov.args[0].elts
                    restv = only_def(rest.id) if isinstance(rest, ast.Name) else rest
                    if isinstance(B, ast.Name) and callname(restv) == "setdiff1d" and len(restv.args) == 2 and callname(restv.args[0]) == "arange" \
                            and isinstance(restv.args[1], ast.Name) and restv.args[1].id == B.id and not modified_otherwise(B.id):
                        bv = only_def(B.id)
                        dupfree = callname(bv) == "unique" or (callname(bv) in ("list", "array", "sorted", "fromiter") and bv.args and (
                            callname(bv.args[0]) == "set" or isinstance(bv.args[0], (ast.Set, ast.SetComp))
                            or (isinstance(bv.args[0], ast.BinOp) and isinstance(bv.args[0].op, ast.BitOr))))
                        if dupfree:
                            return ("gather-front", B.id)
                        notes.append("`%s = %s` can contain a position twice (only a np.unique(...) / set result is duplicate-free): the index vector "
                                     "`%s` is then no permutation, samples are duplicated and the length grows" % (B.id, src(bv) if bv is not None else "?", onm))
                return None
            if isinstance(e, ast.Name):
                bs = tmm.env.bindings.get(e.id, [])
                if len(bs) == 1 and bs[0].kind == "assign" and isinstance(bs[0].value, ast.Call):
                    c = bs[0].value
                    src_ = None
                    if isinstance(c.func, ast.Attribute) and c.func.attr == "copy" and not c.args:
                        src_ = tmm.term(c.func.value)
                    elif isinstance(c.func, ast.Attribute) and c.func.attr == "array" and len(c.args) == 1:
                        src_ = tmm.term(c.args[0])
                    if src_ == Dk and perm_swaps.get(e.id) and all(mirrored(l, r) for (l, r) in perm_swaps[e.id]) and not modified_otherwise(e.id):
                        return ("copyswap", tuple(perm_swaps[e.id]))
            return None
        for s_ in gathers:
            v = s_.value
            elts = None
            if isinstance(v, ast.Call) and isinstance(v.func, ast.Name) and v.func.id == "tuple" and v.args and isinstance(v.args[0], (ast.List, ast.Tuple)):
                elts = v.args[0].elts
            elif isinstance(v, ast.Tuple):
                elts = v.elts
            if not elts or len(elts) != 2:
                ok = False
                continue
            d0, d1 = descriptor(elts[0], D0), descriptor(elts[1], D1)
            ok = ok and d0 is not None and d0 == d1
    else:
        ok = D0 in swaps and D1 in swaps and swaps[D0][0] == swaps[D1][0] and swaps[D0][1] == swaps[D1][1]
        if ok:
            ok = mirrored(swaps[D0][0], swaps[D0][1])
    ctx.check(ok, "C18.D3", R.key_of(mv, "aligned:swap"), mv.loc(),
              "samples and labels are reordered with the same permutation (one index vector built from arange by exchanging pairs, or the same "
              "exchange applied to both arrays)",
              "move_boundaries_to_front does not reorder samples and labels with the same permutation of all positions"
              + ("".join(": " + x for x in notes[:1])))
    ctx.floor("C18.D3", n3, 5, "parallel-array instances")

    # ------------------------------------------------------------------ D5
    check_bookkeeping(prog, ctx, ds)
    # ------------------------------------------------------------------ D6
    check_split_labels(prog, ctx, ds, D0, D1)
    # ------------------------------------------------------------------ D7
    check_no_inplace_on_shared_arrays(prog, ctx, ds)

    # ------------------------------------------------------------------ D4
    cr = cfg_of(rs)
    stores = [R.cfg_node(rs, s.stmt) for s in R.self_stores(rs, "_data")]
    ctx.floor("C18.D4", len(stores), 1, "stores to _data in remove_samples")
    idxp = rs.params[1]
    rais = [n for n in cr.nodes if n.kind == "stmt" and isinstance(n.ast, ast.Raise) and n.idx in cr.reachable()]
    for stn in stores:
        # (a) a bounds test over the indices whose failing edge raises dominates the store
        guard_ok = False
        neg_ok = False
        for n in cr.nodes:
            if n.kind != "test":
                continue
            t = tmr.term(n.ast)
            if not any(x == ("n", idxp) for x in subterms(t)):
                continue
            true_succ = [s for (s, l) in n.succ if l is True]
            raises_on_true = all(cr.must_pass_through(n, [cr.exit] + stores, rais) for _ in [0]) if False else None
            # the True edge must lead to a raise before any store: remove False edge and test reachability of the store
            r = cr.reachable(blocked_edges={(n.idx, s.idx, l) for (s, l) in n.succ if l is False})
            if stn.idx not in r and cr.edge_dominates(n, False, stn):
                guard_ok = True
                cmps = [x for x in subterms(t) if x[0] == "cmp" and x[1] in ("Lt", "LtE")]
                # bv < 0  (negative indices refused) and  len < bv / len <= bv (too large refused)
                neg_ok = any(x[3] == ("c", "0") and x[2][0] == "bv" and x[1] == "Lt" for x in cmps)
        ctx.check(guard_ok and neg_ok, "C18.D4", R.key_of(rs, "reject-before-store"), rs.loc(stn.ast),
                  "a bounds test over the indices that raises dominates the store to _data (negative indices are refused)",
                  "the store to _data in remove_samples is not dominated by a raising bounds test over `%s` that refuses negative "
                  "indices: out-of-range indices modify the data" % idxp)
        # (b) the element access that raises IndexError for too-large indices precedes the store
        acc_ok = False
        for n in cr.nodes:
            if n.kind == "stmt" and n is not stn and cr.dominates(n, stn):
                for comp in [x for x in ast.walk(n.ast) if isinstance(x, (ast.ListComp, ast.GeneratorExp))]:
                    g = comp.generators[0]
                    if isinstance(g.iter, ast.Name) and g.iter.id == idxp and isinstance(g.target, ast.Name):
                        iv = g.target.id
                        for sub in ast.walk(comp.elt):
                            if isinstance(sub, ast.Subscript) and isinstance(sub.slice, ast.Name) and sub.slice.id == iv:
                                if tmr.term(sub.value) in (D0, D1):
                                    acc_ok = True
        # or the bounds test itself is strict enough:  i >= len
        strict = False
        for n in cr.nodes:
            if n.kind == "test":
                t = tmr.term(n.ast)
                for x in subterms(t):
                    if x[0] == "cmp" and x[1] == "LtE" and x[3][0] == "bv" and x[2][0] == "call" and x[2][1][0] == "a" and x[2][1][2] == "get_length":
                        strict = True
        ctx.check(acc_ok or strict, "C18.D4", R.key_of(rs, "too-large-rejected-before-store"), rs.loc(stn.ast),
                  "an index equal to the length is rejected (bounds test or element access) before the store",
                  "an index >= length reaches np.delete: neither a strict bounds test nor the per-index element access dominates the store")


def check_bookkeeping(prog, ctx, ds):
    sattrs = _scaling_attrs(prog, ds)
    for mname in ("scale_factor", "shift_value", "scale_range"):
        fi = prog.func(DS + "." + mname)
        tm = Terms(fi.node, max_depth=0)
        c = cfg_of(fi)
        ov = fi.params[2] if len(fi.params) > 2 else "override_scaling"
        # branch membership by evaluating the tests on (override_scaling, self._scaled) under the four assignments: the composing
        # branch is what runs for (override False, scaled True); the first / overriding branch what runs otherwise
        SC = ("a", ("n", fi.self_name), "_scaled")
        OV = ("n", ov)
        atoms_seen = set()

        tdeep_ = Terms(fi.node)

        def truth(t, sigma, depth=0):
            if t == OV:
                return sigma[0]
            if t == SC:
                return sigma[1]
            if t[0] == "n" and t[1] not in fi.params and depth < 3:
                b_ = tm.env.single(t[1])
                if b_ is not None and b_.kind == "assign" and b_.value is not None:
                    return truth(tm.term(b_.value), sigma, depth + 1)     # a flag computed once at the top
                return None
            if t[0] == "call" and t[1] == ("n", "bool") and len(t[2]) == 1:
                return truth(t[2][0], sigma, depth)
            if t[0] == "bool" and t[1] in ("and", "or"):
                vals = [truth(x, sigma, depth) for x in t[2]]
                if t[1] == "or":
                    return True if any(v is True for v in vals) else (None if any(v is None for v in vals) else False)
                return False if any(v is False for v in vals) else (None if any(v is None for v in vals) else True)
            if t[0] == "not":
                v = truth(t[1], sigma)
                return None if v is None else (not v)
            if t[0] == "cmp" and t[1] == "Is" and t[3] in (("c", "True"), ("c", "False")):
                v = truth(t[2], sigma)
                return None if v is None else (v == (t[3] == ("c", "True")))
            return None
        reach = {}
        blocked_of = {}
        for sigma in ((False, True), (True, True), (True, False), (False, False)):
            blocked = set()
            for n in c.nodes:
                if n.kind == "test":
                    v = truth(tm.term(n.ast), sigma)
                    if v is not None:
                        atoms_seen.add(n.idx)
                        for (sx, l) in n.succ:
                            if l is (not v):
                                blocked.add((n.idx, sx.idx, l))
            reach[sigma] = c.reachable(blocked_edges=blocked)
            blocked_of[sigma] = blocked
        if not atoms_seen:
            raise AnalysisError("C18.D5: %s no longer branches on self._scaled / %s" % (fi.qual, ov))

        def branch_of(node):
            in_comp = node.idx in reach[(False, True)]
            in_over = any(node.idx in reach[sg] for sg in ((True, True), (True, False), (False, False)))
            if in_comp and not in_over:
                return "compose"
            if in_over and not in_comp:
                return "override"
            return None
        stores = {"override": {}, "compose": {}}
        data_nodes = {"override": [], "compose": []}
        for s_ in R.self_stores(fi):
            n = c.node_of(s_.stmt)
            b = branch_of(n)
            if b is None:
                # executed for the first / overriding scaling AND for a composing one (code shared by both, outside the branches)
                both = n is not None and n.idx in reach[(False, True)] and any(n.idx in reach[sg] for sg in ((True, True), (True, False), (False, False)))
                bl = ["override", "compose"] if both else []
            else:
                bl = [b]
            for b in bl:
                if s_.attr == "_data":
                    data_nodes[b].append(n)
                else:
                    stores[b].setdefault(s_.attr, []).append((s_, n))
        # override branch: records the original extrema before the data is transformed (scale_range takes them from the fitted scaler)
        ovs = stores["override"]
        need = {"_scaled", "_scaling_range", "_scaling_factor", "_original_min", "_original_max"}
        ok = need <= set(ovs)
        why = "the first / overriding scaling does not store %s" % sorted(need - set(ovs))
        if ok:
            for a in ("_original_min", "_original_max"):
                for (s_, n) in ovs[a]:
                    t = tm.term(s_.value)
                    from_data = t[0] == "call" and t[1][0] == "a" and t[1][1] == ("n", "self") and t[1][2] in ("get_min_data", "get_max_data")
                    from_scaler = t[0] == "a" and t[2] in ("data_min_", "data_max_")
                    want = {"_original_min": ("get_min_data", "data_min_"), "_original_max": ("get_max_data", "data_max_")}[a]
                    if from_data:
                        if t[1][2] != want[0]:
                            ok, why = False, "%s is taken from %s" % (a, t[1][2])
                        # on every path of a first / overriding scaling the extremum is recorded before the samples are replaced
                        def before_data(n_, dn_):
                            if n_ is dn_:
                                return False
                            if c.dominates(n_, dn_):
                                return True
                            for sg in ((True, True), (True, False), (False, False)):
                                if dn_.idx in reach[sg] and dn_.idx in c.reachable(blocked=[n_], blocked_edges=blocked_of[sg]):
                                    return False
                            return True
                        if not all(before_data(n, dn) for dn in data_nodes["override"]):
                            ok, why = False, "%s is read from the samples after they were already transformed" % a
                    elif from_scaler:
                        if t[2] != want[1]:
                            ok, why = False, "%s is taken from scaler.%s" % (a, t[2])
                    else:
                        ok, why = False, "%s = %s is not the extremum of the untransformed samples" % (a, show(t))
            sc = [tm.term(s_.value) for (s_, n) in ovs["_scaled"]]
            if sc != [("c", "True")]:
                ok, why = False, "_scaled is not set to True"
        ctx.check(ok, "C18.D5", R.key_of(fi, "override-records-original"), fi.loc(),
                  "a first / overriding scaling records the extrema of the untransformed samples and marks the set as scaled",
                  "%s: %s" % (fi.name, why))
        # compose branch: original extrema untouched, factor composed
        cps = stores["compose"]
        ok = not ({"_original_min", "_original_max", "_scaled"} & set(cps))
        why = "a non-overriding scaling overwrites %s: revert_scaling can no longer restore the samples as they were before the first scaling" % sorted({"_original_min", "_original_max", "_scaled"} & set(cps))
        if ok and mname in ("scale_factor", "scale_range"):
            fs = cps.get("_scaling_factor", [])
            def composes(st_):
                if st_.kind == "aug":
                    return isinstance(st_.stmt.op, ast.Mult)
                v_ = st_.value                       # re-binding form  self._scaling_factor = self._scaling_factor * e  (either order)
                return st_.kind == "plain" and isinstance(v_, ast.BinOp) and isinstance(v_.op, ast.Mult) and \
                    any(R.self_attr(side, fi.self_name) == "_scaling_factor" for side in (v_.left, v_.right))
            ok = len(fs) == 1 and composes(fs[0][0])
            why = "a non-overriding %s does not compose the scaling factor multiplicatively" % mname
        ctx.check(ok, "C18.D5", R.key_of(fi, "compose-keeps-original"), fi.loc(),
                  "a non-overriding scaling keeps the recorded original extrema and composes the factor", "%s: %s" % (fi.name, why))
    # revert: factor first, then shift back to the original minimum, then reset every scaling attribute
    rv = prog.func(DS + ".revert_scaling")
    tmr = Terms(rv.node, max_depth=0)
    cr = cfg_of(rv)
    calls = [(x, cr.node_containing(x)) for x in R.calls_in(rv.node) if isinstance(x.func, ast.Attribute) and x.func.attr in ("scale_factor", "shift_value")
             and R.attr_chain(x.func.value) == ["self"]]
    ok = [x.func.attr for (x, n) in sorted(calls, key=lambda p: p[1].idx)] == ["scale_factor", "shift_value"]
    why = "revert_scaling does not undo the factor and then the shift"
    if ok:
        f_arg = tmr.term(calls[0][0].args[0] if calls[0][0].func.attr == "scale_factor" else calls[1][0].args[0])
        sf = [x for (x, n) in calls if x.func.attr == "scale_factor"][0]
        sh = [x for (x, n) in calls if x.func.attr == "shift_value"][0]
        sfa = R.resolve_locals(rv, tmr.term(sf.args[0]), cr.node_containing(sf), tmr)        # temporaries are looked through
        sha = R.resolve_locals(rv, tmr.term(sh.args[0]), cr.node_containing(sh), tmr)
        okf = sfa in (("op", "Div", (("c", "1.0"), ("a", ("n", "self"), "_scaling_factor"))), ("op", "Div", (("c", "1"), ("a", ("n", "self"), "_scaling_factor"))))
        oksh = sha in (("neg", ("op", "Sub", (("call", ("a", ("n", "self"), "get_min_data"), (), ()), ("a", ("n", "self"), "_original_min")))),
                       ("op", "Sub", (("a", ("n", "self"), "_original_min"), ("call", ("a", ("n", "self"), "get_min_data"), (), ()))))
        # the minimum that is shifted back must be the minimum AFTER the factor was undone: a temporary holding get_min_data() has to be
        # defined after the scale_factor call
        for x_ in ast.walk(sh.args[0]):
            if isinstance(x_, ast.Name):
                bd_ = R.reaching_unique_def(rv, x_.id, x_)
                if bd_ is not None and bd_.kind == "assign" and any(isinstance(y_, ast.Attribute) and y_.attr == "get_min_data" for y_ in ast.walk(bd_.value)):
                    if cr.node_of(bd_.stmt).idx not in cr.reachable_after(cr.node_containing(sf)):
                        oksh = False
        from ..callnorm import bound_argument
        ovs = [bound_argument(prog, rv, x, "override_scaling") for (x, n) in calls]
        nonover = all(o is None or (isinstance(o, ast.Constant) and o.value is False) for o in ovs)
        ok = okf and oksh and nonover
        why = "revert_scaling: factor undone by 1/_scaling_factor=%s, shift back to _original_min=%s, non-overriding calls=%s" % (okf, oksh, nonover)
    resets = {s_.attr for s_ in R.self_stores(rv) if s_.kind == "plain" and isinstance(s_.value, ast.Constant) and s_.value.value in (None, False)
              and all(cr.node_of(s_.stmt).idx in cr.reachable_after(n) for (x, n) in calls)}
    missing = sattrs - resets
    ctx.check(ok and not missing, "C18.D5", R.key_of(rv, "revert"), rv.loc(),
              "revert undoes factor then shift with non-overriding calls and afterwards resets every scaling attribute",
              why if not ok else "revert_scaling does not reset %s after undoing the scaling" % sorted(missing))


def _inline_getters(ds, t, self_name, depth=0):
    """self.getter() -> the getter's returned term, for single-return, argument-less methods of the class."""
    if not isinstance(t, tuple) or depth > 3:
        return t
    if len(t) == 4 and t[0] == "call" and t[1][0] == "a" and t[1][1] == ("n", self_name) and not t[2] and not t[3]:
        g = ds.methods.get(t[1][2])
        if g is not None and g.self_name is not None:
            body = [st for st in R.flat_body(g.node) if not isinstance(st, ast.Expr)]        # docstring, bare calls (logging)
            if len(body) == 1 and isinstance(body[0], ast.Return) and body[0].value is not None:
                rt = Terms(g.node).term(body[0].value)
                rt = _replace(rt, ("n", g.self_name), ("n", self_name))
                return _inline_getters(ds, rt, self_name, depth + 1)
    return tuple(_inline_getters(ds, x, self_name, depth) for x in t)


def _is_label_domain(t, D1):
    """the distinct values of the label array: set(L) / np.unique(L), possibly wrapped in list / tuple / sorted"""
    while True:
        if t[0] == "copy" and t[1] in ("list", "tuple"):
            t = t[2]
        elif t[0] == "call" and t[1] in (("n", "sorted"), ("n", "list"), ("n", "tuple")) and len(t[2]) == 1:
            t = t[2][0]
        else:
            break
    if t[0] == "copy" and t[1] == "set":
        return t[2] == D1
    if t[0] == "call" and t[1] in (("n", "set"), ("n", "frozenset"), ("a", ("n", "np"), "unique"), ("a", ("n", "numpy"), "unique")) and len(t[2]) == 1:
        return t[2][0] == D1
    return False


def check_split_labels(prog, ctx, ds, D0, D1):
    fi = ds.methods.get("split_labels")
    if fi is None:
        raise AnalysisError("anchor vanished: DataSet.split_labels")
    ctx.touch(fi)
    tm = Terms(fi.node)
    n = 0
    for loop in [x for x in walk_local(fi.node) if isinstance(x, ast.For)]:
        ctors = [c for c in R.calls_in(loop) if isinstance(c.func, ast.Name) and c.func.id == "DataSet"]
        if not ctors:
            continue
        n += 1
        it = _inline_getters(ds, tm.term(loop.iter), fi.self_name)
        ctx.check(_is_label_domain(it, D1), "C18.D6", R.key_of(fi, "one-piece-per-present-label"), fi.loc(loop),
                  "the pieces range over the distinct values of the label array",
                  "split_labels iterates over `%s` (= %s), not over the distinct values of self._data[1]: samples whose label is not "
                  "produced by that iterable (unlabelled samples, gaps, labels not starting at 0) are dropped" % (src(loop.iter), show(it)))
        lv = tm.term(ast.Name(id=loop.target.id, ctx=ast.Load())) if isinstance(loop.target, ast.Name) else ("elem", tm.term(loop.iter))
        for c in ctors:
            pair = _pair(tm.term(c.args[0])) if c.args else None
            ok = False
            detail = "the constructor argument is not a (samples, labels) pair"
            if pair is not None:
                smp = _strip_array(pair[0])
                eqs = (("cmp", "Eq", lv, ("s", D1, ("bv", "$0"))), ("cmp", "Eq", ("s", D1, ("bv", "$0")), lv))
                by_comp = smp[0] == "comp" and smp[2] == ("bv", "$1") and len(smp[3]) == 1 \
                    and smp[3][0][1] == ("call", ("n", "enumerate"), (D0,), ()) and len(smp[3][0][2]) == 1 and smp[3][0][2][0] in eqs
                zeqs = (("cmp", "Eq", lv, ("bv", "$1")), ("cmp", "Eq", ("bv", "$1"), lv))
                by_zip = smp[0] == "comp" and smp[2] == ("bv", "$0") and len(smp[3]) == 1 \
                    and smp[3][0][1] == ("call", ("n", "zip"), (D0, D1), ()) and len(smp[3][0][2]) == 1 and smp[3][0][2][0] in zeqs
                by_comp = by_comp or by_zip
                by_mask = smp[0] == "s" and smp[1] == D0 and smp[2] in (("cmp", "Eq", D1, lv), ("cmp", "Eq", lv, D1))
                lab = _strip_array(pair[1])
                lab_ok = contains(lab, lv) and not any(x[0] == "elem" and x != lv for x in subterms(lab))
                ok = (by_comp or by_mask) and lab_ok
                detail = "samples are %s; labels are %s" % (show(smp)[:120], show(lab)[:120])
            ctx.check(ok, "C18.D6", R.key_of(fi, "piece-holds-its-label"), fi.loc(c),
                      "each piece holds exactly the samples whose label equals the piece's label, labelled with it",
                      "a piece of split_labels is not {samples whose label == the loop value} labelled with that value: %s" % detail)
    ctx.floor("C18.D6", n, 1, "piece-building loops in split_labels")


def _scaling_attrs(prog, ds):
    out = set()
    for m in SCALING_METHODS:
        fi = ds.methods.get(m)
        if fi is None:
            raise AnalysisError("anchor vanished: DataSet.%s" % m)
        for s in R.self_stores(fi):
            if s.attr != "_data":
                out.add(s.attr)
    return out


def _pair(t):
    """(samples term, labels term) of tuple([A, B]) / (A, B) / [A, B]"""
    if t[0] == "copy" and t[1] == "tuple":
        t = t[2]
    if t[0] in ("tuple", "list") and len(t) == 3:
        return t[1], t[2]
    return None


def _norm_pred(t):
    return t


def _label_filters(fi, D0, D1):
    """For split_without_labels: [(kind, component, predicate-on-$L)]"""
    out = []
    tm = Terms(fi.node)
    for comp in [n for n in ast.walk(fi.node) if isinstance(n, ast.ListComp)]:
        g = comp.generators[0]
        t = tm.term(comp)
        if t[0] != "comp":
            continue
        body, gens = t[2], t[3]
        it = gens[0][1]
        ifs = gens[0][2]
        if len(ifs) != 1:
            continue
        pred = ifs[0]
        if it == ("call", ("n", "enumerate"), (D0,), ()):
            # (i, x): label of the sample is self._data[1][i]
            p = _replace(pred, ("s", D1, ("bv", "$0")), ("$L",))
            comp_kind = "samples"
        elif it == D1:
            p = _replace(pred, ("bv", "$0"), ("$L",))
            comp_kind = "labels"
        elif it == ("call", ("n", "zip"), (D0, D1), ()) and body == ("bv", "$0"):
            # (x, c) in zip(samples, labels): the label of the sample is c
            p = _replace(pred, ("bv", "$1"), ("$L",))
            comp_kind = "samples"
        elif it == ("call", ("n", "zip"), (D0, D1), ()) and body == ("bv", "$1"):
            p = _replace(pred, ("bv", "$1"), ("$L",))
            comp_kind = "labels"
        else:
            continue
        kind = "less" if p == ("cmp", "Eq", ("$L",), ("c", "-1")) or p == ("cmp", "Eq", ("c", "-1"), ("$L",)) else "full"
        if kind == "less":
            p = ("cmp", "Eq", ("$L",), ("c", "-1"))
        out.append((kind, comp_kind, p))
    return out


# ---------------------------------------------------------------------------------------------------------------- D7
FRESH_ARRAY_CALLS = {"array", "concatenate", "zeros", "ones", "full", "empty", "copy", "vstack", "hstack", "append", "transform"}


def _is_fresh_array(e):
    """an expression that evaluates to a newly allocated array (np.array(...), np.concatenate(...), x.copy(), a comprehension)"""
    if isinstance(e, ast.Call):
        f = e.func
        name = f.attr if isinstance(f, ast.Attribute) else (f.id if isinstance(f, ast.Name) else None)
        return name in FRESH_ARRAY_CALLS
    return isinstance(e, (ast.ListComp, ast.List))


def _fresh_producers(prog, ds):
    """methods of DataSet all of whose returned DataSets are built in the method from fresh arrays only:
    {method name: number of constructor sites}"""
    out = {}
    for name, fi in ds.methods.items():
        tm = Terms(fi.node, max_depth=0)
        cons = [c for c in R.calls_in(fi.node, func="DataSet")]
        if not cons:
            continue
        ok = True
        for c in cons:
            args = list(c.args[:1])
            if not args:
                continue
            a = args[0]
            if isinstance(a, ast.Name):
                b = tm.env.single(a.id)
                a = b.value if b is not None and b.kind == "assign" and b.value is not None else a
            comps = None
            if isinstance(a, ast.Call) and isinstance(a.func, ast.Name) and a.func.id == "tuple" and a.args and isinstance(a.args[0], (ast.List, ast.Tuple)):
                comps = a.args[0].elts
            elif isinstance(a, ast.Tuple):
                comps = a.elts
            else:
                comps = [a]
            for x in comps:
                if isinstance(x, ast.Name):
                    b = tm.env.single(x.id)
                    x = b.value if b is not None and b.kind == "assign" and b.value is not None else x
                if not _is_fresh_array(x):
                    ok = False
        # what is returned must be those constructed sets (names bound to the constructor calls / tuples of them)
        if ok:
            out[name] = len(cons)
    return out


def check_no_inplace_on_shared_arrays(prog, ctx, ds, rule="C18.D7"):
    fresh = _fresh_producers(prog, ds)
    n_sites = 0
    n_methods = 0
    for fi in sorted(prog.functions.values(), key=lambda f: f.qual):
        if fi.module is not ds.module:
            continue
        n_methods += 1
        tm = Terms(fi.node, max_depth=0)

        def owner_of(e, depth=0):
            """the expression X when e denotes X._data, X._data[k] (directly or through local aliases), else None"""
            if depth > 4:
                return None
            if isinstance(e, ast.Subscript):
                return owner_of(e.value, depth + 1)
            if isinstance(e, ast.Attribute) and e.attr == "_data":
                return e.value
            if isinstance(e, ast.Name):
                bs = tm.env.bindings.get(e.id, [])
                owners = [owner_of(b.value, depth + 1) for b in bs if b.kind == "assign" and b.value is not None]
                owners = [o for o in owners if o is not None]
                return owners[0] if owners else None
            if isinstance(e, ast.Attribute) and e.attr == "T":
                return owner_of(e.value, depth + 1)
            if isinstance(e, ast.Call):                       # numpy views: no copy when the argument already is an array of that type
                fn = e.func.attr if isinstance(e.func, ast.Attribute) else (e.func.id if isinstance(e.func, ast.Name) else None)
                if fn in R.VIEW_CALLS:
                    if isinstance(e.func, ast.Attribute) and not (isinstance(e.func.value, ast.Name) and e.func.value.id in ("np", "numpy")):
                        return owner_of(e.func.value, depth + 1)
                    return owner_of(e.args[0], depth + 1) if e.args else None
            return None

        def is_element_array(e, depth=0):
            """e denotes one of the arrays inside X._data (X._data[k] or a view of it), not the tuple X._data itself"""
            if depth > 4:
                return False
            if isinstance(e, ast.Subscript):
                return owner_of(e.value) is not None
            if isinstance(e, ast.Name):
                return any(is_element_array(b.value, depth + 1) for b in tm.env.bindings.get(e.id, []) if b.kind == "assign" and b.value is not None)
            if isinstance(e, ast.Attribute) and e.attr == "T":
                return is_element_array(e.value, depth + 1)
            if isinstance(e, ast.Call):
                fn = e.func.attr if isinstance(e.func, ast.Attribute) else (e.func.id if isinstance(e.func, ast.Name) else None)
                if fn in R.VIEW_CALLS:
                    if isinstance(e.func, ast.Attribute) and not (isinstance(e.func.value, ast.Name) and e.func.value.id in ("np", "numpy")):
                        return is_element_array(e.func.value, depth + 1)
                    return bool(e.args) and is_element_array(e.args[0], depth + 1)
            return False
        # whole-array updates through a local: `samples = np.asarray(self._data[0]); samples += shift` writes into the DataSet's (and, for
        # a set built from the user's array, the user's) array
        for st in walk_local(fi.node):
            if isinstance(st, ast.AugAssign) and isinstance(st.target, ast.Name) and is_element_array(st.target):
                own = owner_of(st.target)
                n_sites += 1
                ctx.violation(rule, R.key_of(fi, "inplace-update:%s" % st.target.id), fi.loc(st),
                              "`%s` updates, in place, an array of `%s._data` (the local `%s` is that array or a numpy view of it, not a copy): the set "
                              "this one was derived from, its pieces and the caller who handed the array in all see the change"
                              % (src(st)[:70], src(own) if own is not None else "?", st.target.id))
        for st in walk_local(fi.node):
            targets = []
            if isinstance(st, ast.Assign):
                targets = st.targets
            elif isinstance(st, ast.AugAssign):
                targets = [st.target]
            for t in targets:
                for el in (t.elts if isinstance(t, (ast.Tuple, ast.List)) else [t]):
                    if not isinstance(el, ast.Subscript):
                        continue
                    own = owner_of(el.value)
                    if own is None:
                        continue
                    n_sites += 1
                    ok = False
                    why = "`%s` writes into the array of `%s` in place" % (src(st)[:70], src(own))
                    if isinstance(own, ast.Name) and own.id != (fi.self_name or "self"):
                        bs = tm.env.bindings.get(own.id, [])
                        prods = []
                        for b in bs:
                            v = b.value
                            if b.kind in ("assign", "unpack") and isinstance(v, ast.Call) and isinstance(v.func, ast.Attribute):
                                prods.append(v.func.attr)
                            else:
                                prods.append(None)
                        ok = bool(prods) and all(p_ in fresh for p_ in prods)
                        if not ok:
                            why += "; `%s` is not the result of a method that builds its DataSets from fresh arrays (%s)" % (own.id, sorted(fresh))
                    else:
                        why += "; the arrays of self may be shared with the DataSet it was derived from (split_pieces views, copy(), shift_value / " \
                               "scale_factor keep the label array)"
                    ctx.check(ok, rule, R.key_of(fi, "inplace-store:%s" % src(el.value)[:40]), fi.loc(st),
                              "the only in-place element stores into data arrays act on DataSets freshly built in the same function",
                              why)
    # attributes handed over by reference (to_update.A = self.A in _update_internal; copy() shares the whole __dict__) are never modified
    # in place: an augmented assignment or element store on such an attribute that may hold an array also changes the derived /
    # parent set.  "May hold an array": some store of the attribute takes a value that is not a constant / arithmetic of constants.
    upd = prog.func(DS + "._update_internal")
    tgt = upd.params[1] if len(upd.params) > 1 else None
    by_ref = set()
    for st in walk_local(upd.node):
        if isinstance(st, ast.Assign) and len(st.targets) == 1 and isinstance(st.targets[0], ast.Attribute) and isinstance(st.targets[0].value, ast.Name) \
                and st.targets[0].value.id == tgt and isinstance(st.value, ast.Attribute) and isinstance(st.value.value, ast.Name) \
                and st.value.value.id == upd.self_name and st.value.attr == st.targets[0].attr:
            by_ref.add(st.value.attr)

    def constant_like(v):
        return v is None or all(isinstance(x, (ast.Constant, ast.BinOp, ast.UnaryOp, ast.operator, ast.unaryop, ast.Tuple, ast.expr_context)) for x in ast.walk(v))
    maybe_array = set()
    for fi in ds.methods.values():
        for s_ in R.self_stores(fi):
            if s_.attr in by_ref and s_.kind == "plain" and not constant_like(s_.value):
                maybe_array.add(s_.attr)
    n_aug = 0
    for name, fi in sorted(ds.methods.items()):
        for s_ in R.self_stores(fi):
            if s_.attr in maybe_array and s_.kind in ("aug", "elem", "elem_aug"):
                n_aug += 1
                ctx.violation(rule, R.key_of(fi, "inplace-on-shared-attribute:%s" % s_.attr), fi.loc(s_.stmt),
                              "`%s` modifies self.%s in place; _update_internal / copy() hand this attribute to derived sets by reference, so "
                              "the set this one was derived from (or its pieces) see the change" % (src(s_.stmt)[:80], s_.attr))
    ctx.check(bool(maybe_array), rule, "%s::shared-attributes-not-modified-in-place" % DS, upd.loc(),
              "attributes handed over by reference that may hold arrays (%s) are only ever re-bound (%d in-place modifications)" % (sorted(maybe_array), n_aug),
              "_update_internal no longer hands any array-valued attribute over by reference (by reference: %s)" % sorted(by_ref))
    ctx.note(rule, "%s::array-ownership" % DS, "sparseSpACE/DEMachineLearning.py",
             "%d in-place element store(s) into DataSet arrays analysed in %d functions; fresh-array producers: %s" % (n_sites, n_methods, sorted(fresh)))
    ctx.floor(rule, len(fresh), 1, "DataSet methods that build their results from fresh arrays")
