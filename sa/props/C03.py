"""C03 -- dimension-wise refinement always yields a valid nested combination.

Decided structural clauses:
 D1 the 1-D point selection depends on the component level vector only through levelvec[d] of the current dimension d
 D2 points of level <= 1 (domain end points, root midpoint) are in every component grid: the selection bound is max(., c>=1)
    and the first interval's start is appended unconditionally
 D3 sortedness is re-established after every refinement step (sort flag True reaches the sorted re-assignment)
 D4 the combination scheme is re-read after lmax / the index set may have changed
 D5 the per-step caches are reset in every post-processing, and nothing else keeps them across a structural change
 D6 the deepest points of a subtree appear only in the finest component level: whenever levelvec[d] - s >= max_level and the
    component is not the finest one, s is raised so that levelvec[d] - s == max_level - 1 (non-strict guard, polynomial identity),
    and s never exceeds levelvec[d] - lmin[d]
 D7 boundary handling of the strategy's point enumeration agrees with the grid: without boundary points the first and last
    1-D coordinate of every dimension are dropped
Not decided: monotone growth, coefficient sums, reproduction at the points (arithmetic over refinement histories)."""
import ast

from ..cfg import cfg_of, walk_local
from ..loader import AnalysisError, src
from ..terms import Terms, terms_of, show, subterms
from .. import rules as R

EXPLANATION = ("Static analysis of SpatiallyAdaptiveSingleDimensions2 and RefinementContainer: a depends-only-on scan of every use "
               "of the level vector in the point selection, an interval argument on the selection bound, constant-flag propagation "
               "of the sort argument through the meta container, must-pass-through of the scheme refresh after raise_lmax, and "
               "reset / who-may-write of the per-step caches.")

SD = "spatiallyAdaptiveSingleDimension2.SpatiallyAdaptiveSingleDimensions2"
LEVELVEC_FUNCS = ("get_point_coord_for_each_dim", "get_subtraction_value", "modify_according_to_levelvec")


def check_sorted_after_removal(prog, ctx, rule="C03.D3"):
    """the dimension-wise post-processing removes the refined intervals and re-sorts every container ascending by `start` on every path:
    `apply_remove(sort=True)` with the literal True (children are appended at the end of the list), and the callee sorts by start"""
    rp = prog.func(SD + ".refinement_postprocessing")
    ctx.touch(rp)
    ar_calls = [x for x in R.calls_in(rp.node, method="apply_remove") if R.attr_chain(x.func.value) == [rp.self_name, "refinement"]]
    ctx.floor(rule, len(ar_calls), 1, "apply_remove calls in the dimension-wise post-processing")
    for x in ar_calls:
        val = None
        for kw in x.keywords:
            if kw.arg == "sort":
                val = kw.value
        if val is None and x.args:
            val = x.args[0]
        ok = isinstance(val, ast.Constant) and val.value is True
        crp = cfg_of(rp)
        on_all = crp.post_dominates(R.cfg_node(rp, x), crp.entry)
        ctx.check(ok and on_all, rule, R.key_of(rp, "sort-flag"), rp.loc(x),
                  "removal is applied with sort=True on every path",
                  "refinement_postprocessing does not call apply_remove(sort=True) on every path (`%s`): new intervals stay appended at the end, "
                  "the per-dimension lists are no longer ascending" % src(x))
    ar = prog.func("RefinementContainer.RefinementContainer.apply_remove")
    ctx.touch(ar)
    tma = Terms(ar.node, max_depth=0)
    car = cfg_of(ar)
    sorted_ok = False
    for s in R.self_stores(ar, "refinementObjects"):
        if s.kind == "plain":
            t = tma.term(s.value)
            guards = [g for (g, gn) in R.dominating_guards(ar, R.cfg_node(ar, s.stmt), tma) if gn.kind == "test"]
            key_t = dict(t[3]).get("key") if t[0] == "call" else None
            by_start = key_t in (("call", ("n", "attrgetter"), (("c", "'start'"),), ()), ("call", ("a", ("n", "operator"), "attrgetter"), (("c", "'start'"),), ()),
                                 ("lambda", 1, ("a", ("bv", "$0"), "start")))
            rev = dict(t[3]).get("reverse") if t[0] == "call" else None
            if t[0] == "call" and t[1] == ("n", "sorted") and t[2] and t[2][0] == ("a", ("n", "self"), "refinementObjects") \
                    and by_start and ("n", ar.params[1]) in guards and rev in (None, ("c", "False")):
                sorted_ok = True
    for x in R.calls_in(ar.node, method="sort"):
        if R.self_attr(x.func.value, "self") == "refinementObjects":
            kws = {k.arg: k.value for k in x.keywords}
            kt = tma.term(kws["key"]) if "key" in kws else None
            if kt in (("call", ("n", "attrgetter"), (("c", "'start'"),), ()), ("lambda", 1, ("a", ("bv", "$0"), "start"))) \
                    and ("reverse" not in kws or (isinstance(kws["reverse"], ast.Constant) and kws["reverse"].value is False)):
                sorted_ok = True
    ctx.check(sorted_ok, rule, R.key_of(ar, "sorted-by-start"), ar.loc(),
              "with sort=True the objects are re-ordered ascending by `start`",
              "apply_remove(sort=True) no longer re-assigns refinementObjects sorted ascending by attrgetter('start')")



def run(prog, ctx):
    sd = prog.cls(SD)

    # ------------------------------------------------------------------ D1
    n_uses = 0
    dim_param = {}     # function -> name of its dimension variable
    # roles, not names: the level vector is the first parameter of the public entry get_point_coord_for_each_dim; in the helpers it
    # is whichever parameter the entry's level vector is passed to (propagated along the calls)
    entry = prog.func(SD + "." + LEVELVEC_FUNCS[0])
    eparams = [p for p in entry.params if p != entry.self_name]
    if not eparams:
        raise AnalysisError("anchor vanished: level-vector parameter of %s" % entry.qual)
    lvname = {LEVELVEC_FUNCS[0]: eparams[0]}
    work = [LEVELVEC_FUNCS[0]]
    while work:
        cur = work.pop()
        fcur = prog.func(SD + "." + cur)
        for call in R.calls_in(fcur.node):
            if isinstance(call.func, ast.Attribute) and call.func.attr in LEVELVEC_FUNCS and call.func.attr not in lvname:
                callee = prog.func(SD + "." + call.func.attr)
                cpar = [p for p in callee.params if p != callee.self_name]
                for k, a in enumerate(call.args):
                    if any(isinstance(y, ast.Name) and y.id == lvname[cur] for y in ast.walk(a)) and k < len(cpar):
                        lvname.setdefault(call.func.attr, cpar[k])
                for kw in call.keywords:
                    if isinstance(kw.value, ast.Name) and kw.value.id == lvname[cur] and kw.arg in cpar:
                        lvname[call.func.attr] = kw.arg
                if call.func.attr in lvname:
                    work.append(call.func.attr)
    for name in LEVELVEC_FUNCS:
        if name not in lvname:
            raise AnalysisError("anchor vanished: the level vector no longer reaches %s.%s" % (SD, name))
    # the dimension parameter of a helper: the parameter its level vector is indexed with
    dim_of = {}
    for name in LEVELVEC_FUNCS:
        fi = prog.func(SD + "." + name)
        for n in ast.walk(fi.node):
            if isinstance(n, ast.Subscript) and isinstance(n.value, ast.Name) and n.value.id == lvname[name] and isinstance(n.slice, ast.Name) \
                    and n.slice.id in fi.params:
                dim_of.setdefault(name, n.slice.id)
    for _round in range(len(LEVELVEC_FUNCS)):
        for name in LEVELVEC_FUNCS:
            if name in dim_of:
                continue
            fi = prog.func(SD + "." + name)
            for call in R.calls_in(fi.node):
                if isinstance(call.func, ast.Attribute) and call.func.attr in dim_of and call.func.attr in LEVELVEC_FUNCS:
                    callee = prog.func(SD + "." + call.func.attr)
                    cpar = [p for p in callee.params if p != callee.self_name]
                    pos_d = cpar.index(dim_of[call.func.attr])
                    if pos_d < len(call.args) and isinstance(call.args[pos_d], ast.Name) and call.args[pos_d].id in fi.params \
                            and any(isinstance(a, ast.Name) and a.id == lvname[name] for a in call.args):
                        dim_of.setdefault(name, call.args[pos_d].id)
    for name in LEVELVEC_FUNCS:
        fi = prog.func(SD + "." + name)
        ctx.touch(fi)
        LV = lvname[name]
        rebound = [n for n in walk_local(fi.node) if isinstance(n, ast.Name) and n.id == LV and isinstance(n.ctx, ast.Store)]
        idx_names = set()
        bad = []
        for n in ast.walk(fi.node):
            if not (isinstance(n, ast.Name) and n.id == LV and isinstance(n.ctx, ast.Load)):
                continue
            n_uses += 1
            par = getattr(n, "_parent", None)
            if isinstance(par, ast.Subscript) and par.value is n:
                if isinstance(par.slice, ast.Name):
                    idx_names.add(par.slice.id)
                    k = par.slice.id
                    is_param = k in fi.params
                    loops = [l for l in R.enclosing_loops(par) if isinstance(l, ast.For) and isinstance(l.target, ast.Name) and l.target.id == k]
                    full = any(_is_dim_range(fi, l.iter) for l in loops)
                    if not (is_param or full):
                        bad.append((n, "index `%s` is neither the function's dimension parameter nor a loop over all dimensions" % k))
                else:
                    bad.append((n, "`%s` reads a component other than the current dimension's" % src(par)))
            elif isinstance(par, ast.Call) and n in par.args and isinstance(par.func, ast.Attribute) and par.func.attr in LEVELVEC_FUNCS:
                # pass-through: the same dimension variable must be handed on
                callee = prog.func(SD + "." + par.func.attr)
                cpar = [p for p in callee.params if p != callee.self_name]
                pos_lv = cpar.index(lvname[par.func.attr])
                dname = dim_of.get(par.func.attr)
                pos_d = cpar.index(dname) if dname in cpar else None
                ok = par.args.index(n) == pos_lv and pos_d is not None and pos_d < len(par.args) and isinstance(par.args[pos_d], ast.Name)
                if ok:
                    idx_names.add(par.args[pos_d].id)
                else:
                    bad.append((n, "`%s` does not pass the level vector on together with the current dimension" % src(par)[:90]))
            else:
                bad.append((n, "`%s` uses the whole level vector" % src(par)[:90]))
        if rebound:
            bad.append((rebound[0], "the level vector `%s` is re-bound inside the function" % LV))
        if name == "get_subtraction_value":
            # the component level shapes the subtraction value only through modify_according_to_levelvec (whose clamp and raise D6 checks
            # for monotone growth): the dispatcher itself neither branches on nor computes with the level vector
            for n in ast.walk(fi.node):
                if isinstance(n, ast.Name) and n.id == LV and isinstance(n.ctx, ast.Load):
                    par = getattr(n, "_parent", None)
                    if isinstance(par, ast.Subscript) and par.value is n:
                        bad.append((n, "`%s` is read directly in get_subtraction_value (line %d): a level test that bypasses "
                                       "modify_according_to_levelvec can make a point disappear when the component level grows" % (src(par), n.lineno)))
        if len(idx_names) > 1:
            bad.append((fi.node, "the level vector is indexed with different variables %s" % sorted(idx_names)))
        dim_param[name] = sorted(idx_names)[0] if idx_names else None
        ctx.check(not bad, "C03.D1", R.key_of(fi, "levelvec-only-own-dimension"), fi.loc(bad[0][0]) if bad else fi.loc(),
                  "the level vector is used only as %s[%s] (current dimension) or passed on with it" % (LV, dim_param[name]),
                  "the 1-D point selection depends on more than the component level of its own dimension: %s" % "; ".join(w for (_n, w) in bad))
    ctx.floor("C03.D1", n_uses, 4, "uses of levelvec in the point selection")
    # cross-dimension flow: a container that lives across the dimension loops must not be filled under a test on / from a
    # value of levelvec and then be handed back into the selection of (other) dimensions
    gpc = prog.func(SD + ".get_point_coord_for_each_dim")
    cg = cfg_of(gpc)
    tmg = Terms(gpc.node, max_depth=0)
    fed_back = set()
    for call in R.calls_in(gpc.node):
        if isinstance(call.func, ast.Attribute) and call.func.attr in LEVELVEC_FUNCS:
            for a in call.args:
                if isinstance(a, ast.Name) and a.id != lvname[LEVELVEC_FUNCS[0]]:
                    fed_back.add(a.id)
    tainted = []
    for n in cg.nodes:
        if n.kind != "stmt" or not isinstance(n.ast, (ast.Assign, ast.AugAssign)) or n.idx not in cg.reachable():
            continue
        tg = n.ast.targets[0] if isinstance(n.ast, ast.Assign) else n.ast.target
        root = tg
        while isinstance(root, ast.Subscript):
            root = root.value
        if not (isinstance(root, ast.Name) and root.id in fed_back and isinstance(tg, ast.Subscript)):
            continue
        # container defined outside every loop and written element-wise
        defs = [b for b in tmg.env.bindings.get(root.id, []) if b.kind == "assign"]
        outside = any(not R.enclosing_loops(b.stmt) for b in defs)
        if not outside:
            continue
        guards = [g for (g, gn) in R.dominating_guards(gpc, n, tmg) if gn.kind == "test"]
        LV0 = ("n", lvname[LEVELVEC_FUNCS[0]])
        dep = any(any(x == LV0 for x in subterms(g)) for g in guards) or any(x == LV0 for x in subterms(tmg.term(n.ast.value)))
        if dep:
            tainted.append((root.id, n))
    ctx.check(not tainted, "C03.D1", R.key_of(gpc, "no-cross-dimension-flow"), gpc.loc(tainted[0][1].ast) if tainted else gpc.loc(),
              "no per-dimension array that is filled depending on the level vector is fed back into the selection of other dimensions",
              "`%s` is filled depending on the level vector (%s) and then handed to the subtraction-value computation of every dimension: the "
              "1-D points of dimension d depend on the component levels of the other dimensions" % (tainted[0][0] if tainted else "", src(tainted[0][1].ast) if tainted else ""))

    # ------------------------------------------------------------------ D2
    gp = prog.func(SD + ".get_point_coord_for_each_dim")
    c = cfg_of(gp)
    tm = Terms(gp.node, max_depth=0)
    # role of the per-dimension point list: the local list that interval end points (`<interval>.start` / `<interval>.end`) are appended to
    appends = [x for x in R.calls_in(gp.node, method="append") if isinstance(x.func.value, ast.Name) and x.args
               and isinstance(x.args[0], ast.Attribute) and x.args[0].attr in ("start", "end")]
    cond_apps = [x for x in appends if len(R.enclosing_loops(x)) >= 2]
    first_apps = [x for x in appends if len(R.enclosing_loops(x)) == 1]
    ctx.floor("C03.D2", len(cond_apps) + len(first_apps), 2, "appends to the per-dimension point list")
    for x in first_apps:
        t = Terms(gp.node).term(x.args[0])
        guards = [g for (g, gn) in R.dominating_guards(gp, R.cfg_node(gp, x), tm) if gn.kind == "test"]
        ok = not guards and t[0] == "a" and t[2] == "start" and t[1][0] == "s" and t[1][2] == ("c", "0")
        ctx.check(ok, "C03.D2", R.key_of(gp, "left-end-point"), gp.loc(x),
                  "the start of the first interval (left domain end) is appended unconditionally",
                  "the left end point is not appended unconditionally as the first interval's start (`%s`, guards %s)" % (src(x), [show(g) for g in guards]))
    for k, x in enumerate(cond_apps):
        xn = R.cfg_node(gp, x)
        guards = [(g, gn) for (g, gn) in R.dominating_guards(gp, xn, tm) if gn.kind == "test" and len(gn.loops) >= 2]
        ok = False
        why = "no selection test"
        for (g, gn) in guards:
            g = R.resolve_locals(gp, g, gn, tm)
            if g[0] == "cmp" and g[1] == "LtE":
                lhs, rhs = g[2], g[3]
                lv_ok = lhs[0] == "s" and lhs[1][0] == "a" and lhs[1][2] == "levels" and lhs[2] == ("c", "1")
                if rhs[0] == "call" and rhs[1] == ("n", "max"):
                    consts = []
                    for a in rhs[2]:
                        if a[0] == "c":
                            try:
                                consts.append(ast.literal_eval(a[1]))
                            except Exception:
                                pass
                    lb = max(consts) if consts else None
                    if lv_ok and lb is not None and lb >= 1:
                        ok = True
                    else:
                        why = "the selection bound %s has lower bound %s (< 1): points of level 1 can be dropped" % (show(rhs), lb)
                else:
                    why = "the selection bound %s is not clamped from below by a constant >= 1" % show(rhs)
            elif g[0] == "cmp" and g[1] == "Lt":
                why = "strict comparison %s" % show(g)
        t = Terms(gp.node).term(x.args[0]) if x.args else ("?",)
        ctx.check(ok, "C03.D2", R.key_of(gp, "selection-bound#%d" % k), gp.loc(x),
                  "an interval's end point is kept iff its level <= max(component level - subtraction, c) with c >= 1",
                  "1-D point selection: " + why)
    # the selected interval end and the level tested belong to the same interval object
    for x in cond_apps:
        t = tm.term(x.args[0])
        xn = R.cfg_node(gp, x)
        objs = set()
        for (g, gn) in R.dominating_guards(gp, xn, tm):
            if g[0] == "cmp" and g[1] == "LtE" and g[2][0] == "s" and g[2][1][0] == "a" and g[2][1][2] == "levels":
                objs.add(g[2][1][1])
        ok = t[0] == "a" and t[2] == "end" and t[1] in objs
        ctx.check(ok, "C03.D2", R.key_of(gp, "tests-own-level"), gp.loc(x),
                  "the level that is tested is the level of the end point that is appended",
                  "`%s` appends the end of one interval under a test on another interval's level" % src(x))

    # ------------------------------------------------------------------ D6 / D7
    check_deepest_only_finest(prog, ctx)
    check_boundary_agreement(prog, ctx)
    check_no_override_bypass(prog, ctx)

    # ------------------------------------------------------------------ D3
    check_sorted_after_removal(prog, ctx, "C03.D3")
    rp = prog.func(SD + ".refinement_postprocessing")
    # ------------------------------------------------------------------ D4
    crp = cfg_of(rp)
    raises = [R.cfg_node(rp, x) for x in R.calls_in(rp.node, method="raise_lmax")]
    refresh = []
    tmr = Terms(rp.node)
    for s in R.self_stores(rp, "scheme"):
        t = tmr.term(s.value)
        if s.kind == "plain" and t[0] == "call" and t[1] == ("a", ("a", ("n", "self"), "combischeme"), "getCombiScheme"):
            refresh.append(R.cfg_node(rp, s.stmt))
    ctx.floor("C03.D4", len(raises), 1, "raise_lmax calls in the post-processing")
    ok = bool(refresh) and all(crp.must_pass_through(r, [crp.exit], refresh) for r in raises)
    ctx.check(ok, "C03.D4", R.key_of(rp, "scheme-refreshed"), rp.loc(),
              "every path after raise_lmax re-reads self.scheme from the combination scheme object",
              "after raise_lmax (which may extend the adaptive index set) a path leaves refinement_postprocessing without re-reading "
              "self.scheme = self.combischeme.getCombiScheme(...): the component grids no longer match the index set")
    rl = prog.func(SD + ".raise_lmax")
    ctx.touch(rl)
    sts = [s for s in R.self_stores(rl, "lmax") if s.kind == "elem_aug"]
    tml = Terms(rl.node, max_depth=0)
    ok = any(isinstance(s.stmt.op, ast.Add) and tml.term(s.stmt.target.slice) == ("n", rl.params[1]) and tml.term(s.value) == ("n", rl.params[2]) for s in sts)
    ctx.check(ok, "C03.D4", R.key_of(rl, "raises-own-dimension"), rl.loc(), "raise_lmax adds the value to lmax of the given dimension",
              "raise_lmax no longer adds `value` to self.lmax[d]")

    # ------------------------------------------------------------------ D5
    # the per-step caches: the two of the pinned tree plus every other attribute the constructor starts as an empty dict
    KNOWN_CACHES = ("subtraction_value_cache", "max_level_dict")
    found = [s.attr for s in R.self_stores(sd.methods["__init__"]) if s.kind == "plain" and isinstance(s.value, ast.Dict) and not s.value.keys]
    # a new dict whose entries depend on the key alone (the memoised computation reads no instance state) cannot be outdated by a
    # refinement step: it needs no reset (what it may depend on is judged by the generic rule S2)
    from .. import statecheck as SC
    raw = SC.raw_of(prog)
    key_only = set()
    rcd = raw.classes.get(SD)
    if rcd is not None:
        for memo in SC.find_memos(SD, rcd, lambda a: a in set(found) - set(KNOWN_CACHES)):
            _, attr_nodes = SC._names_closure(memo.fn, memo.region)
            reads = SC._attr_reads_through_calls(raw, SC._family(prog, SD), memo.fn, list(memo.region) + list(attr_nodes))
            # what a refinement step changes: the refinement structure (in place, through its own methods) and whatever the
            # post-processing and the methods it calls store
            changed = {"refinement"}
            todo, seen_m = [rp.name], set()
            fam_methods = {m.name: m for q_ in SC._family(prog, SD) if q_ in raw.classes for m in SC.methods_of(raw.classes[q_])}
            while todo:
                nm_ = todo.pop()
                if nm_ in seen_m or nm_ not in fam_methods:
                    continue
                seen_m.add(nm_)
                changed |= set(SC._stores_of(fam_methods[nm_]))
                me_ = SC.self_name(fam_methods[nm_])
                for x_ in ast.walk(fam_methods[nm_]):
                    if isinstance(x_, ast.Call) and isinstance(x_.func, ast.Attribute) and isinstance(x_.func.value, ast.Name) and x_.func.value.id == me_:
                        todo.append(x_.func.attr)
            if not (set(reads) - {memo.attr}) & changed and not SC.check_memo(prog, raw, memo):
                key_only.add(memo.attr)
    for cache in list(KNOWN_CACHES) + sorted(set(found) - set(KNOWN_CACHES) - key_only):
        sts = [s for s in R.self_stores(rp, cache) if s.kind == "plain" and isinstance(s.value, ast.Dict) and not s.value.keys]
        ok = bool(sts) and any(crp.post_dominates(R.cfg_node(rp, s.stmt), crp.entry) for s in sts)
        ctx.check(ok, "C03.D5", R.key_of(rp, "reset:%s" % cache), rp.loc(sts[0].stmt) if sts else rp.loc(),
                  "%s is re-assigned an empty dict in every post-processing" % cache,
                  "%s (keyed by container positions) is not reset on every path of refinement_postprocessing: entries computed for the "
                  "old interval positions survive the structural change" % cache)
        if cache not in KNOWN_CACHES:
            continue
        writers = set()
        for fi in prog.functions.values():
            for s in R.attribute_stores(fi.node):
                if s.attr == cache:
                    writers.add(fi.qual)
        allowed = {SD + ".__init__", SD + ".refinement_postprocessing", SD + ".get_subtraction_value", SD + ".get_max_level"}
        extra = writers - allowed
        ctx.check(not extra, "C03.D5", "%s::writers:%s" % (SD, cache), sd.methods["__init__"].loc(),
                  "%s is written only by %s" % (cache, sorted(w.split(".")[-1] for w in writers)),
                  "%s is also written by %s" % (cache, sorted(extra)))
    # cache keys are (dimension, position) of the same container walk
    gs = prog.func(SD + ".get_subtraction_value")
    gml = prog.func(SD + ".get_max_level")
    ctx.touch(gs, gml)
    tmg = Terms(gs.node, max_depth=0)
    okk = False
    for st in walk_local(gs.node):
        if isinstance(st, ast.Assign) and isinstance(st.targets[0], ast.Subscript) and R.self_attr(st.targets[0].value, "self") == "max_level_dict":
            k = tmg.term(st.targets[0].slice)
            dname = dim_of.get("get_subtraction_value")
            vcall = st.value if isinstance(st.value, ast.Call) else None
            if isinstance(st.value, ast.Name):
                bdef = R.reaching_unique_def(gs, st.value.id, st.value)
                vcall = bdef.value if bdef is not None and bdef.kind == "assign" and isinstance(bdef.value, ast.Call) else None
            argn = {a.id for a in (vcall.args if vcall is not None else []) if isinstance(a, ast.Name)}
            if k[0] == "copy" and k[1] == "tuple" and k[2][0] == "tuple" and len(k[2]) == 3 and k[2][1] == ("n", dname) \
                    and k[2][2][0] == "n" and k[2][2][1] in gs.params and k[2][2][1] != dname and {dname, k[2][2][1]} <= argn:
                okk = True
    ctx.check(okk, "C03.D5", R.key_of(gs, "max-level-key"), gs.loc(), "max_level_dict is keyed by (dimension, position)",
              "max_level_dict is no longer keyed by (d, i) of the interval it describes")
    # every evaluation sees the refreshed position space: reinit after the removal
    ri = [R.cfg_node(rp, x) for x in R.calls_in(rp.node, method="reinit_new_objects")]
    ctx.check(bool(ri), "C03.D5", R.key_of(rp, "reinit"), rp.loc(), "all intervals are re-marked for evaluation after the structural change",
              "refinement_postprocessing no longer re-marks the refinement objects for evaluation")


def _is_dim_range(fi, it):
    tm = Terms(fi.node, max_depth=0)
    t = tm.term(it)
    dim = ("a", ("n", fi.self_name), "dim")
    return t in (("call", ("n", "range"), (dim,), ()), ("call", ("n", "range"), (("c", "0"), dim), ()))


def check_deepest_only_finest(prog, ctx):
    from ..absint import poly_of_term, Poly
    fi = prog.func(SD + ".modify_according_to_levelvec")
    ctx.touch(fi)
    tm = Terms(fi.node, max_depth=0)
    c = cfg_of(fi)
    sv, d, ml, lv = fi.params[1], fi.params[2], fi.params[3], fi.params[4]
    L = ("s", ("n", lv), ("n", d))
    problems = []
    raised = None
    for n in c.nodes:
        if n.kind == "stmt" and isinstance(n.ast, ast.Assign) and isinstance(n.ast.targets[0], ast.Name) and n.ast.targets[0].id == sv:
            guards = [g for (g, gn) in R.dominating_guards(fi, n, tm) if gn.kind == "test"]
            if guards:
                raised = (n, guards)
    if raised is None:
        problems.append("the subtraction value is never raised for components below the finest level")
    else:
        n, guards = raised
        t = tm.term(n.ast.value)
        eff = poly_of_term(L) - poly_of_term(t)            # effective level after the raise
        if eff != Poly.atom(("n", ml)) - Poly.const(1):
            problems.append("after the raise the effective level is %r, not max_level - 1" % eff)
        g1 = ("cmp", "LtE", ("n", ml), ("op", "Sub", (L, ("n", sv))))
        g2 = ("cmp", "Lt", L, ("s", ("a", ("n", "self"), "lmax"), ("n", d)))
        if g1 not in guards:
            strict = ("cmp", "Lt", ("n", ml), ("op", "Sub", (L, ("n", sv)))) in guards
            problems.append("the raise is guarded by %s; required levelvec[d] - s >= max_level%s" % ([show(g) for g in guards], " (the comparison is strict: "
                            "a component whose effective level equals max_level keeps the deepest points although it is not the finest one)" if strict else ""))
        if g2 not in guards:
            problems.append("the raise is not restricted to components below the finest level (levelvec[d] < self.lmax[d])")
    # clamp: every returned value is min(s, levelvec[d] - self.lmin[d]) -- returned directly or through the (re-assigned) parameter
    def _is_clamp(t):
        return t[0] == "call" and t[1] == ("n", "min") and len(t[2]) == 2 and ("n", sv) in t[2] \
            and ("op", "Sub", (L, ("s", ("a", ("n", "self"), "lmin"), ("n", d)))) in t[2]
    rets = R.return_paths(fi)[0]
    clamp = bool(rets) and not R.return_paths(fi)[1] and not R.return_paths(fi)[2]
    for r in rets:
        rt = tm.term(r.ast.value)
        if _is_clamp(rt):
            continue
        doms = [n for n in c.nodes if n.kind == "stmt" and isinstance(n.ast, ast.Assign) and isinstance(n.ast.targets[0], ast.Name)
                and n.ast.targets[0].id == sv and _is_clamp(tm.term(n.ast.value)) and c.dominates(n, r)]
        later = [n for n in c.nodes if n.kind == "stmt" and isinstance(n.ast, (ast.Assign, ast.AugAssign)) and n not in doms
                 and any(isinstance(x, ast.Name) and x.id == sv and isinstance(x.ctx, ast.Store) for x in ast.walk(n.ast))
                 and any(c.dominates(dn, n) or n.idx in c.reachable_after(dn) for dn in doms)]
        if not (rt == ("n", sv) and doms and not later):
            clamp = False
    if not clamp:
        problems.append("the result is not clamped by min(s, levelvec[d] - self.lmin[d]) on every path")
    ctx.check(not problems, "C03.D6", R.key_of(fi, "deepest-only-in-finest"), fi.loc(),
              "below the finest level the effective level is capped at max_level - 1 (non-strict guard) and s <= levelvec[d] - lmin[d]",
              "modify_according_to_levelvec: " + "; ".join(problems))


def check_boundary_agreement(prog, ctx):
    fi = prog.func(SD + ".get_points_all_dim")
    ctx.touch(fi)
    tm = Terms(fi.node, max_depth=0)
    c = cfg_of(fi)
    ok = False
    for n in c.nodes:
        if n.kind == "stmt" and isinstance(n.ast, ast.Assign) and n.idx in c.reachable():
            guards = [g for (g, gn) in R.dominating_guards(fi, n, tm) if gn.kind == "test"]
            if ("not", ("a", ("a", ("n", "self"), "grid"), "boundary")) in guards:
                t = Terms(fi.node).term(n.ast.value)
                sl = ("slice", ("c", "1"), ("c", "-1"), ("c", "None"))
                if any(x[0] == "s" and x[2] == sl for x in subterms(t)):
                    # the sliced lists are what is enumerated afterwards
                    rets = R.return_paths(fi)[0]
                    ok = bool(rets) and all(c.node_of(n.ast) is not None for _ in [0])
    ctx.check(ok, "C03.D7", R.key_of(fi, "drops-boundary-when-off"), fi.loc(),
              "without boundary points the first and last coordinate of every dimension are dropped before the tensor product",
              "get_points_all_dim no longer drops the domain end points when the grid has no boundary points: component grids report points the "
              "grid does not evaluate (the combined interpolant is 0 there)")


def check_no_override_bypass(prog, ctx, rule="C03.D9"):
    """D9: the dimension-wise strategy's own point sets are used wherever the generic driver evaluates a component.  Inside a method m1 of
    the strategy class (or a subclass), a call `super().m2(...)` / `Base.m2(self, ...)` with m2 != m1 runs the base implementation of m2
    although the class overrides m2 -- the base version works on the regular level-vector grid, not on the refined one-dimensional
    point sets (the pinned tree has no such call; `super().m1(...)` inside m1 is the ordinary extension idiom and is not meant)."""
    sd = prog.cls("spatiallyAdaptiveSingleDimension2.SpatiallyAdaptiveSingleDimensions2")
    n = 0
    nm = 0
    for ci in prog.all_subclasses(sd):
        for fi in ci.methods.values():
            nm += 1
            for x in walk_local(fi.node):
                if not (isinstance(x, ast.Call) and isinstance(x.func, ast.Attribute)):
                    continue
                rec = x.func.value
                via = None
                reached = None
                m2 = x.func.attr
                if isinstance(rec, ast.Call) and isinstance(rec.func, ast.Name) and rec.func.id == "super":
                    via = "super()"
                    reached = next((k.methods[m2] for k in fi.cls.mro[1:] if m2 in k.methods), None)
                elif isinstance(rec, (ast.Name, ast.Attribute)) and x.args and isinstance(x.args[0], ast.Name) and x.args[0].id == fi.self_name:
                    k = prog.resolve_class_expr(fi.module.name, rec, fi.cls)
                    if k is not None and k is not ci and k in ci.mro:
                        via = src(rec)
                        reached = prog.lookup_method(k, m2)
                if via is None:
                    continue
                n += 1
                own = prog.lookup_method(ci, m2)
                overriding = m2 != fi.name and own is not None and reached is not None and own is not reached
                ctx.check(not overriding, rule, R.key_of(fi, "no-bypass:%s" % m2), fi.loc(x),
                          "%s.%s(...) inside %s extends the same method" % (via, m2, fi.name),
                          "`%s` inside %s.%s runs the base implementation of %s, but %s resolves %s to %s: the override that works on the "
                          "refined one-dimensional point sets is bypassed" % (src(x)[:120], ci.name, fi.name, m2, ci.name, m2,
                                                                              prog.lookup_method(ci, m2).qual if prog.lookup_method(ci, m2) else "?"))
    ctx.floor(rule, nm, 20, "methods of the dimension-wise strategy scanned for calls that bypass an override")
    if n == 0:
        ctx.ok(rule, "%s::no-bypass" % sd.qual, "sparseSpACE/spatiallyAdaptiveSingleDimension2.py", "no super()/Base.method call in the strategy")
