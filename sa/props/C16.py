"""C16 -- density estimation solves the right linear system.

Decided structural clauses:
 D1 the full system matrices are symmetric by construction (paired stores in the triangular loops)
 D2 lambda reaches the full matrices only on the diagonal, exactly once per diagonal entry
 D3 every entry of the right-hand side is scaled by 1/M (M = number of samples) exactly once on every path
 D4 label signs stay attached: the sign factor of an accumulation derives from self.classes[k] for the very sample data[k]
 D5 the normalising division is guarded by a non-zero test on a divisor built from the clipped values and the weights
 D6 uniform-grid Gram entries as polynomial identities: with h = 2^-l the per-dimension factors are 2h/3 = 1/(3*2^(l-1)) for
    identical hats and h/6 = 1/(12*2^(l-1)) for neighbouring hats, 0 for disjoint supports; the diagonal is the product of the
    first over all dimensions
 D7 the three hat evaluations count the centre of a hat exactly once (necessary for their agreement on grid points): see sa/hats.py
Not decided: the non-uniform Gram entries, positive definiteness, agreement of the three hat evaluations beyond D7 (numerical)."""
import ast

from ..cfg import cfg_of, walk_local
from ..loader import AnalysisError, src
from ..terms import Terms, terms_of, show, subterms, norm_cmp
from .. import rules as R

EXPLANATION = ("Static analysis of GridOperation.DensityEstimation: paired symmetric stores in triangular loops, guard analysis of "
               "every use of lambda in the full-matrix builders, an exactly-once path argument for the 1/M scaling of the "
               "right-hand side (whole-vector scalings vs the reuse branch's per-entry scaling), same-index checks between the "
               "sample and its class label at every accumulation, and guard checks of the normalising divisions.")

DE = "GridOperation.DensityEstimation"


def run(prog, ctx):
    de = prog.cls(DE)
    br = prog.func(DE + ".build_R_matrix")
    bd = prog.func(DE + ".build_R_matrix_dimension_wise")
    ctx.touch(br, bd)

    # ------------------------------------------------------------------ D1
    n1 = 0
    for fi in (br, bd):
        rep = R.symmetric_store_report(fi)
        for k, (st, m, ok, detail) in enumerate(rep):
            n1 += 1
            ctx.check(ok, "C16.D1", R.key_of(fi, "symmetric:%s#%d" % (m, k)), fi.loc(st),
                      "upper-triangle store has its mirrored companion (%s)" % detail,
                      "`%s` inside a triangular loop has no mirrored store %s[j][i] with the same value: the system matrix is not symmetric" % (src(st), m))
        for k, (loop, ok, detail) in enumerate(R.triangle_coverage_report(fi)):
            ctx.check(ok, "C16.D1", R.key_of(fi, "whole-triangle#%d" % k), fi.loc(loop),
                      "the triangular loop pair enumerates every pair j >= i (%s)" % detail,
                      "the inner loop `for %s in %s` stops before the end of the index range of the outer loop (%s): entries outside that band "
                      "keep their initial value" % (loop.target.id, src(loop.iter), detail))
    ctx.floor("C16.D1", n1, 3, "triangular-loop stores in the R-matrix builders")

    # ------------------------------------------------------------------ D2
    lam = ("a", ("n", "self"), "lambd")
    n2 = 0
    for fi in (br, bd):
        tm = Terms(fi.node, max_depth=0)
        c = cfg_of(fi)
        for n in c.nodes:
            if n.kind != "stmt" or n.idx not in c.reachable() or n.ast is None:
                continue
            if not any(R.self_attr(x, "self") == "lambd" for x in ast.walk(n.ast)):
                continue
            guards = [g for (g, gn) in R.dominating_guards(fi, n, tm) if gn.kind == "test"]
            if ("a", ("n", "self"), "masslumping") in guards:
                continue        # lumped form: not claimed (the two implementations disagree, the statement does not say)
            st = n.ast
            n2 += 1
            ok = False
            why = "unrecognised use of lambda"
            if isinstance(st, ast.AugAssign) and isinstance(st.op, ast.Add) and isinstance(st.target, ast.Subscript):
                sl = tm.term(st.target.slice)
                val = tm.term(st.value)
                lam_once = sum(1 for x in subterms(val) if x == lam) == 1 and (val == lam or (val[0] == "op" and val[1] == "Add" and lam in val[2]))
                if sl[0] == "call" and sl[1][0] == "a" and sl[1][2] in ("diag_indices_from", "diag_indices"):
                    loops = R.enclosing_loops(st)
                    ok = lam_once and not loops
                    why = "lambda is added through diag_indices %s" % ("inside a loop (more than once)" if loops else "but not exactly once")
                else:
                    ip = R._index_pair(st.target, tm)
                    if ip is not None:
                        eq = norm_cmp("Eq", ip[1], ip[2])
                        ok = lam_once and eq in guards and val == lam
                        why = "lambda is added to %s[%s][%s] under %s" % (ip[0], show(ip[1]), show(ip[2]), [show(g) for g in guards][-2:])
                        # the addition happens after the plain store of that entry (otherwise it is overwritten)
                        if ok:
                            inner = [l for l in n.loops][-1] if n.loops else None
                            plain = [c.node_of(s2) for s2 in walk_local(fi.node) if isinstance(s2, ast.Assign) and isinstance(s2.targets[0], ast.Subscript)
                                     and R._index_pair(s2.targets[0], tm) is not None and R._index_pair(s2.targets[0], tm)[0] == ip[0]
                                     and inner is not None and c.in_loop(c.node_of(s2), inner)]
                            before = [p for p in plain if c.dominates(p, n)]
                            head = c.node_of(inner) if inner is not None else None
                            later = [p for p in plain if head is not None and p.idx in c.reachable_after(n, blocked=[head])]
                            ok = len(before) >= 1 and not later
                            why = "the diagonal entry is not assigned before / is (re)assigned after lambda was added in the same iteration"
            elif isinstance(st, ast.Assign):
                why = "lambda is folded into a plain store `%s`" % src(st)
                ip = R._index_pair(st.targets[0], tm) if isinstance(st.targets[0], ast.Subscript) else None
                if ip is not None:
                    a_, b_ = R.resolve_locals(fi, ip[1], n, tm), R.resolve_locals(fi, ip[2], n, tm)
                    if a_ == b_:
                        ok = True       # a store into a diagonal entry (row index == column index)
            ctx.check(ok, "C16.D2", R.key_of(fi, "lambda-on-diagonal#%d" % n2), fi.loc(st),
                      "lambda is added exactly once, to diagonal entries only",
                      "in the full system matrix %s -- lambda must be added to the diagonal entries only, once each" % why)
    ctx.floor("C16.D2", n2, 3, "uses of lambda in the full-matrix builders")

    # ------------------------------------------------------------------ D3 / D4
    n4 = 0
    for fq in (DE + ".calculate_B", DE + ".calculate_B_dimension_wise"):
        fi = prog.func(fq)
        ctx.touch(fi)
        tm = Terms(fi.node, max_depth=0)
        c = cfg_of(fi)
        data = fi.params[1]
        Mt = ("call", ("n", "len"), (("n", data),), ())
        # role of M: the local defined as len(data)
        Ms = [nm for nm, bs in tm.env.bindings.items() if any(b.kind == "assign" and b.value is not None and tm.term(b.value) == Mt for b in bs)]
        MN = Ms[0] if Ms else "M"
        inv = ("op", "Div", (("c", "1"), ("n", MN)))
        okM = any(b.kind == "assign" and tm.term(b.value) == Mt for b in tm.env.bindings.get(MN, [])) and len(tm.env.bindings.get(MN, [])) == 1
        ctx.check(okM, "C16.D3", R.key_of(fi, "M-is-sample-count"), fi.loc(), "M = len(data)",
                  "the scaling constant M of the right-hand side is not len(%s)" % data)
        rets = [r for r in R.return_paths(fi)[0]]
        bname = rets[0].ast.value.id if rets and isinstance(rets[0].ast.value, ast.Name) else "b"
        whole, per_entry = [], []
        for n in c.nodes:
            if n.kind == "stmt" and isinstance(n.ast, ast.AugAssign) and isinstance(n.ast.op, ast.Mult) and n.idx in c.reachable():
                tg = n.ast.target
                if isinstance(tg, ast.Name) and tg.id == bname and tm.term(n.ast.value) == inv:
                    whole.append(n)
                if isinstance(tg, ast.Subscript) and isinstance(tg.value, ast.Name) and tg.value.id == bname and tm.term(n.ast.value) == inv:
                    per_entry.append(n)
        # the reuse branch: entries copied from an already scaled vector, the others recomputed and scaled one by one
        # role of the old vector: the local bound to self.old_B[...]
        OBN = {nm for nm, bs in tm.env.bindings.items() for b in bs if b.kind == "assign" and b.value is not None
               and tm.term(b.value)[0] == "s" and tm.term(b.value)[1] == ("a", ("n", "self"), "old_B")}
        copies = []
        for n in c.nodes:
            if n.kind == "stmt" and isinstance(n.ast, ast.Assign) and isinstance(n.ast.targets[0], ast.Subscript) and \
                    isinstance(n.ast.targets[0].value, ast.Name) and n.ast.targets[0].value.id == bname and n.idx in c.reachable():
                v = tm.term(n.ast.value)
                if v[0] == "s" and v[1][0] == "n" and v[1][1] in OBN:
                    copies.append(n)
        markers = [c.node_of(b.stmt) for nm in OBN for b in tm.env.bindings.get(nm, []) if b.kind == "assign"]
        ok = bool(whole) and bool(per_entry) and bool(copies) and len(markers) == 1
        why = "expected a whole-vector scaling, a per-entry scaling (reuse branch) and the copy of old entries"
        if ok:
            marker = markers[0]
            ok = all(c.dominates(marker, x) for x in copies + per_entry)
            why = "the copy of old entries / the per-entry scaling is not confined to the reuse branch"
        if ok:
            # (a) every path to the return passes a whole-vector scaling or the reuse branch
            a_ok = all(c.must_pass_through(c.entry, [r], whole + [marker]) for r in rets)
            # (b) never both / never twice
            b_ok = not any(w2.idx in c.reachable_after(w) for w in whole for w2 in whole) and \
                not any(w.idx in c.reachable_after(marker) for w in whole) and not any(marker.idx in c.reachable_after(w) for w in whole)
            # (c) per-entry scaling: once per recomputed entry -- in the loop over entries, outside the accumulation loop, under the
            #     "not copied" test, and after the accumulation
            c_ok = True
            for pe in per_entry:
                loops = [l for l in pe.loops if isinstance(l, ast.For)]
                idx = tm.term(pe.ast.target.slice)
                inner_ok = len(loops) == 1 and isinstance(loops[0].target, ast.Name) and idx == ("n", loops[0].target.id)
                accs = [n for n in c.nodes if n.kind == "stmt" and isinstance(n.ast, ast.AugAssign) and isinstance(n.ast.op, ast.Add)
                        and isinstance(n.ast.target, ast.Subscript) and isinstance(n.ast.target.value, ast.Name) and n.ast.target.value.id == bname
                        and loops and c.in_loop(n, loops[0])]
                after_acc = bool(accs) and all(len(a.loops) > len(pe.loops) for a in accs)
                guards = [g for (g, gn) in R.dominating_guards(fi, pe, tm) if gn.kind == "test" and loops and c.in_loop(gn, loops[0])]
                guarded = any(g[0] == "cmp" and g[1] == "Eq" and ("s", ("n", bname), idx) in (g[2], g[3]) for g in guards)
                c_ok = c_ok and inner_ok and after_acc and guarded
            ok = a_ok and b_ok and c_ok
            why = "every path scaled once=%s, never twice=%s, recomputed entries scaled once each=%s" % (a_ok, b_ok, c_ok)
        ctx.check(ok, "C16.D3", R.key_of(fi, "scaled-exactly-once"), fi.loc(),
                  "every entry of the right-hand side is multiplied by 1/M exactly once on every path",
                  "right-hand side scaling by 1/M: " + why)

        # D4: sign factors
        for n in c.nodes:
            if n.kind == "stmt" and isinstance(n.ast, ast.AugAssign) and isinstance(n.ast.op, ast.Add) and isinstance(n.ast.target, ast.Subscript) \
                    and isinstance(n.ast.target.value, ast.Name) and n.ast.target.value.id == bname and n.idx in c.reachable():
                t = tm.term(n.ast.value)
                # role of the sign factor: a local some definition of which reads self.classes[...] (the other one being the constant 1)
                def _label_reads(b):
                    """class-label subscripts that decide / make up this definition: in its value, or in a test that dominates it"""
                    found = {x[2] for x in subterms(tm.term(b.value)) if x[0] == "s" and x[1] == ("a", ("n", "self"), "classes")}
                    bn = c.node_of(b.stmt)
                    if bn is not None:
                        for (g, gn) in R.dominating_guards(fi, bn, tm):
                            if gn.kind == "test" and gn.loops and n.loops and any(l in n.loops for l in gn.loops):
                                found |= {x[2] for x in subterms(g) if x[0] == "s" and x[1] == ("a", ("n", "self"), "classes")}
                    return found
                SG = {nm for nm, bs in tm.env.bindings.items() for b in bs if b.kind == "assign" and b.value is not None
                      and not isinstance(b.value, (ast.ListComp, ast.GeneratorExp, ast.Call)) and _label_reads(b)}
                used_sg = [x[1] for x in subterms(t) if x[0] == "n" and x[1] in SG]
                if not used_sg:
                    continue
                n4 += 1
                # the sample index used in the accumulated value
                sample_idx = {x[2] for x in subterms(t) if x[0] == "s" and x[1] == ("n", data)}
                # `result` style: value computed from data[i] earlier in the same iteration
                if not sample_idx:
                    for nm in {x[1] for x in subterms(t) if x[0] == "n"}:
                        for b in tm.env.bindings.get(nm, []):
                            if b.kind == "assign" and b.value is not None:
                                sample_idx |= {x[2] for x in subterms(tm.term(b.value)) if x[0] == "s" and x[1] == ("n", data)}
                sdefs = [b for nm in set(used_sg) for b in tm.env.bindings.get(nm, []) if b.kind == "assign"]
                loops = [l for l in n.loops]
                rel = [b for b in sdefs if any(l in [x for x in R.enclosing_loops(b.stmt)] for l in loops)]
                label_idx = set()
                bad_def = []
                for b in rel:
                    v = tm.term(b.value)
                    if v in (("c", "1.0"), ("c", "1")):
                        continue
                    found = _label_reads(b)
                    if not found:
                        bad_def.append(src(b.stmt))
                    label_idx |= found
                ok = len(sample_idx) == 1 and label_idx == sample_idx and not bad_def and bool(rel)
                ctx.check(ok, "C16.D4", R.key_of(fi, "label-of-same-sample#%d" % n4), fi.loc(n.ast),
                          "the sign factor is the class label of the very sample that is evaluated (index %s)" % [show(x) for x in sample_idx],
                          "`%s` evaluates sample index %s but takes the class label at index %s%s: labels are attached to the wrong samples"
                          % (src(n.ast)[:90], [show(x) for x in sample_idx], [show(x) for x in label_idx],
                             (", sign defined by " + str(bad_def)) if bad_def else ""))
        # vectorised small-grid path: whole label vector against the whole data
        for st in walk_local(fi.node):
            if isinstance(st, ast.Assign):
                t = tm.term(st.value)
                cls_uses = [x for x in subterms(t) if x == ("a", ("n", "self"), "classes")]
                if cls_uses and isinstance(st.targets[0], ast.Name) and isinstance(st.value, (ast.Call, ast.BinOp)):
                    n4 += 1
                    sliced = any(x[0] == "s" and x[1] == ("a", ("n", "self"), "classes") for x in subterms(t))
                    ctx.check(not sliced, "C16.D4", R.key_of(fi, "vectorised-labels#%d" % n4), fi.loc(st),
                              "the vectorised path multiplies by the whole label vector",
                              "`%s` uses only part of / a permutation of the label vector against all samples" % src(st)[:100])
    ctx.floor("C16.D4", n4, 3, "label-sign sites in the right-hand side builders")

    # ------------------------------------------------------------------ D6
    check_uniform_gram(prog, ctx)
    # ------------------------------------------------------------------ D2 (reuse branch): values read back from the matrix-entry
    # cache reach the matrix like fresh Gram entries, so the cache must hold lambda-free entries (rule shared with C17.D1)
    from .C17 import check_matrix_cache
    check_matrix_cache(prog, ctx, "C16.D2")
    from .C17 import check_pair_arguments
    ctx.floor("C16.D2.pairs", check_pair_arguments(prog, ctx, "C16.D2"), 3, "pair routines (scalar products, overlap key) in build_R_matrix_dimension_wise")
    # ------------------------------------------------------------------ D7
    from ..hats import check_hat_centre
    ctx.floor("C16.D7", check_hat_centre(prog, ctx, "C16.D7"), 3, "hat implementations analysed for the centre rule")
    from ..hats import check_support_enumeration
    ctx.floor("C16.D7.support", check_support_enumeration(prog, ctx, "C16.D7"), 1, "floor/ceil enumerations of the hats around a sample")

    # ------------------------------------------------------------------ D5
    for fq in (DE + ".solve_density_estimation", DE + ".solve_density_estimation_dimension_wise"):
        fi = prog.func(fq)
        ctx.touch(fi)
        tm = Terms(fi.node, max_depth=0)
        c = cfg_of(fi)
        divs = []
        # role of the normalising integral: the local(s) that the surpluses are divided by (the divisor of a `/` or `/=` whose
        # dividend involves the solution of the linear system, i.e. is not a literal)
        divisor_names = set()
        for n in c.nodes:
            if n.kind != "stmt" or n.ast is None or n.idx not in c.reachable():
                continue
            for x in ast.walk(n.ast):
                if isinstance(x, ast.BinOp) and isinstance(x.op, ast.Div) and isinstance(x.right, ast.Name) and not isinstance(x.left, (ast.Constant, ast.Call)):
                    divisor_names.add(x.right.id)
            if isinstance(n.ast, ast.AugAssign) and isinstance(n.ast.op, ast.Div) and isinstance(n.ast.value, ast.Name):
                divisor_names.add(n.ast.value.id)
        # ... restricted to locals computed from clipped / summed values (not sizes like len(...))
        INT = {nm for nm in divisor_names if any(b.kind == "assign" and b.value is not None and
                                                 any(isinstance(y, ast.Attribute) and y.attr in ("clip", "sum", "inner", "dot", "mean") for y in ast.walk(b.value))
                                                 for b in tm.env.bindings.get(nm, []))}
        for n in c.nodes:
            if n.kind != "stmt" or n.ast is None or n.idx not in c.reachable():
                continue
            for x in ast.walk(n.ast):
                if isinstance(x, ast.BinOp) and isinstance(x.op, ast.Div) and isinstance(x.right, ast.Name) and x.right.id in INT:
                    divs.append((n, x))
            if isinstance(n.ast, ast.AugAssign) and isinstance(n.ast.op, ast.Div) and isinstance(n.ast.value, ast.Name) and n.ast.value.id in INT:
                divs.append((n, n.ast))
        ok = bool(divs)
        why = "no division by the normalising integral found"
        for (n, x) in divs:
            guards = [g for (g, gn) in R.dominating_guards(fi, n, tm) if gn.kind == "test"]
            dn = x.right.id if isinstance(x, ast.BinOp) else x.value.id
            nz = any(g[0] == "cmp" and g[1] == "NotEq" and ("n", dn) in (g[2], g[3]) and
                     any(y[0] == "c" and float(ast.literal_eval(y[1])) == 0 for y in (g[2], g[3]) if y[0] == "c") for g in guards)
            if not nz:
                ok = False
                why = "`%s` divides by the integral without a dominating non-zero test" % src(x)[:60]
        defs = [b for nm in sorted(INT) for b in tm.env.bindings.get(nm, []) if b.kind == "assign"]
        tmd = Terms(fi.node)
        # the clipped values are those of the vector that is divided: the receiver of clip(...) and the dividend are reached by the same
        # bindings (a positive part taken BEFORE the class-label shift normalises the shifted surpluses with the unshifted integral)
        for (n, x) in divs:
            dividend = x.left if isinstance(x, ast.BinOp) else x.target
            if not isinstance(dividend, ast.Name):
                continue
            closure, todo = [], [b.value for b in defs]
            seen_names = set()
            while todo:
                e = todo.pop()
                closure.append(e)
                for y in ast.walk(e):
                    if isinstance(y, ast.Name) and y.id not in seen_names and y.id != dividend.id:
                        seen_names.add(y.id)
                        todo += [b2.value for b2 in tm.env.bindings.get(y.id, []) if b2.kind == "assign" and b2.value is not None]
            for e in closure:
                for y in ast.walk(e):
                    if isinstance(y, ast.Call) and isinstance(y.func, ast.Attribute) and y.func.attr == "clip" and isinstance(y.func.value, ast.Name) \
                            and y.func.value.id == dividend.id:
                        cn, dn_ = c.node_containing(y), c.node_containing(dividend)
                        between = [b2 for b2 in tm.env.bindings.get(dividend.id, []) if b2.kind != "param" and isinstance(b2.stmt, ast.stmt)
                                   and c.node_of(b2.stmt) is not None and cn is not None and dn_ is not None
                                   and c.node_of(b2.stmt) is not cn
                                   and c.node_of(b2.stmt).idx in c.reachable_after(cn) and dn_.idx in c.reachable_after(c.node_of(b2.stmt))]
                        if between:
                            ok = False
                            why = ("the positive part `%s` (line %d) is taken from another value of `%s` than the one that is divided in `%s`: "
                                   "a re-binding of `%s` lies between them" % (src(y), y.lineno, dividend.id, src(x)[:60], dividend.id))
        for b in defs:
            t = tmd.term(b.value)
            clipped = any(y[0] == "call" and y[1][0] == "a" and y[1][2] == "clip" and dict(y[3]).get("min") in (("c", "0.0"), ("c", "0")) for y in subterms(t))
            if not clipped:
                ok = False
                why = "the normalising integral `%s` is not computed from the positive parts (clip(min=0))" % src(b.stmt)[:80]
        ctx.check(ok and bool(defs), "C16.D5", R.key_of(fi, "guarded-normalisation"), fi.loc(),
                  "the surpluses are divided by the mean of the positive parts only when it is non-zero",
                  "normalisation of the surpluses: " + why)
    # ------------------------------------------------------------------ D8 (shared with C17.D5)
    from .C17 import check_per_dimension_caches
    check_per_dimension_caches(prog, ctx, "C16.D8")


def gram_factor_checks(prog, ctx, fi, rule, mass_names=None, lv=None):
    """Per-dimension factors multiplied into an entry under the three overlap cases, compared with the hat-function integrals."""
    from ..absint import poly_of_term, Poly
    tm = Terms(fi.node, max_depth=0)
    c = cfg_of(fi)
    out = []
    if mass_names is None:
        # role: plain locals that are stored into a matrix entry  M[i, j] = <local>  /  M[i][j] = <local>
        mass_names = {st.value.id for st in walk_local(fi.node) if isinstance(st, ast.Assign) and isinstance(st.targets[0], ast.Subscript)
                      and isinstance(st.value, ast.Name) and R._index_pair(st.targets[0], tm) is not None}
    for n in c.nodes:
        if n.kind == "stmt" and isinstance(n.ast, ast.AugAssign) and isinstance(n.ast.op, ast.Mult) and isinstance(n.ast.target, ast.Name) \
                and n.ast.target.id in mass_names and n.idx in c.reachable():
            out.append((n, R.normalise_positions(fi, tm.term(n.ast.value), n, tm)))      # temporaries such as `h = 2 ** (l - 1)` and per-dimension tables `f[k]` are looked through
    return out


def check_uniform_gram(prog, ctx):
    from ..absint import poly_of_term, Poly
    from fractions import Fraction
    br = prog.func(DE + ".build_R_matrix")
    tm = Terms(br.node, max_depth=0)
    c = cfg_of(br)

    def P(kvar):
        return ("op", "Pow", (("c", "2"), ("op", "Sub", (("s", ("n", br.params[1]), ("n", kvar)), ("c", "1")))))

    def inv_of(kvar, m):
        return poly_of_term(("op", "Div", (("c", "1"), ("op", "Mult", (P(kvar), ("c", str(m)))))))
    facs = gram_factor_checks(prog, ctx, br, "C16.D6")
    same = [x for x in facs]
    n_ok = {"identical": 0, "neighbour": 0}
    problems = []
    for (n, t) in facs:
        loops = [l for l in n.loops if isinstance(l, ast.For) and isinstance(l.target, ast.Name)]
        k = loops[-1].target.id if loops else None
        guards = [g for (g, gn) in R.dominating_guards(br, n, tm) if gn.kind == "test" and loops and c.in_loop(gn, loops[-1])]
        eq = any(g[0] == "cmp" and g[1] == "Eq" and g[2][0] == "n" and g[3][0] == "n" for g in guards)
        p_ = poly_of_term(t)
        if eq:
            if p_ == inv_of(k, 3):
                n_ok["identical"] += 1
            else:
                problems.append("identical hats: factor %s is not 1/(3*2^(l-1))" % show(t))
        else:
            if p_ == inv_of(k, 12):
                n_ok["neighbour"] += 1
            else:
                problems.append("neighbouring hats: factor %s is not 1/(12*2^(l-1))" % show(t))
    # diagonal value: product over all dimensions of the identical-hat factor
    dv_ok = False
    for b in [b for bs in tm.env.bindings.values() for b in bs]:
        if b.kind == "assign" and b.value is not None and any(isinstance(y, ast.Attribute) and y.attr == "prod" for y in ast.walk(b.value)):
            t = Terms(br.node).term(b.value)
            if t[0] == "call" and t[1] == ("a", ("n", "np"), "prod") and t[2] and t[2][0][0] == "comp":
                comp = t[2][0]
                body, gens = comp[2], comp[3]
                rng = gens[0][1]
                want = ("op", "Div", (("c", "1"), ("op", "Mult", tuple(sorted((("op", "Pow", (("c", "2"), ("op", "Sub", (("s", ("n", br.params[1]), ("bv", "$0")), ("c", "1"))))), ("c", "3")), key=repr)))))
                dv_ok = poly_of_term(body) == poly_of_term(want) and rng[0] == "call" and rng[1] == ("n", "range") and gens[0][2] == ()
    if not dv_ok:
        problems.append("the diagonal value is not the product over all dimensions of 1/(3*2^(l_k-1))")
    ok = not problems and n_ok["identical"] >= 1 and n_ok["neighbour"] >= 1
    ctx.check(ok, "C16.D6", R.key_of(br, "uniform-gram-entries"), br.loc(),
              "uniform Gram factors are 1/(3*2^(l-1)) (identical hats) and 1/(12*2^(l-1)) (neighbours); diagonal = product of the former",
              "uniform-grid Gram matrix: " + ("; ".join(problems) or "overlap cases not found (identical=%d, neighbour=%d)" % (n_ok["identical"], n_ok["neighbour"])))
    # disjoint supports contribute nothing
    zero = False
    for n in c.nodes:
        if n.kind == "stmt" and isinstance(n.ast, ast.Assign) and isinstance(n.ast.targets[0], ast.Name) \
                and n.ast.targets[0].id in {nn.ast.target.id for (nn, _t) in facs} \
                and isinstance(n.ast.value, ast.Constant) and n.ast.value.value == 0 and n.loops:
            zero = True
    ctx.check(zero, "C16.D6", R.key_of(br, "disjoint-supports-zero"), br.loc(), "entries of hats with disjoint supports are 0",
              "build_R_matrix no longer zeroes entries of hats with disjoint supports")
