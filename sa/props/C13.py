"""C13 -- the adaptive driver honours its stopping rules and reports truthful numbers.

Decided structural clauses:
 D1 loop shape: per iteration exactly one append to each history array, after the evaluation of that iteration and
    before every stop test and before the refinement
 D2 the two armed stop conditions as relations between dataflow origins (error of this iteration, tol, point count of this
    iteration, min/max limits), evaluated before refining; the count tested equals the count recorded
 D3 no refinement after a stop: refine is called only inside the loop, behind the stop tests
 D4 error estimates are never negative (sign domain over the returned expressions)
 D5 the three global error estimates agree: None without reference, absolute for a zero reference, else relative to the
    same reference attribute
 D6 the reported point count is the size of the integrand's evaluation dictionary, and that dictionary is reset whenever an
    operation is (re-)initialised for a run
Not decided: benefits non-negative, point counts monotone, reported count == distinct evaluations (runtime facts)."""
import ast

from ..absint import sign_of, is_nonneg
from ..cfg import cfg_of, walk_local
from ..loader import AnalysisError, src
from ..terms import Terms, terms_of, show, subterms, negate
from .. import rules as R
from .. import strategies as S

EXPLANATION = ("Static analysis of SpatiallyAdaptivBase.continue_adaptive_refinement (CFG dominance for the history appends, "
               "normalised comparison terms whose operands are identified by dataflow origin for the stop tests), a sign abstract "
               "interpretation of every error estimate's returned expression, and sibling agreement of the three "
               "get_global_error_estimate implementations modulo the result attribute.")

BASE = S.BASE
CAR = BASE + ".continue_adaptive_refinement"
ARRAYS = ("error_array", "surplus_error_array", "num_point_array")


def _drop_default_kwargs(prog, t, callee):
    """Remove keyword arguments equal to the callee's declared defaults."""
    if t[0] != "call" or callee is None:
        return t
    a = callee.node.args
    names = [x.arg for x in a.posonlyargs + a.args]
    defaults = dict(zip(names[len(names) - len(a.defaults):], a.defaults))
    tmc = Terms(callee.node)
    kws = tuple((k, v) for (k, v) in t[3] if not (k in defaults and tmc.term(defaults[k]) == v))
    return (t[0], t[1], t[2], kws)


def run(prog, ctx):
    car = prog.func(CAR)
    ctx.touch(car)
    c = cfg_of(car)
    tm = Terms(car.node)
    loops = [l for l in walk_local(car.node) if isinstance(l, ast.While)]
    if not loops:
        raise AnalysisError("C13: the driver loop of continue_adaptive_refinement vanished")
    loop = loops[0]

    def events(name):
        out = []
        for call in [n for n in walk_local(car.node) if isinstance(n, ast.Call)]:
            hit = isinstance(call.func, ast.Attribute) and call.func.attr == name and R.attr_chain(call.func.value) == [car.self_name]
            for a in call.args:
                if isinstance(a, ast.Attribute) and a.attr == name and R.attr_chain(a.value) == [car.self_name]:
                    hit = True
            if hit:
                out.append((call, R.cfg_node(car, call)))
        return out
    E = events("evaluate_operation")
    Rf = events("refine")
    ctx.floor("C13.events", len(E) + len(Rf), 2, "evaluate/refine call sites in the driver loop")
    breaks = [n for n in c.nodes if n.kind == "stmt" and isinstance(n.ast, ast.Break) and c.in_loop(n, loop) and n.idx in c.reachable()]
    other_exits = [n for n in c.nodes if n.kind == "stmt" and isinstance(n.ast, ast.Return) and c.in_loop(n, loop) and n.idx in c.reachable()]

    # ------------------------------------------------------------------ D1
    for arr in ARRAYS:
        apps = [x for x in R.method_calls_on_attr(car.node, arr, {"append"}, car.self_name)]
        others = [s for s in R.self_stores(car, arr) if not (s.kind == "mutator" and s.call.func.attr == "append")]
        ok = len(apps) == 1 and not others
        why = "%d appends, %d other writes" % (len(apps), len(others))
        if ok:
            an = R.cfg_node(car, apps[0])
            in_loop_only = [l for l in an.loops] == [loop]
            afterE = any(c.dominates(en, an) and c.in_loop(en, loop) for (_c, en) in E)
            before_stops = all(c.dominates(an, b) for b in breaks + other_exits)
            before_refine = all(c.dominates(an, rn) for (_c, rn) in Rf)
            ok = in_loop_only and afterE and before_stops and before_refine
            why = "in loop only=%s, after evaluation=%s, before every stop=%s, before refine=%s" % (in_loop_only, afterE, before_stops, before_refine)
        ctx.check(ok, "C13.D1", R.key_of(car, "once-per-iteration:%s" % arr), car.loc(apps[0]) if apps else car.loc(),
                  "exactly one entry per evaluation is appended to %s before any stop test" % arr,
                  "%s does not get exactly one entry per evaluation (%s)" % (arr, why))
    # what is appended
    e_unpack = None
    for (call, en) in E:
        par = getattr(call, "_parent", None)
        if isinstance(par, ast.Assign) and isinstance(par.targets[0], ast.Tuple) and len(par.targets[0].elts) == 2:
            e_unpack = [x.id if isinstance(x, ast.Name) else None for x in par.targets[0].elts]
    tm0 = Terms(car.node, max_depth=0)
    if e_unpack:
        for arr, want in (("error_array", e_unpack[0]), ("surplus_error_array", e_unpack[1])):
            apps = R.method_calls_on_attr(car.node, arr, {"append"}, car.self_name)
            ok = bool(apps) and apps[0].args and tm0.term(apps[0].args[0]) == ("n", want)
            ctx.check(ok, "C13.D1", R.key_of(car, "records:%s" % arr), car.loc(apps[0]) if apps else car.loc(),
                      "%s records the value returned by this iteration's evaluation" % arr,
                      "%s does not record component of this iteration's evaluate_operation result" % arr)

    # ------------------------------------------------------------------ D2
    gtp = prog.lookup_method(prog.cls(BASE), "get_total_num_points")
    ncall = ("call", ("a", ("n", car.self_name), "get_total_num_points"), (), ())

    def normN(t):
        out = t
        if t[0] == "call" and t[1] == ncall[1]:
            out = _drop_default_kwargs(prog, t, gtp)
        return out
    if e_unpack is None:
        raise AnalysisError("C13.D2: the result of evaluate_operation is no longer unpacked into (error, surplus_error)")
    err_name = e_unpack[0]
    params = car.params
    tol_break = max_break = None
    unknown_breaks = []
    for b in breaks:
        # the alternatives under which this break is reached: one conjunction per `if` / per disjunct of an `or`
        alts = R.trailing_true_conjunctions(car, b, tm0, within=lambda p_: c.in_loop(p_, loop) and p_.ast is not loop.test)
        conj_nodes = {}
        for gn in c.nodes:
            if gn.kind == "test" and c.in_loop(gn, loop):
                conj_nodes.setdefault(tm0.term(gn.ast), gn)
                from ..terms import negate as _neg
                conj_nodes.setdefault(_neg(tm0.term(gn.ast)), gn)
        for alt in alts:
            gset = set()
            for g in alt:
                gn = conj_nodes.get(g)
                gset.add(_resolve_names(car, g, gn, tm, normN) if gn is not None else g)
            names = {x[1] for g in gset for x in subterms(g) if x[0] == "n"}
            if "tol" in names:
                tol_break = (b, gset)
            elif "max_evaluations" in names:
                max_break = (b, gset)
            elif "max_time" in names:
                pass
            else:
                unknown_breaks.append((b, gset))
        if not alts:
            unknown_breaks.append((b, set()))
    want_tol = {("cmp", "LtE", ("n", err_name), ("n", "tol")), ("cmp", "LtE", ("n", "min_evaluations"), ncall)}
    ok = tol_break is not None and tol_break[1] == want_tol
    ctx.check(ok, "C13.D2", R.key_of(car, "stop:tolerance"), car.loc(tol_break[0].ast) if tol_break else car.loc(),
              "stops iff error <= tol and point count >= min_evaluations (error and count of this iteration)",
              "the tolerance stop is guarded by %s; required: {error of this evaluation <= tol, min_evaluations <= current point count}"
              % (sorted(show(g) for g in tol_break[1]) if tol_break else "nothing (break vanished)"))
    want_max = {("cmp", "IsNot", ("n", "max_evaluations"), ("c", "None")), ("cmp", "Lt", ("n", "max_evaluations"), ncall)}
    ok = max_break is not None and max_break[1] == want_max
    ctx.check(ok, "C13.D2", R.key_of(car, "stop:max-evaluations"), car.loc(max_break[0].ast) if max_break else car.loc(),
              "stops iff max_evaluations is given and the point count exceeds it",
              "the max-evaluations stop is guarded by %s; required: {max_evaluations is not None, max_evaluations < current point count}"
              % (sorted(show(g) for g in max_break[1]) if max_break else "nothing (break vanished)"))
    for (b, gset) in unknown_breaks:
        ctx.violation("C13.D2", R.key_of(car, "stop:unknown:%s" % ",".join(sorted(show(g) for g in gset))), car.loc(b.ast),
                      "an additional stop condition %s leaves the loop outside the documented stopping rules" % sorted(show(g) for g in gset))
    for x in other_exits:
        ctx.violation("C13.D2", R.key_of(car, "stop:return-in-loop"), car.loc(x.ast), "the driver loop is left by a return statement")
    # the count that is tested is the count that is recorded
    apps = R.method_calls_on_attr(car.node, "num_point_array", {"append"}, car.self_name)
    if apps and apps[0].args:
        rec = normN(tm.term(apps[0].args[0]))
        ctx.check(rec == ncall, "C13.D2", R.key_of(car, "count-recorded-is-count-tested"), car.loc(apps[0]),
                  "the recorded point count is the quantity the stop tests use",
                  "num_point_array records %s but the stop tests use %s" % (show(rec), show(ncall)))
    # the stop tests of this iteration are evaluated before refining
    for (call, rn) in Rf:
        for nm, brk in (("tolerance", tol_break), ("max-evaluations", max_break)):
            if brk is None:
                continue
            # the first test node of this stop rule: the earliest in-loop test whose literal takes part in the rule
            lits = set()
            for alt in R.trailing_true_conjunctions(car, brk[0], tm0, within=lambda p_: c.in_loop(p_, loop) and p_.ast is not loop.test):
                lits |= set(alt)
            from ..terms import negate as _neg2
            tests = [gn for gn in c.nodes if gn.kind == "test" and c.in_loop(gn, loop) and gn.ast is not loop.test
                     and (tm0.term(gn.ast) in lits or _neg2(tm0.term(gn.ast)) in lits)
                     and any(x[0] == "n" and x[1] in ({"tolerance": "tol", "max-evaluations": "max_evaluations"}[nm],)
                             for g_ in brk[1] for x in subterms(g_))]
            tests = [gn for gn in tests if any(_resolve_names(car, tm0.term(gn.ast), gn, tm, normN) in brk[1] or
                                               _resolve_names(car, _neg2(tm0.term(gn.ast)), gn, tm, normN) in brk[1] for _ in [0])]
            first = min(tests, key=lambda n: n.idx) if tests else None
            ok = first is not None and all(c.must_pass_through(en, [rn], [first]) for (_c, en) in E if c.in_loop(en, loop))
            ctx.check(ok, "C13.D2", R.key_of(car, "tested-before-refine:%s" % nm), car.loc(call),
                      "the %s stop test is evaluated between the evaluation and the refinement" % nm,
                      "refine can be reached from this iteration's evaluation without evaluating the %s stop test" % nm)

    # ------------------------------------------------------------------ D3
    ok = len(Rf) == 1 and all(c.in_loop(rn, loop) for (_c, rn) in Rf)
    ctx.check(ok, "C13.D3", R.key_of(car, "refine-only-in-loop"), car.loc(Rf[0][0]) if Rf else car.loc(),
              "refine is called once, inside the loop", "refine is called %d times / outside the driver loop" % len(Rf))
    base = prog.cls(BASE)
    fam = {x.qual for x in prog.all_subclasses(base)}
    callers = []
    for fi in prog.functions.values():
        if fi.cls is None or fi.cls.qual not in fam or fi.qual == CAR:
            continue
        for call in [n for n in walk_local(fi.node) if isinstance(n, ast.Call)]:
            hit = isinstance(call.func, ast.Attribute) and call.func.attr == "refine" and R.attr_chain(call.func.value) == [fi.self_name]
            for a in call.args:
                if isinstance(a, ast.Attribute) and a.attr == "refine" and R.attr_chain(a.value) == [fi.self_name]:
                    hit = True
            if hit:
                callers.append(fi)
    ctx.check(not callers, "C13.D3", "package::refine-callers", "sparseSpACE/*",
              "the driver loop is the only caller of the strategy's refine()",
              "refine() is also called from %s: a refinement can happen outside the stopping rules" % [f.qual for f in callers])

    # ------------------------------------------------------------------ D4
    ec = prog.cls("ErrorCalculator.ErrorCalculator")
    n4 = 0
    targets = [f for f in prog.overrides(ec, "calc_error") if f.cls is not ec]
    targets.append(prog.func("GridOperation.GridOperation.compute_difference"))
    gee = [f for f in prog.methods_named("get_global_error_estimate")
           if not R.is_stub_body(f.node) and R.return_paths(f)[0]]      # implementations that offer an estimate
    targets += gee
    for fi in targets:
        ctx.touch(fi)
        tmf = Terms(fi.node)
        withv, bare, fall = R.return_paths(fi)
        signs = []
        ps4 = R.path_summaries(fi)
        if ps4 is not None and withv:
            # loop-free: the value returned on each path with the locals of that path substituted (temporaries, values chosen in
            # branches and re-bindings do not matter)
            for (_f, v_) in ps4:
                if v_ in (("c", "None"), ("<falls-off>",)):
                    continue
                signs.append((sign_of(v_, ctx.assume), withv[0]))
        else:
            for r in withv:
                t = tmf.term(r.ast.value)
                if t == ("c", "None"):
                    continue
                signs.append((sign_of(t, ctx.assume), r))
        n4 += 1
        bad = [(s, r) for (s, r) in signs if not is_nonneg(s)]
        ctx.check(not bad and bool(signs), "C13.D4", R.key_of(fi, "nonneg-return"), fi.loc(bad[0][1].ast) if bad else fi.loc(),
                  "every returned estimate is >= 0 (%s)" % [s for (s, _r) in signs],
                  "the returned estimate `%s` is not provably non-negative (sign %s)"
                  % (src(bad[0][1].ast.value) if bad else "?", bad[0][0] if bad else "none returned"))
    ctx.floor("C13.D4", n4, 10, "error-estimate functions")

    # ------------------------------------------------------------------ D6
    check_point_count(prog, ctx)
    # ------------------------------------------------------------------ D7
    check_forwarding(prog, ctx)

    # ------------------------------------------------------------------ D8: one history entry per evaluation
    check_histories_reset_together(prog, ctx)
    # ------------------------------------------------------------------ D5
    sigs = {}
    for fi in gee:
        # path summaries: (facts of the path, returned term) with temporaries substituted -- independent of how the returns are
        # merged / split and of local names; irrelevant facts (not about the reference solution) are dropped
        ps = R.path_summaries(fi)
        shape = set()
        if ps is None:
            tmf = Terms(fi.node)
            rp = R.return_paths(fi)
            for r in sorted(rp[0] + [b for b in rp[1] if b.ast.value is not None], key=lambda n: n.lineno):
                guards = tuple(sorted((_abstract_result(g) for (g, gn) in R.dominating_guards(fi, r, tmf) if gn.kind == "test"), key=repr))
                shape.add((guards, _abstract_result(tmf.term(r.ast.value))))
        else:
            for (facts, val) in ps:
                if val == ("<falls-off>",):
                    continue
                guards = tuple(sorted((_abstract_result(g) for g in facts), key=repr))
                shape.add((guards, _abstract_result(val)))
        sigs[fi.qual] = tuple(sorted(shape, key=repr))
    ctx.floor("C13.D5", len(sigs), 3, "get_global_error_estimate implementations")
    # every implementation: None without a reference, the absolute deviation exactly when the CURRENT reference is zero, otherwise the
    # deviation divided by the reference.  Decided per path on what the path knows about self.reference_solution -- a decision taken from
    # anything else (a flag computed earlier) goes stale when the reference is installed later (set_reference_solution).
    refattr = ("a", ("n", "self"), "reference_solution")

    def about_zero(f_):
        """'zero' / 'nonzero' if the fact compares a norm (any call) of the reference with 0, else None"""
        if f_[0] == "cmp" and f_[1] in ("Eq", "NotEq"):
            sides = (f_[2], f_[3])
            if any(y[0] == "call" and y[2] and y[2][0] == refattr for y in sides) and any(y in (("c", "0"), ("c", "0.0")) for y in sides):
                return "zero" if f_[1] == "Eq" else "nonzero"
        return None

    def kind_of(val):
        if val == ("c", "None"):
            return "none"
        for x in subterms(val):
            if x[0] == "op" and x[1] == "Div" and len(x[2]) == 2:
                num, den = x[2]
                if refattr in list(subterms(den)) and refattr in list(subterms(num)) and ("$R",) in list(subterms(num)):
                    return "relative"
        if ("$R",) in list(subterms(val)):
            return "absolute"
        return "other"
    for q in sorted(sigs):
        problems = []
        kinds = set()
        for (g, val) in sigs[q]:
            k_ = kind_of(val)
            kinds.add(k_)
            zs = {about_zero(f_) for f_ in g} - {None}
            isnone = ("cmp", "Is", refattr, ("c", "None")) in g
            flags = sorted({show(f_) for f_ in g for y in subterms(f_) if y[0] == "a" and y[1] == ("n", "self") and y[2] != "reference_solution"
                            and refattr not in list(subterms(f_))})
            if k_ == "none" and not isnone:
                problems.append("returns None although a reference may be present")
            elif k_ == "absolute" and zs != {"zero"}:
                problems.append("returns the absolute deviation on a path that has not tested the current reference for zero (%s)"
                                % (("decided by " + ", ".join(flags)) if flags else "no such test"))
            elif k_ == "relative" and zs != {"nonzero"}:
                problems.append("divides by the reference on a path that has not excluded a zero reference (%s)"
                                % (("decided by " + ", ".join(flags)) if flags else "no such test"))
            elif k_ == "other":
                problems.append("returns `%s`, which is neither the absolute nor the relative deviation of the result" % show(val))
        if not problems and not {"none", "absolute", "relative"} <= kinds:
            problems.append("lacks one of the three cases (found %s)" % sorted(kinds))
        ctx.check(not problems, "C13.D5", "%s::agrees-with-siblings" % q, prog.func(q).loc(),
                  "None without a reference, absolute deviation for a zero reference, else deviation divided by the reference",
                  "%s: %s" % (q, "; ".join(problems[:2])))


def check_point_count(prog, ctx):
    check_one_key_per_point(prog, ctx)
    gd = prog.func("GridOperation.Integration.get_distinct_points")
    ini = prog.func("GridOperation.Integration.initialize")
    ctx.touch(gd, ini)
    tg = Terms(gd.node)
    ok = any(tg.term(r.ast.value) == ("call", ("a", ("a", ("n", "self"), "f"), "get_f_dict_size"), (), ()) for r in R.return_paths(gd)[0])
    ctx.check(ok, "C13.D6", R.key_of(gd, "count-is-dictionary-size"), gd.loc(),
              "the distinct point count is the size of the integrand's evaluation dictionary",
              "Integration.get_distinct_points no longer returns self.f.get_f_dict_size()")
    ci = cfg_of(ini)
    resets = [R.cfg_node(ini, x) for x in R.calls_in(ini.node, method="reset_dictionary") if R.attr_chain(x.func.value) == ["self", "f"]]
    ok = bool(resets) and any(ci.post_dominates(n, ci.entry) for n in resets)
    ctx.check(ok, "C13.D6", R.key_of(ini, "count-reset-at-initialisation"), ini.loc(),
              "initialising the operation empties the evaluation dictionary (the counter starts at 0 for every run)",
              "Integration.initialize does not reset the integrand's evaluation dictionary on every path: evaluations of an earlier run on the "
              "same function object are counted again, the reported point count exceeds the evaluations of this run")
    # the counter is reset only where a run starts: no method of the operation itself (called once per step / per component grid)
    # calls self.initialize(), which empties the evaluation dictionary
    integ = prog.cls("GridOperation.Integration")
    inner = []
    for f in integ.methods.values():
        if f.name in ("__init__", "initialize"):
            continue
        for x in R.calls_in(f.node, method="initialize"):
            if R.attr_chain(x.func.value) == [f.self_name]:
                inner.append((f, x))
    ctx.check(not inner, "C13.D6", "GridOperation.Integration::no-reinitialisation-during-a-run", inner[0][0].loc(inner[0][1]) if inner else integ.methods["initialize"].loc(),
              "no per-step method of Integration re-initialises the operation",
              "%s calls self.initialize() (line %d): the evaluation dictionary is emptied in the middle of a run, the reported point count no longer "
              "equals the number of distinct evaluations performed" % (inner[0][0].qual if inner else "", inner[0][1].lineno if inner else 0))
    tc = prog.func("StandardCombi.StandardCombi.get_total_num_points")
    ctx.touch(tc)
    tt = Terms(tc.node, max_depth=0)
    okt = False
    for r in R.return_paths(tc)[0]:
        guards = [g for (g, gn) in R.dominating_guards(tc, r, tt) if gn.kind == "test"]
        if guards == [("n", "distinct_function_evals")] and tt.term(r.ast.value) == ("call", ("a", ("a", ("n", "self"), "operation"), "get_distinct_points"), (("a", ("n", "self"), "scheme"),), ()):
            okt = True
    ctx.check(okt, "C13.D6", R.key_of(tc, "driver-count-from-operation"), tc.loc(),
              "get_total_num_points(distinct_function_evals=True) asks the operation for its distinct points",
              "get_total_num_points no longer returns operation.get_distinct_points(scheme) for distinct_function_evals=True")


def check_one_key_per_point(prog, ctx):
    """C13.D6 (shared with C12.D4): the point count the driver reports and tests against max_evaluations is the size of the integrand's
    evaluation dictionary; it equals the number of distinct evaluated points only if every path of Function.__call__ stores an
    evaluation under the point itself (two conventions for the key -- rounded on one path, raw on the other -- count one point twice)."""
    from .C12 import check_cache_discipline, BASE
    base = prog.cls(BASE)
    call = prog.func(BASE + ".__call__")
    ctx.touch(call)
    check_cache_discipline(prog, ctx, base, call, call.params[1], "C13.D6")


def _abstract_result(t):
    """rename the operation's result attribute (integral / surpluses) to $R"""
    if isinstance(t, tuple):
        if t in (("a", ("n", "self"), "integral"), ("a", ("n", "self"), "surpluses")):
            return ("$R",)
        return tuple(_abstract_result(x) for x in t)
    return t


def _resolve_names(fi, g, at_node, tm, norm):
    """Replace local names in a guard term by the term of their unique reaching definition when that definition is a call
    (e.g. num_evaluations -> self.get_total_num_points())."""
    def rec(t):
        if isinstance(t, tuple) and t and t[0] == "n":
            nm = t[1]
            if nm in fi.params:
                return t
            b = None
            for cand in ast.walk(at_node.ast):
                if isinstance(cand, ast.Name) and cand.id == nm:
                    b = R.reaching_unique_def(fi, nm, cand)
                    break
            if b is not None and b.kind == "assign" and isinstance(b.value, ast.Call):
                return norm(Terms(fi.node, max_depth=0).term(b.value))
            return t
        if isinstance(t, tuple):
            return tuple(rec(x) for x in t)
        return t
    out = rec(g)
    # re-normalise comparisons whose operands changed order relevance
    return out


def _bound_to(call, callee, pname):
    """the argument expression that `call` binds to parameter `pname` of `callee` (None if it is left to its default)"""
    for k in call.keywords:
        if k.arg == pname:
            return k.value
    params = [p for p in callee.params if p != callee.self_name]
    # an explicit Base.__init__(self, ...) call passes self positionally
    args = list(call.args)
    if isinstance(call.func, ast.Attribute) and call.func.attr == "__init__" and args and isinstance(args[0], ast.Name) and not isinstance(call.func.value, ast.Call):
        args = args[1:]
    if pname in params and params.index(pname) < len(args):
        return args[params.index(pname)]
    return None


def check_forwarding(prog, ctx, rule="C13.D7", only_limits=False):
    """D7: the limits and the norm the caller chose reach the code that uses them.  (a) performSpatiallyAdaptiv forwards tol,
    max_time, max_evaluations and min_evaluations to continue_adaptive_refinement.  (b) every strategy constructor forwards its
    `norm` (and every other parameter it shares by name with SpatiallyAdaptivBase.__init__) to the base constructor."""
    base = prog.cls(BASE)
    psa = prog.lookup_method(base, "performSpatiallyAdaptiv")
    car = prog.lookup_method(base, "continue_adaptive_refinement")
    ctx.touch(psa)
    n = 0
    for call in R.calls_in(psa.node, method="continue_adaptive_refinement"):
        for pn in [p for p in car.params if p in psa.params and p != car.self_name]:
            n += 1
            v = _bound_to(call, car, pn)
            ok = isinstance(v, ast.Name) and v.id == pn
            ctx.check(ok, rule, R.key_of(psa, "forwards:%s" % pn), psa.loc(call),
                      "performSpatiallyAdaptiv hands its `%s` on to the refinement loop" % pn,
                      "performSpatiallyAdaptiv does not pass its parameter `%s` on to continue_adaptive_refinement (%s): the loop runs with the "
                      "default instead of the caller's value" % (pn, "bound to `%s`" % src(v) if v is not None else "left to its default"))
    if only_limits:
        return
    binit = base.methods["__init__"]
    for st in [c_ for c_ in prog.all_subclasses(base, include_self=False)]:
        init = st.methods.get("__init__")
        if init is None:
            continue
        ctx.touch(init)
        supers = [x for x in R.calls_in(init.node) if isinstance(x.func, ast.Attribute) and x.func.attr == "__init__"]
        if not supers:
            continue
        call = supers[0]
        parent = prog.lookup_method(st.mro[1], "__init__") if len(st.mro) > 1 else binit
        if parent is None:
            continue
        for pn in [p for p in parent.params if p in init.params and p != parent.self_name]:
            n += 1
            v = _bound_to(call, parent, pn)
            stored = any(s_.kind == "plain" and isinstance(s_.value, ast.Name) and s_.value.id == pn for s_ in R.self_stores(init))
            ok = (isinstance(v, ast.Name) and v.id == pn) or stored
            ctx.check(ok, "C13.D7", R.key_of(init, "forwards:%s" % pn), init.loc(call),
                      "the constructor hands its `%s` on to the base constructor" % pn,
                      "%s.__init__ accepts `%s` but does not pass it to %s.__init__ (%s) nor stores it: the strategy silently runs with the base "
                      "default" % (st.name, pn, parent.cls.name, "bound to `%s`" % src(v) if v is not None else "left to its default"))
    ctx.floor("C13.D7", n, 6, "same-named parameters between a caller and the constructor / loop it delegates to")



def check_histories_reset_together(prog, ctx):
    """D8: the driver keeps one history entry per evaluation in several parallel lists (errors, point counts, surplus errors, ...), all
    appended to in the evaluation loop and returned side by side.  A routine that starts a new run by emptying some of these lists
    has to empty all of them on the same paths -- otherwise the lists have different lengths and the point counts "decrease" from the
    second run of a driver object on."""
    base = prog.cls("spatiallyAdaptiveBase.SpatiallyAdaptivBase")
    loopf = prog.lookup_method(base, "continue_adaptive_refinement")
    ctx.touch(loopf)
    # the history group: attributes of self that receive .append inside the evaluation loop and are part of the returned tuple
    appended = set()
    for x in R.calls_in(loopf.node, method="append"):
        a = R.self_attr(x.func.value, loopf.self_name)
        if a is not None and R.enclosing_loops(x):
            appended.add(a)
    returned = set()
    for r in R.return_paths(loopf)[0]:
        for y in ast.walk(r.ast.value):
            a = R.self_attr(y, loopf.self_name) if isinstance(y, ast.Attribute) else None
            if a is not None:
                returned.add(a)
    group = appended & returned
    ctx.floor("C13.D8", len(group), 3, "history lists appended per evaluation and returned")
    n = 0
    for fi in sorted(prog.functions.values(), key=lambda f: f.qual):
        if fi.cls is None or base not in fi.cls.mro or fi.name == "__init__":
            continue
        resets = {}
        for s_ in R.self_stores(fi):
            if s_.attr in group and s_.kind == "plain" and isinstance(s_.value, ast.List) and not s_.value.elts:
                resets.setdefault(s_.attr, []).append(s_)
        if not resets:
            continue
        n += 1
        c = cfg_of(fi)
        missing = sorted(group - set(resets))
        # the resets happen on the same paths: each reset node post-dominates and is dominated by the first one (same straight-line region)
        nodes = [c.node_of(v[0].stmt) for v in resets.values()]
        first = min(nodes, key=lambda n_: n_.idx)
        together = all(n_ is first or (c.dominates(first, n_) and c.post_dominates(n_, first)) for n_ in nodes)
        ctx.check(not missing and together, "C13.D8", R.key_of(fi, "histories-reset-together"), fi.loc(resets[sorted(resets)[0]][0].stmt),
                  "%s empties all %d history lists together" % (fi.name, len(group)),
                  "%s starts a new history for %s but not for %s%s: the per-evaluation lists get different lengths and the reported point counts of an earlier "
                  "run stay in front of the new ones" % (fi.name, sorted(resets), missing, "" if together else " (and not on the same paths)"))
    ctx.floor("C13.D8.sites", n, 1, "routines that start a new history")
