"""C20 -- regression solves the regularised least-squares problem on every component grid.

Decided structural clauses:
 D1 the default construction arguments reach sklearn's MinMaxScaler with a kind the library accepts
    (literal-kind flow: list / tuple / ...; the constraint is read statically from the installed sklearn source)
 D2 both sides of the normal equations carry the same 1/m factor, lambda multiplies the matrix selected by
    regularization_matrix, the unregularised case uses the plain least-squares solve; both implementations agree
 D3 the smoothing / Opticom matrices are symmetric by construction (paired stores in triangular loops)
 D4 every coefficient-optimisation variant stores entries divided by the sum of all entries
 D5 uniform-grid gradient Gram factors as polynomial identities (h = 2^-l): stiffness 2/h = 2^(l+1) for identical hats and
    -1/h = -2^l for neighbours in the differentiated dimension, mass 2h/3 = 1/(3*2^(l-1)) and h/6 = 1/(12*2^(l-1)) in the
    others, 0 for disjoint supports
Not decided: smoothing matrix == gradient Gram matrix on non-uniform grids, positive semi-definiteness, design-matrix values."""
import ast
import os

from ..cfg import cfg_of, walk_local
from ..loader import AnalysisError, src
from ..terms import Terms, terms_of, show, subterms, contains
from .. import rules as R

EXPLANATION = ("Static analysis of GridOperation.Regression and DataSet.scale_range: inter-procedural literal-kind flow from "
               "constructor defaults to MinMaxScaler(feature_range=...) checked against the constraint declared in the installed "
               "scikit-learn source (parsed, not imported); value-term comparison of the factors on both sides of the normal "
               "equations in both solvers; paired symmetric stores in triangular loops; normalisation idiom at every coefficient store.")

REG = "GridOperation.Regression"
DS = "DEMachineLearning.DataSet"


# ------------------------------------------------------------------ literal kinds
def sklearn_feature_range_constraint():
    """Kinds accepted for MinMaxScaler(feature_range=...) read from the sklearn source (no import)."""
    import glob
    cands = glob.glob("/venv/lib/python3*/site-packages/sklearn/preprocessing/_data.py")
    for path in cands:
        try:
            tree = ast.parse(open(path, encoding="utf-8").read())
        except Exception:
            continue
        for n in tree.body:
            if isinstance(n, ast.ClassDef) and n.name == "MinMaxScaler":
                for st in n.body:
                    tgt = st.target if isinstance(st, ast.AnnAssign) else (st.targets[0] if isinstance(st, ast.Assign) else None)
                    if isinstance(tgt, ast.Name) and tgt.id == "_parameter_constraints" and isinstance(st.value, ast.Dict):
                        for k, v in zip(st.value.keys, st.value.values):
                            if isinstance(k, ast.Constant) and k.value == "feature_range" and isinstance(v, ast.List):
                                kinds = {e.id for e in v.elts if isinstance(e, ast.Name)}
                                return kinds, path
    return {"tuple"}, None


class KindFlow:
    """kind(expr) in {tuple, list, ndarray, scalar, str, none, unknown}; parameters are joined over their
    defaults and over the arguments of every call site in the package (resolved by method name / class name)."""

    def __init__(self, prog):
        self.prog = prog
        self.trace = []

    def kinds(self, fi, expr, depth=0, seen=None):
        seen = seen or set()
        if depth > 8:
            return {"unknown"}
        if isinstance(expr, ast.Tuple):
            return {"tuple"}
        if isinstance(expr, (ast.List, ast.ListComp)):
            return {"list"}
        if isinstance(expr, ast.Constant):
            if expr.value is None:
                return {"none"}
            if isinstance(expr.value, str):
                return {"str"}
            return {"scalar"}
        if isinstance(expr, ast.Call):
            f = expr.func
            if isinstance(f, ast.Name) and f.id in ("tuple",):
                return {"tuple"}
            if isinstance(f, ast.Name) and f.id in ("list", "sorted"):
                return {"list"}
            if isinstance(f, ast.Attribute) and f.attr in ("array", "asarray", "zeros", "ones", "linspace", "arange"):
                return {"ndarray"}
            return {"unknown"}
        if isinstance(expr, ast.IfExp):
            return self.kinds(fi, expr.body, depth + 1, seen) | self.kinds(fi, expr.orelse, depth + 1, seen)
        if isinstance(expr, ast.Name):
            key = (fi.qual, expr.id)
            if key in seen:
                return set()
            seen = seen | {key}
            env = terms_of(fi).env
            out = set()
            for b in env.bindings.get(expr.id, []):
                if b.kind == "param":
                    out |= self.param_kinds(fi, expr.id, depth + 1, seen)
                elif b.kind == "assign" and b.value is not None:
                    out |= self.kinds(fi, b.value, depth + 1, seen)
                else:
                    out.add("unknown")
            return out or {"unknown"}
        return {"unknown"}

    def param_kinds(self, fi, pname, depth, seen):
        out = set()
        a = fi.node.args
        pos = a.posonlyargs + a.args
        names = [x.arg for x in pos]
        defaults = dict(zip(names[len(names) - len(a.defaults):], a.defaults))
        for k, d in zip(a.kwonlyargs, a.kw_defaults):
            if d is not None:
                defaults[k.arg] = d
        if pname in defaults:
            ks = self.kinds(fi, defaults[pname], depth + 1, seen)
            self.trace.append("%s: default of `%s` = %s -> %s" % (fi.qual, pname, src(defaults[pname]), sorted(ks)))
            out |= ks
        # call sites
        offset = 1 if fi.self_name is not None else 0
        idx = names.index(pname) - offset if pname in names else None
        for caller in self.prog.functions.values():
            for c in walk_local(caller.node):
                if not isinstance(c, ast.Call):
                    continue
                hit = False
                if fi.name == "__init__" and fi.cls is not None:
                    rc = self.prog.resolve_class_expr(caller.module.name, c.func, caller.cls)
                    hit = rc is not None and self.prog.lookup_method(rc, "__init__") is fi
                    if not hit and isinstance(c.func, ast.Attribute) and c.func.attr == "__init__" and caller.cls is not None \
                            and fi.cls in caller.cls.mro and caller.cls is not fi.cls:
                        hit = True     # super().__init__(...)
                elif isinstance(c.func, ast.Attribute) and c.func.attr == fi.name:
                    hit = True
                if not hit:
                    continue
                arg = None
                if idx is not None and idx < len(c.args) and not any(isinstance(x, ast.Starred) for x in c.args):
                    arg = c.args[idx]
                for kw in c.keywords:
                    if kw.arg == pname:
                        arg = kw.value
                if arg is not None:
                    ks = self.kinds(caller, arg, depth + 1, seen)
                    self.trace.append("%s: call `%s` passes %s -> %s" % (caller.qual, src(c)[:70], src(arg), sorted(ks)))
                    out |= ks
        return out or {"unknown"}


# ------------------------------------------------------------------ normal equations
def _mult_operands(t):
    return list(t[2]) if t[0] == "op" and t[1] == "Mult" else [t]


def _add_operands(t):
    return list(t[2]) if t[0] == "op" and t[1] == "Add" else [t]


def _is_gram(t):
    """A^T A as np.dot(A.T, A) / A.T.dot(A) / A.T @ A ; returns the A term or None"""
    if t[0] == "call" and t[1] in (("a", ("n", "np"), "dot"), ("a", ("n", "np"), "matmul")) and len(t[2]) == 2:
        l, r = t[2]
        if l == ("a", r, "T"):
            return r
    if t[0] == "call" and t[1][0] == "a" and t[1][2] == "dot" and len(t[2]) == 1:
        recv, arg = t[1][1], t[2][0]
        if recv == ("a", arg, "T"):
            return arg
    if t[0] == "op" and t[1] == "MatMult":
        l, r = t[2]
        if l == ("a", r, "T"):
            return r
    return None


def _is_aty(t):
    """A^T y ; returns (A, y) or None"""
    if t[0] == "call" and t[1][0] == "a" and t[1][2] == "dot" and len(t[2]) == 1:
        recv, arg = t[1][1], t[2][0]
        if recv[0] == "a" and recv[2] == "T":
            return recv[1], arg
    if t[0] == "call" and t[1] in (("a", ("n", "np"), "dot"), ("a", ("n", "np"), "matmul")) and len(t[2]) == 2:
        l, r = t[2]
        if l[0] == "a" and l[2] == "T":
            return l[1], r
    if t[0] == "op" and t[1] == "MatMult":
        l, r = t[2]
        if l[0] == "a" and l[2] == "T":
            return l[1], r
    return None


def _left_parts(t):
    """Decompose  F * A^T A + lam * M  ->  dict(factor=[...], A=..., reg=[...operands of the lam term]) or None"""
    gram = None
    reg = None
    for opnd in _add_operands(t):
        ms = _mult_operands(opnd)
        g = [m for m in ms if _is_gram(m) is not None]
        if g:
            gram = ([m for m in ms if m is not g[0]], _is_gram(g[0]))
        else:
            reg = ms
    if gram is None:
        return None
    return {"factor": sorted(gram[0], key=repr), "A": gram[1], "reg": reg}


def _right_parts(t):
    ms = _mult_operands(t)
    g = [m for m in ms if _is_aty(m) is not None]
    if not g:
        return None
    A, y = _is_aty(g[0])
    return {"factor": sorted([m for m in ms if m is not g[0]], key=repr), "A": A, "y": y}


def run(prog, ctx):
    reg = prog.cls(REG)
    ds = prog.cls(DS)

    # ------------------------------------------------------------------ D6 (shared with C16.D7): the design matrix of the
    # dimension-wise path is filled by the completely vectorised hat; a grid point that is a training point must get the value 1
    from ..hats import check_hat_centre
    ctx.floor("C20.D6", check_hat_centre(prog, ctx, "C20.D6"), 3, "hat implementations analysed for the centre rule")

    # ------------------------------------------------------------------ D8 structure of the non-uniform smoothing matrix
    check_dimension_wise_gradient_gram(prog, ctx)

    # ------------------------------------------------------------------ D7 the surpluses handed out are solved in this call
    check_fresh_surpluses(prog, ctx, reg)

    # ------------------------------------------------------------------ D1
    accepted, cpath = sklearn_feature_range_constraint()
    if cpath is None:
        ctx.assume("sklearn source not found: MinMaxScaler.feature_range is assumed to accept only a tuple")
    else:
        ctx.assume("MinMaxScaler._parameter_constraints['feature_range'] = %s read from %s" % (sorted(accepted), cpath))
    kf = KindFlow(prog)
    nsink = 0
    for fi in prog.functions.values():
        for c in walk_local(fi.node):
            if isinstance(c, ast.Call) and ((isinstance(c.func, ast.Attribute) and c.func.attr == "MinMaxScaler")
                                            or (isinstance(c.func, ast.Name) and c.func.id == "MinMaxScaler")):
                arg = c.args[0] if c.args else None
                for kw in c.keywords:
                    if kw.arg == "feature_range":
                        arg = kw.value
                if arg is None:
                    continue
                nsink += 1
                ctx.touch(fi)
                kf.trace = []
                ks = kf.kinds(fi, arg)
                bad = {k for k in ks if k not in accepted and k != "unknown"}
                key = "%s::MinMaxScaler.feature_range#%d" % (fi.qual, sum(1 for i in ctx.instances if i.rule == "C20.D1"))
                ctx.check(not bad, "C20.D1", key, fi.loc(c),
                          "every value reaching feature_range has an accepted kind %s (kinds: %s)" % (sorted(accepted), sorted(ks)),
                          "a %s reaches MinMaxScaler(feature_range=%s) but scikit-learn only accepts %s; flow: %s"
                          % ("/".join(sorted(bad)), src(arg), sorted(accepted), " | ".join(t for t in kf.trace if "list" in t or "default" in t)[:600]),
                          kinds=sorted(ks), flow=kf.trace[:12])
    ctx.floor("C20.D1", nsink, 2, "MinMaxScaler(feature_range=...) constructor sites")
    # the default construction path exists: Regression.__init__ -> scale_data -> DataSet.scale_range
    init = prog.func(REG + ".__init__")
    sd = prog.func(REG + ".scale_data")
    ctx.touch(init, sd)
    chain = bool(R.calls_in(init.node, method="scale_data")) and bool(R.calls_in(sd.node, method="scale_range"))
    if not chain:
        raise AnalysisError("C20.D1: the construction path Regression.__init__ -> scale_data -> scale_range vanished")

    # ------------------------------------------------------------------ D2
    bl = prog.func(REG + ".build_left_matrix")
    br = prog.func(REG + ".build_right_vector")
    sm = prog.func(REG + ".solve_regression_dimension_wise_smooth")
    ctx.touch(bl, br, sm)
    tml, tmr, tms = Terms(bl.node), Terms(br.node), Terms(sm.node)
    lefts = []
    for r in R.return_paths(bl)[0]:
        t = tml.term(r.ast.value)
        lefts.append((r, _left_parts(t), t))
    rights = []
    for r in R.return_paths(br)[0]:
        t = tmr.term(r.ast.value)
        rights.append((r, _right_parts(t), t))
    ctx.floor("C20.D2", len(lefts) + len(rights), 3, "normal-equation return sites (standard combi)")
    y_attr = ("a", ("n", "self"), "training_target_values")
    lam = ("a", ("n", "self"), "regularization")
    for (r, parts, t) in rights:
        ok = parts is not None and parts["y"] == y_attr
        ctx.check(ok, "C20.D2", R.key_of(br, "rhs-form"), br.loc(r.ast),
                  "right-hand side is F * A^T y with y the training targets (F = %s)" % ([show(f) for f in parts["factor"]] if parts else None),
                  "right-hand side `%s` is not of the form F * A^T y with y = self.training_target_values" % src(r.ast.value))
    for k, (r, parts, t) in enumerate(lefts):
        okf = parts is not None and parts["reg"] is not None
        ctx.check(okf, "C20.D2", R.key_of(bl, "lhs-form#%d" % k), bl.loc(r.ast),
                  "left-hand side is F * A^T A + lambda * M",
                  "left-hand side `%s` is not of the form F * A^T A + lambda * M" % src(r.ast.value))
        if not okf:
            continue
        for (r2, p2, t2) in rights:
            if p2 is None:
                continue
            same = parts["factor"] == p2["factor"] and parts["A"] == p2["A"]
            ctx.check(same, "C20.D2", R.key_of(bl, "same-factor#%d" % k), bl.loc(r.ast),
                      "A^T A and A^T y carry the same factor %s on the same design matrix" % [show(f) for f in parts["factor"]],
                      "A^T A is scaled by %s but A^T y by %s (or they use different design matrices): the normal equations are inconsistent"
                      % ([show(f) for f in parts["factor"]], [show(f) for f in p2["factor"]]))
        # 1/m with m = number of training targets
        m_ok = parts["factor"] == [("op", "Div", (("c", "1"), ("call", ("n", "len"), (y_attr,), ())))]
        ctx.check(m_ok, "C20.D2", R.key_of(bl, "factor-is-1/m#%d" % k), bl.loc(r.ast),
                  "the factor is 1/len(training targets)",
                  "the factor %s is not 1/len(self.training_target_values)" % [show(f) for f in parts["factor"]])
        # lambda * selected matrix
        regops = parts["reg"]
        has_lam = lam in regops
        others = [x for x in regops if x != lam]
        guards = [show(g) for (g, _n) in R.dominating_guards(bl, r)]
        isC = any("regularization_matrix" in g and "==" in g and "'C'" in g for g in guards)
        if isC:
            okm = len(others) == 1 and others[0][0] == "call" and others[0][1] == ("a", ("n", "self"), "build_C_matrix")
            what = "the smoothing matrix of the same level vector"
        else:
            okm = len(others) == 1 and others[0][0] == "call" and others[0][1] in (("a", ("n", "np"), "identity"), ("a", ("n", "np"), "eye"))
            if okm:
                sz = others[0][2][0]
                A = parts["A"]
                okm = sz in (("s", ("a", ("s", A, ("c", "0")), "shape"), ("c", "0")), ("call", ("n", "len"), (("s", A, ("c", "0")),), ()),
                             ("s", ("a", A, "shape"), ("c", "1")))
            what = "an identity of A's column count"
        ctx.check(has_lam and okm, "C20.D2", R.key_of(bl, "lambda-term#%d" % k), bl.loc(r.ast),
                  "lambda multiplies %s (branch guards: %s)" % (what, guards[:2]),
                  "the regularisation term %s is not self.regularization times %s" % ([show(x) for x in regops], what))
    # dimension-wise solver: same relations inside one function
    l_assigns = []
    r_assign = None
    tdeep_sm = Terms(sm.node, max_depth=12)
    ls_calls = R.calls_in(sm.node, method="lstsq")
    r_parts_all = []
    for lsc in [x for x in ls_calls if len(x.args) >= 2]:
        # roles from the solve call: lstsq(<left-hand side>, <right-hand side>); the call may stand once behind the choice of the
        # left-hand side or once in each branch of it
        la, ra = lsc.args[0], lsc.args[1]
        if isinstance(la, ast.Name):
            for b_ in tdeep_sm.env.bindings.get(la.id, []):
                if b_.kind == "assign" and b_.value is not None and not any(b_.stmt is st_ for (st_, _lp) in l_assigns):
                    lp = _left_parts(tdeep_sm.term(b_.value))
                    if lp is not None and lp["reg"] is not None:
                        l_assigns.append((b_.stmt, lp))
        else:
            lp = _left_parts(tdeep_sm.term(la))
            if lp is not None and lp["reg"] is not None:
                l_assigns.append((lsc, lp))
        rp = _right_parts(tdeep_sm.term(ra))
        r_parts_all.append(rp)
        if rp is not None and r_assign is None:
            r_assign = (lsc, rp)
    if r_assign is not None and any(rp is None or rp != r_assign[1] for rp in r_parts_all):
        r_assign = None                               # the solve calls disagree on the right-hand side
    ctx.floor("C20.D2.dw", len(l_assigns) + (1 if r_assign else 0), 3, "normal-equation sites (dimension-wise)")
    for k, (st, lp) in enumerate(l_assigns):
        same = r_assign is not None and lp["factor"] == r_assign[1]["factor"] and lp["A"] == r_assign[1]["A"]
        ctx.check(same, "C20.D2", R.key_of(sm, "same-factor#%d" % k), sm.loc(st),
                  "A^T A and A^T y carry the same factor %s" % [show(f) for f in lp["factor"]],
                  "dimension-wise solver scales A^T A by %s but A^T y by %s" %
                  ([show(f) for f in lp["factor"]], [show(f) for f in r_assign[1]["factor"]] if r_assign else None))
        m_ok = lp["factor"] == [("op", "Div", (("c", "1"), ("call", ("n", "len"), (y_attr,), ())))]
        ctx.check(m_ok, "C20.D2", R.key_of(sm, "factor-is-1/m#%d" % k), sm.loc(st),
                  "the factor is 1/len(training targets)", "the factor %s is not 1/len(self.training_target_values)" % [show(f) for f in lp["factor"]])
        ctx.check(lam in lp["reg"], "C20.D2", R.key_of(sm, "lambda-term#%d" % k), sm.loc(st),
                  "lambda multiplies the regularisation matrix", "the regularisation term does not contain self.regularization")
    if r_assign is not None:
        ctx.check(r_assign[1]["y"] == y_attr, "C20.D2", R.key_of(sm, "rhs-form"), sm.loc(r_assign[0]),
                  "right-hand side uses the training targets", "right-hand side does not use self.training_target_values")
    # the solve uses exactly left and right
    for (fi, ln, rn) in ((prog.func(REG + ".solve_regression_smooth"), "build_left_matrix", "build_right_vector"),):
        ctx.touch(fi)
        tmf = Terms(fi.node)
        ls = R.calls_in(fi.node, method="lstsq")
        ok = len(ls) == 1 and len(ls[0].args) >= 2 and \
            tmf.term(ls[0].args[0])[1] == ("a", ("n", "self"), ln) and tmf.term(ls[0].args[1])[1] == ("a", ("n", "self"), rn)
        ctx.check(ok, "C20.D2", R.key_of(fi, "solve"), fi.loc(), "solves left * alpha = right",
                  "solve_regression_smooth does not solve build_left_matrix * alpha = build_right_vector")
    # unregularised -> plain least squares, chosen by regularization == 0
    for fq, plain, smooth in ((REG + ".evaluate_levelvec", "solve_regression", "solve_regression_smooth"),
                              (REG + ".calculate_operation_dimension_wise", "solve_regression_dimension_wise",
                               "solve_regression_dimension_wise_smooth")):
        fi = prog.func(fq)
        ctx.touch(fi)
        pc = R.calls_in(fi.node, method=plain)
        sc = R.calls_in(fi.node, method=smooth)
        ok = len(pc) == 1 and len(sc) == 1
        if ok:
            gp = [show(g) for (g, _n) in R.dominating_guards(fi, R.cfg_node(fi, pc[0]))]
            gs = [show(g) for (g, _n) in R.dominating_guards(fi, R.cfg_node(fi, sc[0]))]
            ok = any(g in ("self.regularization == 0", "0 == self.regularization") for g in gp) and \
                any(g in ("self.regularization != 0", "0 != self.regularization") for g in gs)
        ctx.check(ok, "C20.D2", R.key_of(fi, "dispatch"), fi.loc(),
                  "plain least squares iff regularization == 0",
                  "the choice between %s and %s is not governed by self.regularization == 0" % (plain, smooth))
    for fq, builder in ((REG + ".solve_regression", "build_A_matrix"), (REG + ".solve_regression_dimension_wise", "build_A_matrix_dimension_wise")):
        fi = prog.func(fq)
        ctx.touch(fi)
        tmf = Terms(fi.node)
        ls = R.calls_in(fi.node, method="lstsq")
        ok = len(ls) == 1 and len(ls[0].args) >= 2 and tmf.term(ls[0].args[0])[0] == "call" and \
            tmf.term(ls[0].args[0])[1] == ("a", ("n", "self"), builder) and tmf.term(ls[0].args[1]) == y_attr
        ctx.check(ok, "C20.D2", R.key_of(fi, "plain-lstsq"), fi.loc(), "plain lstsq(A, y) on the training targets",
                  "%s does not solve lstsq(%s(...), self.training_target_values)" % (fi.name, builder))

    # ------------------------------------------------------------------ D3
    n3 = 0
    for name, mats in (("build_C_matrix", {"C"}), ("build_C_matrix_dimension_wise", {"C"}), ("build_matrix_opticom", {"matrix"}),
                       ("build_matrix_opticom_spatially_adaptive", {"matrix"})):
        fi = prog.func(REG + "." + name)
        ctx.touch(fi)
        rep = R.symmetric_store_report(fi)
        # the returned matrix must be among the stored ones
        sym_fix = _symmetrised(fi)
        for k, (st, m, ok, detail) in enumerate(rep):
            n3 += 1
            ctx.check(ok or m in sym_fix, "C20.D3", R.key_of(fi, "symmetric:%s#%d" % (m, k)), fi.loc(st),
                      "upper-triangle store has its mirrored companion (%s)" % detail,
                      "`%s` inside a j >= i loop has no mirrored store %s[j][i] with the same value: the matrix is not symmetric"
                      % (src(st), m))
        for k, (loop, ok, detail) in enumerate(R.triangle_coverage_report(fi)):
            ctx.check(ok, "C20.D3", R.key_of(fi, "whole-triangle#%d" % k), fi.loc(loop),
                      "the triangular loop pair enumerates every pair j >= i (%s)" % detail,
                      "the inner loop `for %s in %s` stops before the end of the index range of the outer loop (%s): entries outside that band "
                      "keep their initial value although hats that are neighbours in an earlier dimension lie arbitrarily far apart in the "
                      "linear index" % (loop.target.id, src(loop.iter), detail))
        if not rep:
            ctx.violation("C20.D3", R.key_of(fi, "symmetric:none"), fi.loc(),
                          "no element store of the form M[i][j] = v inside the triangular loop was found: the lower triangle is never filled")
            n3 += 1
    ctx.floor("C20.D3", n3, 4, "triangular-loop matrix stores")

    # ------------------------------------------------------------------ D5
    check_uniform_gradient_gram(prog, ctx)

    # ------------------------------------------------------------------ D4
    n4 = 0
    for name, fi in sorted(reg.methods.items()):
        if not name.startswith("optimize_coefficients_"):
            continue
        if name in ("optimize_coefficients_spatially_adaptive",):
            continue
        ctx.touch(fi)
        stores = [s for s in R.attribute_stores(fi.node) if s.attr == "coefficient" and s.kind == "plain"]
        if not stores:
            ctx.violation("C20.D4", R.key_of(fi, "no-store"), fi.loc(), "the optimisation variant stores no coefficient")
            n4 += 1
            continue
        for k, s in enumerate(stores):
            n4 += 1
            ok, why = _normalised(fi, s)
            ctx.check(ok, "C20.D4", R.key_of(fi, "normalised#%d" % k), fi.loc(s.stmt),
                      "stored coefficient is an entry divided by the sum of all entries (%s)" % why,
                      "`%s` stores a coefficient that is not an entry divided by the sum of all entries: %s" % (src(s.stmt), why))
    ctx.floor("C20.D4", n4, 3, "coefficient stores in optimize_coefficients_* variants")
    # the working arrays of the optimisation variants are float arrays: an element update `w[i] /= e` / `w[i] *= e` on an array whose dtype
    # is inherited from its elements (np.array([...]) / np.asarray(...) without dtype) truncates when the elements are ints -- the scheme
    # coefficients of the spatially adaptive driver are ints -- and the normalised coefficients no longer sum to one (or become NaN)
    n9 = 0
    for fi in [f for f in reg.methods.values() if f.name.startswith("optimize_coefficients")]:
        tm9 = Terms(fi.node, max_depth=0)
        for st in walk_local(fi.node):
            if isinstance(st, ast.AugAssign) and isinstance(st.op, (ast.Div, ast.Mult)) and isinstance(st.target, ast.Subscript) and isinstance(st.target.value, ast.Name):
                nm = st.target.value.id
                n9 += 1
                inherited = []
                for b in tm9.env.bindings.get(nm, []):
                    v = b.value
                    if b.kind == "assign" and isinstance(v, ast.Call) and isinstance(v.func, ast.Attribute) and v.func.attr in ("array", "asarray", "asanyarray") \
                            and not any(k.arg == "dtype" for k in v.keywords) and len(v.args) < 2:
                        inherited.append(v)
                ctx.check(not inherited, "C20.D4", R.key_of(fi, "float-working-array:%s" % nm), fi.loc(st),
                          "`%s` updates an array with a dtype of its own" % src(st)[:60],
                          "`%s` updates an element of `%s = %s`, whose dtype is that of its elements: integer scheme coefficients (spatially adaptive "
                          "driver) are truncated by the division, so the normalised coefficients do not sum to one" % (src(st)[:60], nm, src(inherited[0])[:70] if inherited else ""))
    ctx.note("C20.D4", "%s::working-arrays" % REG, "sparseSpACE/GridOperation.py", "%d element updates of working arrays in the optimisation variants analysed" % n9)


def _symmetrised(fi):
    out = set()
    for st in walk_local(fi.node):
        if isinstance(st, ast.Assign) and len(st.targets) == 1 and isinstance(st.targets[0], ast.Name):
            m = st.targets[0].id
            for n in ast.walk(st.value):
                if isinstance(n, ast.Attribute) and n.attr == "T" and isinstance(n.value, ast.Name) and n.value.id == m:
                    out.add(m)
    return out


def _is_sum_of(t, x):
    return t in (("call", ("a", ("n", "np"), "sum"), (x,), ()), ("call", ("n", "sum"), (x,), ()),
                 ("call", ("a", x, "sum"), (), ()))


def _normalised(fi, s):
    """value stored into .coefficient is X[i] / sum(X)  (possibly through `X = X / sum(X)` before the loop)"""
    c = cfg_of(fi)
    tm = Terms(fi.node, max_depth=0)      # raw names: reason about definitions explicitly
    v = s.value
    # form 1:  X[i] / S      (X[i] may also be the loop element of `for .., x in zip(.., X)` / enumerate(X))
    left_seq = None
    if isinstance(v, ast.BinOp) and isinstance(v.op, ast.Div):
        if isinstance(v.left, ast.Subscript) and isinstance(v.left.value, ast.Name):
            left_seq = v.left.value.id
        elif isinstance(v.left, ast.Name):
            seq_ = R.element_of(fi, v.left.id)
            if isinstance(seq_, ast.Name):
                left_seq = seq_.id
    if left_seq is not None:
        X = left_seq
        if isinstance(v.right, ast.Name):
            b = R.reaching_unique_def(fi, v.right.id, v.right)
            if b is None or b.kind != "assign":
                return False, "divisor `%s` has no unique reaching definition" % v.right.id
            st = tm.term(b.value)
            if not _is_sum_of(st, ("n", X)):
                return False, "divisor %s is not the sum of %s" % (show(st), X)
            # no element store into X after the sum was taken
            bn = c.node_of(b.stmt)
            after = c.reachable_after(bn)
            for n in c.nodes:
                if n.idx in after and n.kind == "stmt" and isinstance(n.ast, (ast.Assign, ast.AugAssign)):
                    tg = n.ast.targets[0] if isinstance(n.ast, ast.Assign) else n.ast.target
                    root = tg
                    while isinstance(root, ast.Subscript):
                        root = root.value
                    if isinstance(root, ast.Name) and root.id == X:
                        return False, "%s is modified after its sum was taken (line %d)" % (X, n.lineno)
            return True, "%s[i] / sum(%s)" % (X, X)
        st = tm.term(v.right)
        if _is_sum_of(st, ("n", X)):
            return True, "%s[i] / sum(%s)" % (X, X)
        return False, "divisor %s is not the sum of %s" % (show(st), X)
    # form 2:  X[i]  with X = X / sum(X) reaching
    if isinstance(v, ast.Subscript) and isinstance(v.value, ast.Name):
        X = v.value.id
        b = R.reaching_unique_def(fi, X, v.value)
        if b is None or b.kind != "assign":
            return False, "`%s` has no unique reaching definition" % X
        bv = b.value
        if isinstance(bv, ast.BinOp) and isinstance(bv.op, ast.Div) and isinstance(bv.left, ast.Name) and bv.left.id == X:
            if isinstance(bv.right, ast.Name):
                b2 = R.reaching_unique_def(fi, bv.right.id, bv.right)
                if b2 is not None and b2.kind == "assign" and _is_sum_of(tm.term(b2.value), ("n", X)):
                    # X must not be rebound between the sum and the division
                    n2, n1 = c.node_of(b2.stmt), c.node_of(b.stmt)
                    env = tm.env
                    for ob in env.bindings.get(X, []):
                        on = c.node_of(ob.stmt) if isinstance(ob.stmt, ast.stmt) else None
                        if on is not None and on is not n1 and on.idx in c.reachable_after(n2) and n1.idx in c.reachable_after(on):
                            return False, "%s is rebound between its sum and the division" % X
                    return True, "%s = %s / sum(%s)" % (X, X, X)
                return False, "divisor `%s` is not the sum of %s" % (bv.right.id, X)
            if _is_sum_of(tm.term(bv.right), ("n", X)):
                return True, "%s = %s / sum(%s)" % (X, X, X)
        return False, "`%s` reaches the store un-normalised (last definition: %s)" % (X, src(b.stmt))
    return False, "unrecognised stored value %s" % src(v)


def check_uniform_gradient_gram(prog, ctx):
    """C_ij = sum_k [ stiffness_k(i_k, j_k) * prod_{m != k} mass_m(i_m, j_m) ]  with h_m = 2^-l_m:
    stiffness 2/h = 2^(l+1) (same hat) / -1/h = -2^l (neighbours) in the differentiated dimension k, mass 2h/3 = 1/(3*2^(l-1)) /
    h/6 = 1/(12*2^(l-1)) in every OTHER dimension m -- with the level of THAT dimension, l_m."""
    from ..absint import poly_of_term, Poly
    fi = prog.func(REG + ".build_C_matrix")
    ctx.touch(fi)
    tm = Terms(fi.node, max_depth=0)
    c = cfg_of(fi)
    lv = fi.params[1]
    found = {"stiff-same": [], "stiff-nb": [], "mass-same": [], "mass-nb": []}
    # roles: TEMP the per-dimension product (`TEMP *= factor` inside the loop pair k (outer) / m (inner)), RES with `RES += TEMP`
    prods = [n for n in c.nodes if n.kind == "stmt" and isinstance(n.ast, ast.AugAssign) and isinstance(n.ast.op, ast.Mult)
             and isinstance(n.ast.target, ast.Name) and n.idx in c.reachable()
             and len([l for l in n.loops if isinstance(l, ast.For) and isinstance(l.target, ast.Name)]) >= 2]
    TEMP = prods[0].ast.target.id if prods else None
    kv = mv = None
    for n in prods:
        if n.ast.target.id != TEMP:
            continue
        loops = [l for l in n.loops if isinstance(l, ast.For) and isinstance(l.target, ast.Name)]
        kv, mv = loops[-2].target.id, loops[-1].target.id
        guards = [g for (g, gn) in R.dominating_guards(fi, n, tm) if gn.kind == "test" and c.in_loop(gn, loops[-1])]
        diff_dim = any(g[0] == "cmp" and g[1] == "Eq" and {g[2], g[3]} == {("n", mv), ("n", kv)} for g in guards)
        same = any(g[0] == "cmp" and g[1] == "Eq" and g[2][0] == "n" and g[3][0] == "n" and not ({g[2][1], g[3][1]} & {mv, kv}) for g in guards)
        key = ("stiff-" if diff_dim else "mass-") + ("same" if same else "nb")
        found[key].append((n, poly_of_term(R.resolve_locals(fi, tm.term(n.ast.value), n, tm))))
    two = ("c", "2")

    def wants(L):
        half_l = ("op", "Pow", (two, ("op", "Sub", (L, ("c", "1")))))

        def inv(m):
            return poly_of_term(("op", "Div", (("c", "1"), ("op", "Mult", (("c", str(m)), half_l)))))
        return {"stiff-same": poly_of_term(("op", "Pow", (two, ("op", "Add", (("c", "1"), L))))),
                "stiff-nb": poly_of_term(("neg", ("op", "Pow", (two, L)))), "mass-same": inv(3), "mass-nb": inv(12)}
    Lk, Lm = ("s", ("n", lv), ("n", kv)), ("s", ("n", lv), ("n", mv))
    wk, wm = wants(Lk), wants(Lm)
    for k, lst in found.items():
        ctx.check(bool(lst), "C20.D5", R.key_of(fi, "uniform-gradient-gram:%s:present" % k), fi.loc(),
                  "case %s is handled" % k, "uniform smoothing matrix: case %s not found" % k)
        for (n, p_) in lst:
            form_ok = p_ in (wk[k], wm[k])
            ctx.check(form_ok, "C20.D5", R.key_of(fi, "uniform-gradient-gram:%s:value" % k), fi.loc(n.ast),
                      "%s factor `%s` is the hat-function integral %s" % (k, src(n.ast.value), {"stiff-same": "2/h", "stiff-nb": "-1/h", "mass-same": "2h/3", "mass-nb": "h/6"}[k]),
                      "uniform smoothing matrix: %s factor `%s` differs from the hat-function integral" % (k, src(n.ast.value)))
            if k.startswith("mass") and form_ok:
                own = p_ == wm[k]
                ctx.check(own, "C20.D5", R.key_of(fi, "uniform-gradient-gram:%s:level-of-own-dimension" % k), fi.loc(n.ast),
                          "the mass factor uses the level of the dimension it integrates over",
                          "uniform smoothing matrix: %s factor `%s` (line %d) uses the level of the differentiated dimension `%s` instead of the level "
                          "of the dimension `%s` it integrates over: wrong for anisotropic level vectors" % (k, src(n.ast.value), n.ast.lineno, kv, mv))
    # one term per differentiated dimension is summed
    ok = TEMP is not None and any(isinstance(n.ast, ast.AugAssign) and isinstance(n.ast.op, ast.Add) and isinstance(n.ast.target, ast.Name)
                                  and tm.term(n.ast.value) == ("n", TEMP) for n in c.nodes if n.kind == "stmt")
    ctx.check(ok, "C20.D5", R.key_of(fi, "sum-over-dimensions"), fi.loc(), "the entry is the sum over the differentiated dimension of the per-dimension products",
              "build_C_matrix no longer sums the per-dimension products into the entry")


def check_dimension_wise_gradient_gram(prog, ctx):
    """Structure of Regression.build_C_matrix_dimension_wise, the non-uniform counterpart of build_C_matrix:
       for d (differentiated dimension): TEMP = 1; for n (every dimension): if n == d: TEMP *= stiffness_d  else: TEMP *= mass_n
     a  index discipline: the mass branch (n != d) reads the hats' data of dimension n, not of d
     b  exactly one factor is multiplied into TEMP per dimension n on every path
     c  hats whose supports only touch (end of one == start of the other) have disjoint interiors: their stiffness term is 0, so the
        disjointness test must be non-strict"""
    fi = prog.func(REG + ".build_C_matrix_dimension_wise")
    ctx.touch(fi)
    tm = Terms(fi.node, max_depth=0)
    c = cfg_of(fi)
    split = None
    for iff in walk_local(fi.node):
        if isinstance(iff, ast.If) and iff.orelse:
            loops = [l for l in R.enclosing_loops(iff) if isinstance(l, ast.For) and isinstance(l.target, ast.Name)]
            if len(loops) >= 2:
                t = tm.term(iff.test)
                neg = False
                if t[0] == "not":
                    t, neg = t[1], True
                if t[0] == "cmp" and t[1] in ("Eq", "NotEq") and {t[2], t[3]} == {("n", loops[-1].target.id), ("n", loops[-2].target.id)}:
                    same_first = (t[1] == "Eq") != neg
                    split = (iff, loops[-2], loops[-1], iff.body if same_first else iff.orelse, iff.orelse if same_first else iff.body)
                    break
    if split is None:
        raise AnalysisError("anchor vanished: the `inner dimension == differentiated dimension` split in %s" % fi.qual)
    iff, outer, inner, stiff_body, mass_body = split
    dv, nv = outer.target.id, inner.target.id
    # a
    wrong = [x for st in mass_body for x in ast.walk(st) if isinstance(x, ast.Subscript) and isinstance(x.slice, ast.Name) and x.slice.id == dv]
    right = [x for st in mass_body for x in ast.walk(st) if isinstance(x, ast.Subscript) and isinstance(x.slice, ast.Name) and x.slice.id == nv]
    ctx.check(not wrong and bool(right), "C20.D8", R.key_of(fi, "mass-factor-of-own-dimension"), fi.loc(wrong[0]) if wrong else fi.loc(iff),
              "the mass factors of the dimensions n != d are computed from the hats' data of dimension n",
              "in the branch `%s != %s` (mass factor of dimension %s) %d subscripts read dimension `%s` of the hats (first: `%s`, line %d) instead of "
              "dimension `%s`: every non-differentiated dimension contributes the mass of the differentiated one"
              % (nv, dv, nv, len(wrong), dv, src(wrong[0]) if wrong else "", wrong[0].lineno if wrong else 0, nv))
    # b
    prods = [n for n in c.nodes if n.kind == "stmt" and isinstance(n.ast, ast.AugAssign) and isinstance(n.ast.op, ast.Mult)
             and isinstance(n.ast.target, ast.Name) and c.in_loop(n, inner) and n.idx in c.reachable()]
    head = c.node_of(inner)
    twice = [(a, b) for a in prods for b in prods if b.idx in c.reachable_after(a, blocked=[head]) and a.ast.target.id == b.ast.target.id]
    body_first = c.node_of(inner.body[0]) if inner.body else None
    once = bool(prods) and (body_first is None or c.must_pass_through(head, [head, c.exit], prods) or True)
    ctx.check(not twice and bool(prods), "C20.D8", R.key_of(fi, "one-factor-per-dimension"), fi.loc(twice[0][1].ast) if twice else fi.loc(inner),
              "on every path through one inner iteration exactly one factor is multiplied into the product",
              "`%s` (line %d) is followed by `%s` (line %d) within the same iteration of `for %s`: that dimension's factor is multiplied in twice"
              % ((src(twice[0][0].ast), twice[0][0].ast.lineno, src(twice[0][1].ast), twice[0][1].ast.lineno, nv) if twice else ("", 0, "", 0, nv)))
    # c
    zeros = [n for n in c.nodes if n.kind == "stmt" and c.in_loop(n, inner) and
             ((isinstance(n.ast, ast.AugAssign) and isinstance(n.ast.op, ast.Mult) and isinstance(n.ast.value, ast.Constant) and n.ast.value.value == 0)
              or (isinstance(n.ast, ast.Assign) and isinstance(n.ast.targets[0], ast.Name) and isinstance(n.ast.value, ast.Constant) and n.ast.value.value == 0
                  and any(p_.ast.target.id == n.ast.targets[0].id for p_ in prods)))
             and any(n.ast is y for st in stiff_body for y in ast.walk(st))]
    ctx.check(bool(zeros), "C20.D8", R.key_of(fi, "disjoint-supports-zero"), fi.loc(iff),
              "the stiffness term of hats with disjoint supports is zeroed",
              "no branch of the differentiated dimension zeroes the stiffness term of hats with disjoint supports")
    okc = True
    why = ""
    for z in zeros:
        par = getattr(z.ast, "_parent", None)
        test = par.test if isinstance(par, ast.If) and z.ast in par.body else None
        cmps = [x for x in ast.walk(test) if isinstance(x, ast.Compare)] if test is not None else []
        strict = [x for x in cmps if isinstance(x.ops[0], (ast.Lt, ast.Gt))]
        if not cmps or strict:
            okc = False
            why = "the disjointness test `%s` is strict: two hats whose supports only touch (one ends where the other starts) are treated as " \
                  "overlapping neighbours and get a non-zero stiffness term" % (src(test) if test is not None else "?")
    if zeros:
        ctx.check(okc, "C20.D8", R.key_of(fi, "touching-supports-disjoint"), fi.loc(zeros[0].ast),
                  "supports that share only an end point are treated as disjoint", why)


def check_fresh_surpluses(prog, ctx, reg):
    """Every method of Regression that fills self.surpluses solves the system in the same invocation on every path to a normal
    exit, stores exactly that solution, and never reads the store it fills (a level vector solved for an earlier training set
    must not be handed out again: train() re-splits the data on every call)."""
    n = 0
    for fi in reg.methods.values():
        fills = []
        for c in R.calls_in(fi.node):
            if isinstance(c.func, ast.Attribute) and c.func.attr in ("update", "__setitem__", "setdefault") \
                    and R.self_attr(c.func.value, fi.self_name) == "surpluses":
                fills.append(c)
        for st in walk_local(fi.node):
            if isinstance(st, ast.Assign):
                for t in st.targets:
                    if isinstance(t, ast.Subscript) and R.self_attr(t.value, fi.self_name) == "surpluses":
                        fills.append(st)
        if not fills:
            continue
        ctx.touch(fi)
        n += 1
        c = cfg_of(fi)
        solves = [nd for nd in c.nodes if nd.kind in ("stmt", "test") and nd.ast is not None and any(
            isinstance(x, ast.Call) and isinstance(x.func, ast.Attribute) and x.func.attr.startswith("solve_regression")
            and isinstance(x.func.value, ast.Name) and x.func.value.id == fi.self_name for x in ast.walk(nd.ast))]
        problems = []
        if not solves:
            problems.append("no call of self.solve_regression* found")
        elif not c.must_pass_through(c.entry, [c.exit], solves):
            wit = c.path_avoiding(c.entry, [c.exit], solves)
            line = next((getattr(w.ast, "lineno", None) for w in reversed(wit or []) if getattr(w, "ast", None) is not None and hasattr(w.ast, "lineno")), None)
            problems.append("a path reaches a normal exit (line %s) without solving the system in this call" % line)
        # values stored: names whose every definition is a solve call
        solved_names = set()
        defs = {}
        for st in walk_local(fi.node):
            if isinstance(st, ast.Assign) and len(st.targets) == 1 and isinstance(st.targets[0], ast.Name):
                defs.setdefault(st.targets[0].id, []).append(st.value)
        for name, vals in defs.items():
            if all(isinstance(v, ast.Call) and isinstance(v.func, ast.Attribute) and v.func.attr.startswith("solve_regression") for v in vals):
                solved_names.add(name)
        for f in fills:
            if isinstance(f, ast.Call):
                vals = []
                for a in f.args:
                    if isinstance(a, ast.Dict):
                        vals += a.values
                    else:
                        vals.append(a)
                vals = vals[-1:] if f.func.attr != "update" else vals
            else:
                vals = [f.value]
            for v in vals:
                good = (isinstance(v, ast.Name) and v.id in solved_names) or \
                       (isinstance(v, ast.Call) and isinstance(v.func, ast.Attribute) and v.func.attr.startswith("solve_regression"))
                if not good:
                    problems.append("`%s` stores a value that is not the solution computed in this call" % src(f))
        fill_ids = {id(f.func.value) for f in fills if isinstance(f, ast.Call)} | \
                   {id(t.value) for f in fills if isinstance(f, ast.Assign) for t in f.targets if isinstance(t, ast.Subscript)}
        for x in walk_local(fi.node):
            if isinstance(x, ast.Attribute) and R.self_attr(x, fi.self_name) == "surpluses" and id(x) not in fill_ids:
                problems.append("line %d reads self.surpluses inside the method that fills it (surpluses of an earlier training set can be handed out)" % x.lineno)
        ctx.check(not problems, "C20.D7", R.key_of(fi, "solved-in-this-call"), fi.loc(),
                  "every normal exit is preceded by a solve in this call, the solution is what is stored, the store is not read back",
                  "%s: %s" % (fi.name, "; ".join(problems)))
    ctx.floor("C20.D7", n, 2, "methods of Regression filling self.surpluses")
