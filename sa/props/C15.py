"""C15 -- weighted UQ quadrature is a probability measure; moments transform correctly.

Decided structural clauses:
 D1 non-negativity by sanitisation: every returned weight array of the unmodified weighted rule has passed the clipping loop
    (negative entries replaced by 0) and is only scaled by a non-negative factor afterwards; constant early returns are >= 0
 D2 per-interval split: w1 + w2 == moment_0 on every branch of w2 (polynomial identity), added to entries i and i+1
 D3 normalisation without boundary: after zeroing both end entries the inner entries are multiplied by the reciprocal of
    their own sum
 D4 variance never negative: every element is flipped under a `< 0` test
 D5 moment layout agreement between the producer of the combined moments ([1, 2]) and its consumers (first / second half)
 D6 the weighted midpoint lies strictly inside: fallbacks are taken exactly when a < mid < b fails; the split asserts it
 D7 cached interval moments: zeroth and first moment use different caches, each keyed by the full interval (x1, x2); the value
    stored is the one computed for that interval; the zeroth moment is cdf(x2) - cdf(x1), the first the integral of x*pdf(x) over
    (x1, x2)
 D8 per-dimension distribution closures: a function or lambda defined inside a loop and kept beyond the iteration (stored /
    appended / passed to a constructor) does not read a loop-variant local as a free variable (Python closures bind late: every
    dimension would use the parameters of the last one)
 D9 nodes, weights and model evaluations are refreshed together: the sequences that the moment computation pairs index by index
    are all stored on every path of every method that stores one of them
Not decided: sum == 1 with boundary, agreement with the unweighted rule, equal-probability split, affine covariance."""
import ast

from ..absint import poly_of_term, Poly, sign_of, is_nonneg
from ..cfg import cfg_of, walk_local
from ..loader import AnalysisError, src
from ..terms import Terms, terms_of, show, subterms, norm_cmp
from .. import rules as R

EXPLANATION = ("Static analysis of Grid.GlobalTrapezoidalGridWeighted.compute_weights / get_middle_weighted and of the moment "
               "bookkeeping in GridOperation.UncertaintyQuantification: dominance of the clipping loop over every non-constant return, "
               "a polynomial identity for the two interval weights, the normalisation idiom, guarded sign flips of the variance, "
               "constant/slice agreement of the moment layout, and guard checks of the midpoint fallbacks.")

GW = "Grid.GlobalTrapezoidalGridWeighted"
UQ = "GridOperation.UncertaintyQuantification"


NP_CONVERT = {"asarray", "array", "asanyarray", "asfarray"}
ABS_CALLS = {"abs", "absolute", "fabs"}
FRESH_RESULT_CALLS = {"array", "zeros", "ones", "empty", "full", "copy", "deepcopy", "concatenate", "list", "linspace", "arange", "inner", "dot", "sum",
                      "transpose", "zeros_like", "ones_like", "fit_quadrature", "tuple", "sorted"}


def _array_variance_form(mv):
    """whole-array form of the variance: the returned variance resolves to  abs(M2 - M1 * M1)  /  maximum(M2 - M1 * M1, 0)  with M1, M2 the
    (converted) parameters.  Returns (formula ok, non-negative ok) or None when the function is not written in that form."""
    ps = R.path_summaries(mv)                 # loop-free: locals substituted along each path (re-bindings and `-=` included)
    if not ps:
        return None
    vals = {v for (_f, v) in ps if v != ("<falls-off>",)}
    if len(vals) != 1:
        return None
    v = vals.pop()
    if not (v[0] == "tuple" and len(v) == 3):
        return None
    t = v[2]

    def strip(x):
        if isinstance(x, tuple) and x and x[0] == "call" and x[1][0] in ("a", "n") and (x[1][2] if x[1][0] == "a" else x[1][1]) in NP_CONVERT and len(x[2]) == 1:
            return strip(x[2][0])
        if isinstance(x, tuple):
            return tuple(strip(y) for y in x)
        return x
    t = strip(t)
    if t[0] != "call":
        return None
    fname = t[1][2] if t[1][0] == "a" else (t[1][1] if t[1][0] == "n" else None)
    nonneg = False
    inner = None
    if fname in ABS_CALLS and len(t[2]) == 1:
        nonneg, inner = True, t[2][0]
    elif fname == "maximum" and len(t[2]) == 2 and ("c", "0") in t[2] or fname == "maximum" and len(t[2]) == 2 and ("c", "0.0") in t[2]:
        nonneg = True
        inner = [x for x in t[2] if x not in (("c", "0"), ("c", "0.0"))][0]
    if inner is None:
        return None
    m1, m2 = ("n", mv.params[0]), ("n", mv.params[1])
    try:
        good = poly_of_term(inner) == poly_of_term(("op", "Sub", (m2, ("op", "Mult", (m1, m1)))))
    except Exception:                                            # noqa: BLE001
        good = False
    return good, nonneg


def check_results_not_modified(prog, ctx):
    """D10: E and Var are read off the combined moments; the combined moments are the operation's stored result (get_result() returns
    the array itself, and it is also the combination's calculated solution).  No method of UncertaintyQuantification may modify, in
    place, an object it received as a sequence parameter or as the result of a non-constructing call (or a view of one)."""
    uq = prog.cls(UQ)
    n = 0
    for name, fi in sorted(uq.methods.items()):
        roots = set(R.sequence_params(fi))
        for st in walk_local(fi.node):
            if isinstance(st, ast.Assign) and len(st.targets) == 1 and isinstance(st.targets[0], ast.Name) and isinstance(st.value, ast.Call):
                fn = st.value.func.attr if isinstance(st.value.func, ast.Attribute) else (st.value.func.id if isinstance(st.value.func, ast.Name) else None)
                if fn not in FRESH_RESULT_CALLS and fn not in R.VIEW_CALLS:
                    roots.add(st.targets[0].id)
        n += 1
        for (st, nm, root, how) in R.inplace_modifications_of_parameters(fi, roots):
            ctx.violation("C15.D10", R.key_of(fi, "modifies-received-object:%s" % nm), fi.loc(st),
                          "`%s` modifies `%s` in place (%s); `%s` is, or may be a view of, the object received as `%s` -- for the combined moments that "
                          "is the operation's stored result, so a second read of the statistics sees the modified values"
                          % (src(st)[:70], nm, how, nm, root))
    ctx.check(n >= 20, "C15.D10", "%s::statistics-do-not-modify-results" % UQ, uq.methods["moments_to_expectation_variance"].loc(),
              "%d methods of UncertaintyQuantification analysed: none modifies a received sequence / call result (or a view of it) in place" % n,
              "only %d methods of UncertaintyQuantification found" % n)


def run(prog, ctx):
    cw = prog.func(GW + ".compute_weights")
    ctx.touch(cw)
    c = cfg_of(cw)
    tm = Terms(cw.node, max_depth=0)
    flag = cw.params[5]          # modified_basis
    bnd = cw.params[4]           # boundary

    # ------------------------------------------------------------------ D1
    rets = [n for n in c.nodes if n.kind == "stmt" and isinstance(n.ast, ast.Return) and n.idx in c.reachable()]
    const_rets = [r for r in rets if isinstance(r.ast.value, (ast.List, ast.Tuple))]
    for k, r in enumerate(const_rets):
        vals = []
        ok = True
        for e in r.ast.value.elts:
            try:
                vals.append(ast.literal_eval(e))
            except Exception:
                ok = False
        ok = ok and all(v >= 0 for v in vals)
        ctx.check(ok, "C15.D1", R.key_of(cw, "constant-return#%d" % k), cw.loc(r.ast), "constant weights %s are non-negative" % vals,
                  "the constant early return `%s` contains a negative weight" % src(r.ast))
    named = [r for r in rets if isinstance(r.ast.value, ast.Name)]
    # the clipping loop: for i in range(n): if w[i] >= 0: continue ; ... ; w[i] = 0.0      (or the if v < 0: w[i] = 0 form)
    clip_loops = []
    for loop in [l for l in walk_local(cw.node) if isinstance(l, ast.For) and isinstance(l.target, ast.Name)]:
        i = loop.target.id
        for st in ast.walk(loop):
            if isinstance(st, ast.Assign) and isinstance(st.targets[0], ast.Subscript) and isinstance(st.targets[0].value, ast.Name) \
                    and isinstance(st.targets[0].slice, ast.Name) and st.targets[0].slice.id == i and isinstance(st.value, ast.Constant) \
                    and st.value.value == 0:
                w = st.targets[0].value.id
                sn = c.node_of(st)
                guards = [g for (g, gn) in R.dominating_guards(cw, sn, tm) if gn.kind == "test" and c.in_loop(gn, loop)]
                elem = ("s", ("n", w), ("n", i))
                neg = any(g[0] == "cmp" and g[1] == "Lt" and g[2] == elem and g[3][0] == "c" and float(ast.literal_eval(g[3][1])) == 0.0 for g in guards)
                it = tm.term(loop.iter)
                whole = it[0] == "call" and it[1] == ("n", "range") and len(it[2]) == 1
                if whole and it[2][0][0] == "n":
                    b = tm.env.single(it[2][0][1])
                    whole = b is not None and tm.term(b.value) == ("call", ("n", "len"), (("n", cw.params[0]),), ())
                elif whole:
                    whole = it[2][0] in (("call", ("n", "len"), (("n", w),), ()), ("call", ("n", "len"), (("n", cw.params[0]),), ()))
                # only the negative entries are replaced: no other element store in the loop
                others = [s2 for s2 in ast.walk(loop) if isinstance(s2, (ast.Assign, ast.AugAssign)) and s2 is not st and
                          isinstance((s2.targets[0] if isinstance(s2, ast.Assign) else s2.target), ast.Subscript)]
                if neg and whole and not others:
                    clip_loops.append((loop, w, c.node_of(loop)))
    # vectorised form of the same clipping: `w[w < 0] = 0.0` / `neg = np.logical_not(w >= 0.0); ...; w[neg] = 0.0` (whole array, only the
    # negative entries are replaced)
    clip_stmts = []
    zero_c = (("c", "0"), ("c", "0.0"))
    for n_ in c.nodes:
        if not (n_.kind == "stmt" and isinstance(n_.ast, ast.Assign) and len(n_.ast.targets) == 1 and isinstance(n_.ast.targets[0], ast.Subscript)
                and isinstance(n_.ast.targets[0].value, ast.Name) and isinstance(n_.ast.value, ast.Constant) and n_.ast.value.value == 0):
            continue
        w_ = n_.ast.targets[0].value.id
        mt = R.resolve_locals(cw, tm.term(n_.ast.targets[0].slice), n_, tm)
        neg_mask = mt in [("cmp", "Lt", ("n", w_), z) for z in zero_c] or \
            mt in [("call", ("a", ("n", "np"), "logical_not"), (("cmp", "LtE", z, ("n", w_)),), ()) for z in zero_c] or \
            mt in [("not", ("cmp", "LtE", z, ("n", w_))) for z in zero_c] or mt in [("inv", ("cmp", "LtE", z, ("n", w_))) for z in zero_c]
        if neg_mask:
            clip_stmts.append((w_, n_))

    def clipped_before(w_, node):
        return any(wl == w_ and c.edge_dominates(ln, False, node) for (_l, wl, ln) in clip_loops) or \
            any(wl == w_ and sn is not node and c.dominates(sn, node) for (wl, sn) in clip_stmts)
    for k, r in enumerate(named):
        w = r.ast.value.id
        guards = [g for (g, gn) in R.dominating_guards(cw, r, tm) if gn.kind == "test"]
        if ("n", flag) in guards:
            # modified basis: delegated to the unweighted rule, outside the non-negativity clause
            ctx.ok("C15.D1", R.key_of(cw, "modified-basis-return"), cw.loc(r.ast), "modified-basis path: not part of the non-negativity clause")
            continue
        ok = clipped_before(w, r)
        why = "no clipping loop over all entries dominates the return"
        if ok:
            loop_pts = [ln for (_l, wl, ln) in clip_loops if wl == w]
            if loop_pts:
                loopn = loop_pts[0]
                after = c.reachable(loopn, blocked_edges={(loopn.idx, s.idx, l) for (s, l) in loopn.succ if l is True})
            else:
                loopn = [sn for (wl, sn) in clip_stmts if wl == w][0]
                after = c.reachable_after(loopn)
            # stores after the clipping may only write non-negative values
            for n in c.nodes:
                if n.idx in after and n is not loopn and n.kind == "stmt" and isinstance(n.ast, (ast.Assign, ast.AugAssign)):
                    tg = n.ast.targets[0] if isinstance(n.ast, ast.Assign) else n.ast.target
                    root = tg
                    while isinstance(root, ast.Subscript):
                        root = root.value
                    if isinstance(root, ast.Name) and root.id == w:
                        t = R.resolve_locals(cw, tm.term(n.ast.value), n, tm)

                        def ax(x):
                            # entries of the clipped array are >= 0
                            if x[0] == "s" and x[1] == ("n", w):
                                return ">=0"
                            if x[0] == "bv":
                                return ">=0"      # comprehension variable ranging over a slice of the clipped array (checked below)
                            return None
                        s = sign_of(t, ctx.assume, ax)
                        comp_ok = True
                        for x in subterms(t):
                            if x[0] == "comp":
                                comp_ok = comp_ok and len(x[3]) == 1 and x[3][0][1][0] == "s" and x[3][0][1][1] == ("n", w)
                        if isinstance(n.ast, ast.AugAssign) and not isinstance(n.ast.op, (ast.Add, ast.Mult)):
                            s = "T"
                        if not (is_nonneg(s) and comp_ok):
                            ok = False
                            why = "after the clipping `%s` can store a negative value (sign %s)" % (src(n.ast), s)
        ctx.check(ok, "C15.D1", R.key_of(cw, "clipped-return#%d" % k), cw.loc(r.ast),
                  "the returned weights passed the clipping loop and were only scaled by non-negative factors afterwards",
                  "weighted trapezoidal weights can be negative: " + why)
    ctx.floor("C15.D1", len(named), 1, "array-valued returns of the weighted rule")

    # ------------------------------------------------------------------ D2
    augs = []
    for st in walk_local(cw.node):
        if isinstance(st, ast.AugAssign) and isinstance(st.op, ast.Add) and isinstance(st.target, ast.Subscript) and isinstance(st.target.value, ast.Name):
            augs.append(st)
    pairs = []
    for a in augs:
        for b in augs:
            if a is not b and a.target.value.id == b.target.value.id and getattr(a, "_parent", None) is getattr(b, "_parent", None):
                ia, ib = poly_of_term(tm.term(a.target.slice)), poly_of_term(tm.term(b.target.slice))
                if (ib - ia) == Poly.const(1):
                    pairs.append((a, b))
    if not pairs:
        sib = [(a, b) for a in augs for b in augs if a is not b and a.target.value.id == b.target.value.id
               and getattr(a, "_parent", None) is getattr(b, "_parent", None) and a.lineno < b.lineno]
        if sib:
            a, b = sib[0]
            ctx.violation("C15.D2", R.key_of(cw, "interval-split#0"), cw.loc(a),
                          "the two interval weights are added to entries %s and %s, which are not neighbouring entries i, i+1"
                          % (src(a.target), src(b.target)))
            pairs = []
        else:
            ctx.floor("C15.D2", 0, 1, "pairs of neighbouring weight updates")
    for k, (a, b) in enumerate(pairs):
        an = c.node_of(a)
        # all definitions of w2 reach through one join; w1 is defined from w2 after the join
        t1 = R.resolve_locals(cw, tm.term(a.value), an, tm, depth=1) if isinstance(a.value, ast.Name) else tm.term(a.value)
        t2 = tm.term(b.value)
        total = poly_of_term(t1) + poly_of_term(t2)
        loops = [l for l in R.enclosing_loops(a) if isinstance(l, ast.For)]
        m0 = None
        for st in (loops[-1].body if loops else []):
            if isinstance(st, ast.Assign) and isinstance(st.targets[0], ast.Name) and isinstance(st.value, ast.Call) \
                    and isinstance(st.value.func, ast.Attribute) and st.value.func.attr == "get_zeroth_moment":
                m0 = st.targets[0].id
                m0_args = [tm.term(x) for x in st.value.args]
        ok = m0 is not None and total == Poly.atom(("n", m0))
        why = "w_left + w_right = %r, zeroth moment variable %s" % (total, m0)
        if ok:
            # the moment is taken over exactly this interval [g[i], g[i+1]] and w1 is computed after w2 is final
            i_t = tm.term(a.target.slice)
            want = [("s", ("n", cw.params[0]), i_t), ("s", ("n", cw.params[0]), tm.term(b.target.slice))]
            resolved = [R.resolve_locals(cw, x, an, tm, depth=1) for x in m0_args]
            # interval ends bound by the loop header (enumerate(zip(g[:-1], g[1:]))) are positions as well
            resolved = [(R.positional_term(cw, x[1], tm) or x) if x[0] == "n" else x for x in resolved]
            norm_ = lambda t_: ("s", t_[1], poly_of_term(t_[2])) if t_[0] == "s" else t_
            ok = [norm_(x) for x in resolved] == [norm_(x) for x in want]
            why = "the zeroth moment is taken over %s, not over the interval of the two updated entries" % [show(x) for x in resolved]
        if ok and isinstance(a.value, ast.Name):
            bdef = R.reaching_unique_def(cw, a.value.id, a.value)
            w2n = b.value.id if isinstance(b.value, ast.Name) else None
            if bdef is None or w2n is None:
                ok = False
                why = "the two interval weights are not single-definition locals"
            else:
                dn = c.node_of(bdef.stmt)
                w2defs = [c.node_of(x.stmt) for x in tm.env.bindings.get(w2n, []) if x.kind == "assign"]
                ok = all(dn.idx in c.reachable_after(x) for x in w2defs) and not any(x.idx in c.reachable_after(dn) and an.idx in c.reachable_after(x) and x is not dn
                                                                                      for x in w2defs if c.in_loop(x, loops[-1]) and x.idx > dn.idx)
                why = "the right weight is changed after the left weight was derived from it"
        ctx.check(ok, "C15.D2", R.key_of(cw, "interval-split#%d" % k), cw.loc(a),
                  "the two weights of an interval add up to its zeroth moment on every branch and go to entries i, i+1",
                  "per-interval split of the probability mass: " + why)

    # ------------------------------------------------------------------ D3
    nb_stores = []
    for n in c.nodes:
        if n.kind == "stmt" and isinstance(n.ast, ast.Assign) and isinstance(n.ast.targets[0], ast.Subscript) and n.idx in c.reachable():
            guards = [g for (g, gn) in R.dominating_guards(cw, n, tm) if gn.kind == "test"]
            if ("not", ("n", bnd)) in guards:
                nb_stores.append(n)
    zero_first = zero_last = norm = None
    for n in nb_stores:
        tg = n.ast.targets[0]
        idx = tm.term(tg.slice)
        if isinstance(n.ast.value, ast.Constant) and n.ast.value.value == 0:
            if idx == ("c", "0"):
                zero_first = n
            if idx == ("c", "-1"):
                zero_last = n
        if idx[0] == "slice":
            norm = n
    ok = zero_first is not None and zero_last is not None and norm is not None
    why = "missing zeroing of an end entry or the re-normalisation of the inner entries"
    if ok:
        w = norm.ast.targets[0].value.id
        sl = tm.term(norm.ast.targets[0].slice)
        t = R.resolve_locals(cw, tm.term(norm.ast.value), norm, tm)
        inner = ("s", ("n", w), sl)
        recip = ("op", "Div", (("c", "1.0"), ("call", ("n", "sum"), (inner,), ())))
        recip2 = ("op", "Div", (("c", "1"), ("call", ("n", "sum"), (inner,), ())))
        good = False
        if t[0] == "comp" and len(t[3]) == 1 and t[3][0][1] == inner and t[3][0][2] == ():
            body = t[2]
            if body[0] == "op" and body[1] == "Mult" and ("bv", "$0") in body[2] and any(x in (recip, recip2) for x in body[2]):
                good = True
            if body == ("op", "Div", (("bv", "$0"), ("call", ("n", "sum"), (inner,), ()))):
                good = True
        if t == ("op", "Div", (inner, ("call", ("n", "sum"), (inner,), ()))):
            good = True
        ok = good and sl == ("slice", ("c", "1"), ("c", "-1"), ("c", "None"))
        why = "the inner entries are assigned %s, not themselves times 1/sum(inner entries)" % show(t)
        if ok:
            # the sum is taken after both end entries were zeroed and after the clipping
            # a normalising factor held in a local: the sum is taken where that local is defined
            fdefs = [x for y in subterms(tm.term(norm.ast.value)) if y[0] == "n" and y[1] != w for x in tm.env.bindings.get(y[1], [])
                     if x.kind == "assign" and x.value is not None and any(isinstance(z, ast.Call) and isinstance(z.func, ast.Name) and z.func.id == "sum"
                                                                          for z in ast.walk(x.value))]
            anchor = c.node_of(fdefs[0].stmt) if fdefs else norm
            ok = c.dominates(zero_first, anchor) and c.dominates(zero_last, anchor) and \
                clipped_before(w, anchor)
            why = "the normalising sum is taken before the end entries are zeroed / before the clipping"
    ctx.check(ok, "C15.D3", R.key_of(cw, "renormalise-without-boundary"), cw.loc(norm.ast) if norm is not None else cw.loc(),
              "without boundary points: end entries zeroed, inner entries scaled by the reciprocal of their own sum",
              "normalisation without boundary points: " + why)

    # ------------------------------------------------------------------ D4
    mv = prog.func(UQ + ".moments_to_expectation_variance")
    ctx.touch(mv)
    tmm = Terms(mv.node, max_depth=0)
    cm = cfg_of(mv)
    rets = R.return_paths(mv)[0]
    ok = False
    var = None
    why = "no (expectation, variance) pair returned"
    if rets and isinstance(rets[0].ast.value, ast.Tuple) and len(rets[0].ast.value.elts) == 2 and isinstance(rets[0].ast.value.elts[1], ast.Name):
        var = rets[0].ast.value.elts[1].id
        why = "no loop flips or clamps the negative entries of `%s`" % var
        for loop in [l for l in walk_local(mv.node) if isinstance(l, ast.For)]:
            it = tmm.term(loop.iter)
            if it == ("call", ("n", "enumerate"), (("n", var),), ()) and isinstance(loop.target, ast.Tuple):
                i, v = loop.target.elts[0].id, loop.target.elts[1].id
                for st in ast.walk(loop):
                    if isinstance(st, ast.Assign) and isinstance(st.targets[0], ast.Subscript) and tmm.term(st.targets[0]) == ("s", ("n", var), ("n", i)):
                        val = tmm.term(st.value)
                        guards = [g for (g, gn) in R.dominating_guards(mv, cm.node_of(st), tmm) if gn.kind == "test"]
                        negg = any(g[0] == "cmp" and g[1] == "Lt" and g[2] == ("n", v) and g[3][0] == "c" and float(ast.literal_eval(g[3][1])) == 0 for g in guards)
                        fix = val in (("neg", ("n", v)), ("call", ("n", "abs"), (("n", v),), ()), ("c", "0"), ("c", "0.0"))
                        if negg and fix and cm.edge_dominates(cm.node_of(loop), False, rets[0]):
                            ok = True
        # alternative: comprehension with abs / max(.., 0)
        for b in tmm.env.bindings.get(var, []):
            if b.kind == "assign":
                t = tmm.term(b.value)
                if t[0] == "comp" and t[2][0] == "call" and t[2][1] in (("n", "abs"),) :
                    ok = True
                # [-v if v < 0 else v for v in raw] / [v if v >= 0 else -v ...]: the sign fix per entry as a conditional expression
                bv = ("bv", "$0")
                zero_ = (("c", "0"), ("c", "0.0"))
                if t[0] == "comp" and t[2][0] == "ifexp" and len(t[3]) == 1 and t[3][0][0] == bv and \
                        ((t[2][1][0] == "cmp" and t[2][1][1] == "Lt" and t[2][1][2] == bv and t[2][1][3] in zero_ and t[2][2] == ("neg", bv) and t[2][3] == bv)
                         or (t[2][1][0] == "cmp" and t[2][1][1] == "LtE" and t[2][1][2] in zero_ and t[2][1][3] == bv and t[2][2] == bv and t[2][3] == ("neg", bv))):
                    if rets and cm.dominates(cm.node_of(b.stmt), rets[0]):
                        ok = True
    # alternative: one loop that computes each entry, fixes its sign and appends it -- judged per entry by path summaries of the body
    entry_vals = None
    if not ok and rets and isinstance(rets[0].ast.value, ast.Tuple) and len(rets[0].ast.value.elts) == 2 and isinstance(rets[0].ast.value.elts[1], ast.Name):
        vname = rets[0].ast.value.elts[1].id
        for loop in [l for l in walk_local(mv.node) if isinstance(l, ast.For)]:
            apps_ = [x for x in R.calls_in(loop, method="append") if isinstance(x.func.value, ast.Name) and x.func.value.id == vname and x.args]
            if len(apps_) != 1 or not cm.edge_dominates(cm.node_of(loop), False, rets[0]):
                continue
            sums = R.block_summaries(mv, loop.body, lambda st_: st_.value.args[0] if isinstance(st_, ast.Expr) and isinstance(st_.value, ast.Call)
                                     and isinstance(st_.value.func, ast.Attribute) and st_.value.func.attr == "append"
                                     and isinstance(st_.value.func.value, ast.Name) and st_.value.func.value.id == vname and st_.value.args else None)
            if not sums:
                continue
            good = True
            entry_vals = set()
            zero = (("c", "0"), ("c", "0.0"))
            for (f, val) in sums:
                base = val[1] if val[0] == "neg" else val
                entry_vals.add(base)
                if val[0] == "neg":
                    good = good and any(g[0] == "cmp" and g[1] == "Lt" and g[2] == base and g[3] in zero for g in f)
                elif val[0] == "call" and val[1] in (("n", "abs"),):
                    entry_vals.discard(base)
                    entry_vals.add(val[2][0])
                else:
                    good = good and any(g[0] == "cmp" and g[1] == "LtE" and g[2] in zero and g[3] == base for g in f)
            ok = good
            entry_loop = loop
    af_ = _array_variance_form(mv)
    if af_ is not None and af_[1]:
        ok = True
    ctx.check(ok, "C15.D4", R.key_of(mv, "variance-nonneg"), mv.loc(),
              "every negative variance entry is replaced by its negation before the pair is returned",
              "moments_to_expectation_variance can return a negative variance: " + why)
    # variance = second moment - expectation^2, element-wise with matching indices
    okv = False
    for b in tmm.env.bindings.get(var if (rets and var is not None) else "variance", []):
        if b.kind == "assign":
            t = Terms(mv.node).term(b.value)
            # a sign-fixing comprehension over the raw variances: judge the comprehension it ranges over
            if t[0] == "comp" and len(t[3]) == 1 and t[2][0] == "ifexp" and isinstance(t[3][0][1], tuple) and t[3][0][1][0] == "comp":
                t = t[3][0][1]
            if t[0] == "comp" and len(t[3]) == 1:
                body = t[2]
                m1, m2 = mv.params[0], mv.params[1]
                if t[3][0][1] == ("call", ("n", "enumerate"), (("n", m1),), ()) and \
                        body == ("op", "Sub", (("s", ("n", m2), ("bv", "$0")), ("op", "Mult", (("bv", "$1"), ("bv", "$1"))))):
                    okv = True
    if not okv and entry_vals is not None and len(entry_vals) == 1:
        # loop form: the entry is m2[i] - e * e with e the element of the expectation at the same position i
        m1, m2 = mv.params[0], mv.params[1]
        tmv0 = Terms(mv.node, max_depth=0)
        ev = list(entry_vals)[0]
        def posn(t_):
            if isinstance(t_, tuple) and len(t_) == 2 and t_[0] == "n":
                return R.positional_term(mv, t_[1], Terms(mv.node)) or t_
            if isinstance(t_, tuple):
                return tuple(posn(x) for x in t_)
            return t_
        ev = posn(ev)
        idxs = {x[2] for x in subterms(ev) if x[0] == "s" and x[1] in (("n", m1), ("n", m2))}
        if len(idxs) == 1:
            i_t = list(idxs)[0]
            e_t = ("s", ("n", m1), i_t)
            okv = poly_of_term(ev) == poly_of_term(("op", "Sub", (("s", ("n", m2), i_t), ("op", "Mult", (e_t, e_t)))))
    array_form = _array_variance_form(mv)
    if array_form is not None:
        okv = okv or array_form[0]
    ctx.check(okv, "C15.D4", R.key_of(mv, "variance-formula"), mv.loc(),
              "variance[i] = second_moment[i] - expectation[i]**2", "the variance is no longer second_moment[i] - expectation[i] * expectation[i]")

    # ------------------------------------------------------------------ D5
    prod = prog.func(UQ + ".get_expectation_variance_Function")
    ctx.touch(prod)
    tp = Terms(prod.node)
    okp = any(tp.term(r.ast.value) == ("call", ("a", ("n", "self"), "get_moments_Function"), (("list", ("c", "1"), ("c", "2")),), ())
              for r in R.return_paths(prod)[0])
    ctx.check(okp, "C15.D5", R.key_of(prod, "producer-order"), prod.loc(), "combined moments are produced in the order [1, 2]",
              "get_expectation_variance_Function no longer concatenates the moments in the order [1, 2]")
    gm = prog.func(UQ + ".get_moments_Function")
    ctx.touch(gm)
    tg = Terms(gm.node)
    okg = False
    for r in R.return_paths(gm)[0]:
        t = tg.term(r.ast.value)
        for x in subterms(t):
            if x[0] == "comp" and len(x[3]) == 1 and x[3][0][1] == ("n", gm.params[1]) and x[3][0][2] == () and \
                    x[2] == ("call", ("a", ("n", "self"), "get_moment_Function"), (("bv", "$0"),), ()):
                okg = True
    ctx.check(okg, "C15.D5", R.key_of(gm, "keeps-order"), gm.loc(), "get_moments_Function concatenates the moments in the requested order",
              "get_moments_Function no longer maps the requested orders one by one, in order, to moment functions")
    consumers = [prog.func(UQ + ".calculate_expectation_and_variance")]
    for f in prog.methods_named("calculate_multiple_expectation_and_variance"):
        consumers.append(f)
    n5 = 0
    for fi in consumers:
        ctx.touch(fi)
        tmf = Terms(fi.node, max_depth=0)
        calls = R.calls_in(fi.node, method="moments_to_expectation_variance")
        for call in calls:
            n5 += 1
            a0 = R.resolve_locals(fi, tmf.term(call.args[0]), R.cfg_node(fi, call), tmf, depth=1) if isinstance(call.args[0], ast.Name) else tmf.term(call.args[0])
            a1 = R.resolve_locals(fi, tmf.term(call.args[1]), R.cfg_node(fi, call), tmf, depth=1) if isinstance(call.args[1], ast.Name) else tmf.term(call.args[1])
            # accept the slice form on some path: collect all assign definitions
            def forms(name_node):
                out = []
                if isinstance(name_node, ast.Name):
                    for b in tmf.env.bindings.get(name_node.id, []):
                        if b.kind == "assign":
                            out.append(tmf.term(b.value))
                else:
                    out.append(tmf.term(name_node))
                return out
            f0, f1 = forms(call.args[0]), forms(call.args[1])
            first = [t for t in f0 if t[0] == "s" and t[2][0] == "slice"]
            second = [t for t in f1 if t[0] == "s" and t[2][0] == "slice"]
            ok = bool(first) and bool(second)
            why = "the moments are not taken as slices of the combined result"
            if ok:
                a, b = first[0], second[0]
                none = ("c", "None")
                ok = a[1] == b[1] and a[2][1] == none and b[2][2] == none and a[2][2] == b[2][1]
                why = "first moment %s / second moment %s are not the first and the second half of the same vector" % (show(a), show(b))
                if ok:
                    h = a[2][2]
                    hb = tmf.env.single(h[1]) if h[0] == "n" else None
                    ht = tmf.term(hb.value) if hb is not None and hb.kind == "assign" else h
                    ok = ht == ("op", "FloorDiv", (("call", ("n", "len"), (a[1],), ()), ("c", "2")))
                    why = "the split position %s is not len(vector) // 2" % show(ht)
            ctx.check(ok, "C15.D5", R.key_of(fi, "consumer-layout#%d" % n5), fi.loc(call),
                      "expectation = first half, second moment = second half of the combined vector",
                      "%s: %s" % (fi.name, why))
    ctx.floor("C15.D5", n5, 2, "consumers of the combined moment vector")

    # ------------------------------------------------------------------ D7
    check_moment_caches(prog, ctx)
    # ------------------------------------------------------------------ D8, D9
    check_loop_closures(prog, ctx)
    check_parallel_refresh(prog, ctx)
    # ------------------------------------------------------------------ D10
    check_results_not_modified(prog, ctx)
    # ------------------------------------------------------------------ D11
    check_shared_distribution_key(prog, ctx)

    # ------------------------------------------------------------------ D6
    gmw = prog.func(GW + ".get_middle_weighted")
    ctx.touch(gmw)
    tmw = Terms(gmw.node, max_depth=0)
    cg = cfg_of(gmw)
    a_, b_ = gmw.params[0], gmw.params[1]
    # Path summaries (loop-free function): every path is (facts, returned value) with locals substituted, so early returns, nested
    # ifs and temporaries all look the same.  inside(C) is the test a < C < b of a candidate C.
    from ..terms import negate as _negate

    def inside(C):
        return ("bool", "and", tuple(sorted((("cmp", "Lt", ("n", a_), C), ("cmp", "Lt", C, ("n", b_))), key=repr)))
    ps = R.path_summaries(gmw)
    if ps is None:
        raise AnalysisError("C15.D6: get_middle_weighted is no longer loop-free (path summaries unavailable)")
    ps = [(f, v) for (f, v) in ps if v != ("<falls-off>",)]

    # the test may be written chained (`a < C < b`, one fact) or as two comparisons joined by `and` (two facts on the true path, the
    # negation of one of them on each false path)
    def lits(C):
        return (("cmp", "Lt", ("n", a_), C), ("cmp", "Lt", C, ("n", b_)))

    def flat(f):
        out = set()
        for g in f:
            if g[0] == "bool" and g[1] == "and":
                out |= set(g[2])
            out.add(g)
        return out

    def holds_inside(f, C):
        return all(x in flat(f) for x in lits(C))

    def fails_inside(f, C):
        ff = flat(f)
        return _negate(inside(C)) in ff or any(_negate(x) in ff for x in lits(C))
    cands = []
    for (f, v) in ps:
        for g in flat(f):
            if g[0] == "cmp" and g[1] == "Lt" and g[2] == ("n", a_) and g[3] != ("n", b_) and holds_inside(f, g[3]) and g[3] not in cands:
                cands.append(g[3])
    primary = [C for C in cands if any(x[0] == "call" and x[1] == ("n", gmw.params[3]) for x in subterms(C))]
    ctx.floor("C15.D6", len(cands), 1, "midpoint candidates tested for lying strictly inside (a, b)")
    n6 = 0
    for (f, v) in ps:
        n6 += 1
        bad = [C for C in cands if C != v and holds_inside(f, C)]
        miss = [C for C in primary if C != v and not fails_inside(f, C)]
        ctx.check(not bad and not miss, "C15.D6", R.key_of(gmw, "fallback-guarded#%d" % n6), gmw.loc(),
                  "`%s` is returned only on paths where every earlier candidate failed a < mid < b" % show(v)[:60],
                  "get_middle_weighted can return `%s` although the candidate `%s` %s" %
                  (show(v)[:80], show((bad or miss or [("?",)])[0])[:80], "was strictly inside (a, b)" if bad else "was never tested against (a, b)"))
    ctx.check(bool(primary) and any(v == primary[0] for (f, v) in ps), "C15.D6", R.key_of(gmw, "returns-mid"), gmw.loc(),
              "the probability-halving midpoint ppf((cdf(a) + cdf(b)) / 2) is returned when it lies inside",
              "get_middle_weighted no longer returns the probability-halving midpoint")
    # the split itself asserts start < mid < end (shared with C06.D1)
    rf = prog.func("RefinementObject.RefinementObjectSingleDimension.refine")
    ctx.touch(rf)
    tr = Terms(rf.node, max_depth=0)
    cr = cfg_of(rf)
    okA = False
    for n in cr.nodes:
        if n.kind == "stmt" and isinstance(n.ast, ast.Assert):
            t = tr.term(n.ast.test)
            have = set(t[2]) if t[0] == "bool" and t[1] == "and" else {t}
            lows = {x[3][1] for x in have if x[0] == "cmp" and x[1] == "Lt" and x[2] == ("a", ("n", "self"), "start") and x[3][0] == "n"}
            highs = {x[2][1] for x in have if x[0] == "cmp" and x[1] == "Lt" and x[3] == ("a", ("n", "self"), "end") and x[2][0] == "n"}
            for MIDR in sorted(lows & highs):
                uses = [R.cfg_node(rf, x) for x in R.calls_in(rf.node) if any(isinstance(a, ast.Name) and a.id == MIDR for a in x.args)]
                uses = [u for u in uses if u is not n]
                okA = bool(uses) and all(cr.dominates(n, u) for u in uses if not isinstance(u.ast, ast.Assert))
    ctx.check(okA, "C15.D6", R.key_of(rf, "midpoint-asserted-inside"), rf.loc(),
              "the split asserts start < mid < end before the midpoint is used",
              "RefinementObjectSingleDimension.refine uses the (weighted) midpoint without asserting start < mid < end first")
    gmp = prog.func(GW + ".get_mid_point")
    ctx.touch(gmp)
    tgp = Terms(gmp.node)
    okm = any(tgp.term(r.ast.value)[0] == "call" and tgp.term(r.ast.value)[1][2] == "get_middle_weighted" and
              tgp.term(r.ast.value)[2][0] == ("n", gmp.params[1]) and tgp.term(r.ast.value)[2][1] == ("n", gmp.params[2]) and
              tgp.term(r.ast.value)[2][2] == ("a", ("s", ("a", ("n", "self"), "distributions"), ("n", gmp.params[3])), "cdf") and
              tgp.term(r.ast.value)[2][3] == ("a", ("s", ("a", ("n", "self"), "distributions"), ("n", gmp.params[3])), "ppf")
              for r in R.return_paths(gmp)[0])
    ctx.check(okm, "C15.D6", R.key_of(gmp, "uses-own-distribution"), gmp.loc(),
              "the midpoint of dimension d uses cdf and ppf of the distribution of dimension d",
              "get_mid_point does not use cdf and ppf of the same distribution self.distributions[d]")


def check_moment_caches(prog, ctx):
    from ..absint import poly_of_term, Poly
    UD = "GridOperation.UQDistribution"
    slots = {}
    for name in ("get_zeroth_moment", "get_first_moment"):
        fi = prog.func(UD + "." + name)
        ctx.touch(fi)
        tm = Terms(fi.node)
        tm0 = Terms(fi.node, max_depth=0)
        x1, x2 = fi.params[1], fi.params[2]
        key = ("tuple", ("n", x1), ("n", x2))
        problems = []
        # role of the cache: the local bound to one slot of self.cached_moments
        cnames = [nm for nm, bs in tm0.env.bindings.items() for b in bs if b.kind == "assign" and b.value is not None
                  and tm0.term(b.value)[0] == "s" and tm0.term(b.value)[1] == ("a", ("n", "self"), "cached_moments")]
        CN = cnames[0] if len(set(cnames)) == 1 else None
        cdefs = [b for b in tm0.env.bindings.get(CN, []) if b.kind == "assign"]
        slot = tm0.term(cdefs[0].value) if len(cdefs) == 1 else None
        if slot is None and CN is None:
            # the slot used directly, without a local:  self.cached_moments[K][key]
            direct = {tm0.term(n) for n in ast.walk(fi.node) if isinstance(n, ast.Subscript) and isinstance(n.value, ast.Attribute)
                      and R.self_attr(n.value, "self") == "cached_moments"}
            if len(direct) == 1:
                slot = direct.pop()

        def is_cache(e):
            return (isinstance(e, ast.Name) and e.id == CN) if CN is not None else (slot is not None and tm0.term(e) == slot)
        if not (slot and slot[0] == "s" and slot[1] == ("a", ("n", "self"), "cached_moments") and slot[2][0] == "c"):
            problems.append("the cache is not one fixed slot of self.cached_moments")
        else:
            slots[name] = slot[2][1]
        subs = [n for n in ast.walk(fi.node) if isinstance(n, ast.Subscript) and is_cache(n.value)]
        mem = [n for n in ast.walk(fi.node) if isinstance(n, ast.Compare) and isinstance(n.ops[0], ast.In) and is_cache(n.comparators[0])]
        keys = {repr(tm.term(n.slice)) for n in subs} | {repr(tm.term(n.left)) for n in mem}        # a key held in a local is looked through
        if keys != {repr(key)} or not mem or len(subs) < 2:
            problems.append("membership test, lookup and store do not all use the key (x1, x2)")
        stores = [st for st in walk_local(fi.node) if isinstance(st, ast.Assign) and st.targets[0] in subs]
        rets = R.return_paths(fi)[0]
        comp = None
        for st in stores:
            v = tm0.term(st.value)
            if v[0] == "n":
                b = R.reaching_unique_def(fi, v[1], st.value)
                comp = tm.term(b.value) if b is not None and b.kind == "assign" else None
                if not any(tm0.term(r.ast.value) == v for r in rets):
                    problems.append("the value stored in the cache is not the value returned")
        if comp is None:
            problems.append("no computed value is stored")
        elif name == "get_zeroth_moment":
            want = Poly.atom(("call", ("a", ("n", "self"), "cdf"), (("n", x2),), ())) - Poly.atom(("call", ("a", ("n", "self"), "cdf"), (("n", x1),), ()))
            if poly_of_term(comp) != want:
                problems.append("the zeroth moment %s is not cdf(x2) - cdf(x1)" % show(comp))
        else:
            q = [x for x in subterms(comp) if x[0] == "call" and x[1][0] == "a" and x[1][2] == "quad"]
            good = False
            nested = {d.name: d for d in ast.walk(fi.node) if isinstance(d, ast.FunctionDef) and d is not fi.node}
            for x in q:
                body = None
                if len(x[2]) >= 3 and x[2][1] == ("n", x1) and x[2][2] == ("n", x2) and x[2][0][0] == "lambda":
                    body = x[2][0][2]
                elif len(x[2]) >= 3 and x[2][1] == ("n", x1) and x[2][2] == ("n", x2) and x[2][0][0] == "n" and x[2][0][1] in nested:
                    # the integrand written as a local function with one parameter and a single return
                    d = nested[x[2][0][1]]
                    stm = [z for z in d.body if not (isinstance(z, ast.Expr) and isinstance(z.value, ast.Constant))]
                    if len(d.args.args) == 1 and len(stm) == 1 and isinstance(stm[0], ast.Return) and stm[0].value is not None:
                        def _bv(t_, pn=d.args.args[0].arg):
                            if t_ == ("n", pn):
                                return ("bv", "$0")
                            return tuple(_bv(z) for z in t_) if isinstance(t_, tuple) else t_
                        body = _bv(Terms(d, max_depth=0).term(stm[0].value))
                if body is not None:
                    good = body[0] == "op" and body[1] == "Mult" and len(body[2]) == 2 and \
                        set(body[2]) == {("bv", "$0"), ("call", ("a", ("n", "self"), "pdf"), (("bv", "$0"),), ())}
            if not good:
                problems.append("the first moment is not the integral of x * pdf(x) over (x1, x2)")
        ctx.check(not problems, "C15.D7", R.key_of(fi, "cached-moment"), fi.loc(),
                  "keyed by the whole interval, stores what it computes, computes the right moment",
                  "%s: %s" % (name, "; ".join(problems)))
    ctx.check(len(set(slots.values())) == 2, "C15.D7", UD + "::separate-caches", prog.func(UD + ".get_zeroth_moment").loc(),
              "zeroth and first moments are cached separately (slots %s)" % slots,
              "zeroth and first moment share a cache slot %s: one is returned in place of the other" % slots)


def _free_names(fn):
    """Names a nested def / lambda reads that are neither its parameters (defaults are evaluated at definition) nor assigned in it."""
    a = fn.args
    params = {x.arg for x in a.posonlyargs + a.args + a.kwonlyargs}
    if a.vararg:
        params.add(a.vararg.arg)
    if a.kwarg:
        params.add(a.kwarg.arg)
    body = fn.body if isinstance(fn.body, list) else [fn.body]
    stored, loaded = set(), set()
    for st in body:
        for n in ast.walk(st):
            if isinstance(n, ast.Name):
                (stored if isinstance(n.ctx, (ast.Store, ast.Del)) else loaded).add(n.id)
            elif isinstance(n, ast.comprehension):
                for t in ast.walk(n.target):
                    if isinstance(t, ast.Name):
                        stored.add(t.id)
    return loaded - params - stored


def check_loop_closures(prog, ctx):
    uq = prog.cls(UQ)
    n = 0
    for fi in list(uq.methods.values()) + list(prog.cls(GW).methods.values()) + list(prog.cls("GridOperation.UQDistribution").methods.values()):
        loops = [l for l in walk_local(fi.node) if isinstance(l, (ast.For, ast.While))]
        for loop in loops:
            variant = set()
            for x in ast.walk(loop):
                if isinstance(x, ast.Name) and isinstance(x.ctx, ast.Store):
                    variant.add(x.id)
            for st in ast.walk(loop):
                if st is loop or not isinstance(st, (ast.FunctionDef, ast.Lambda)):
                    continue
                # innermost enclosing loop only
                if any(st in list(ast.walk(inner)) for inner in loops if inner is not loop and inner in list(ast.walk(loop))):
                    continue
                late = sorted(_free_names(st) & variant)
                name = st.name if isinstance(st, ast.FunctionDef) else None
                # does the closure outlive the iteration?  (stored / appended / handed to a constructor or call inside a statement that
                # writes through an attribute, subscript, or a mutator call)
                escapes = False
                for holder in ast.walk(loop):
                    if not isinstance(holder, (ast.Assign, ast.AugAssign, ast.Expr, ast.Return)):
                        continue
                    inside = any((isinstance(x, ast.Name) and name is not None and x.id == name and isinstance(x.ctx, ast.Load)) or x is st
                                 for x in ast.walk(holder))
                    if not inside:
                        continue
                    if isinstance(holder, ast.Return):
                        escapes = True
                    if isinstance(holder, (ast.Assign, ast.AugAssign)):
                        tg = holder.targets if isinstance(holder, ast.Assign) else [holder.target]
                        if any(isinstance(t, (ast.Attribute, ast.Subscript)) for t in tg):
                            escapes = True
                        if any(isinstance(t, ast.Name) for t in tg) and name is not None and isinstance(holder, ast.Assign):
                            escapes = escapes or False
                    for c in ast.walk(holder):
                        if isinstance(c, ast.Call) and isinstance(c.func, ast.Attribute) and c.func.attr in ("append", "extend", "insert", "add", "update", "setdefault", "__setitem__"):
                            escapes = True
                if not escapes:
                    continue
                n += 1
                label = name or "lambda@%d" % st.lineno
                ctx.check(not late, "C15.D8", R.key_of(fi, "closure-binds-early:%s#%d" % (label, n)), fi.loc(st),
                          "closure kept beyond the loop iteration reads no loop-variant local (parameters are bound by default arguments)",
                          "`%s` is defined inside a loop, kept beyond the iteration, and reads the loop-variant local(s) %s as free variables: "
                          "closures bind late, so after the loop every dimension's function uses the values of the last iteration" % (label, late))
    ctx.note("C15.D8", "%s::closures-in-loops" % UQ, "sparseSpACE/GridOperation.py", "%d closure(s) defined in loops and kept beyond the iteration were analysed" % n)


def check_parallel_refresh(prog, ctx):
    uq = prog.cls(UQ)
    # the parallel group: attributes of self indexed by one and the same bound variable in one comprehension / loop of calculate_moment
    cm = uq.methods.get("calculate_moment")
    if cm is None:
        raise AnalysisError("anchor vanished: UncertaintyQuantification.calculate_moment")
    ctx.touch(cm)
    group = set()
    for comp in [x for x in ast.walk(cm.node) if isinstance(x, (ast.ListComp, ast.GeneratorExp, ast.For))]:
        tgt = comp.generators[0].target if not isinstance(comp, ast.For) else comp.target
        if not isinstance(tgt, ast.Name):
            continue
        attrs = set()
        for x in ast.walk(comp):
            if isinstance(x, ast.Subscript) and isinstance(x.slice, ast.Name) and x.slice.id == tgt.id:
                a = R.self_attr(x.value, cm.self_name)
                if a:
                    attrs.add(a)
        if len(attrs) >= 2:
            group |= attrs
    ctx.floor("C15.D9", len(group), 2, "attributes paired index by index in calculate_moment")
    n = 0
    for fi in uq.methods.values():
        if fi.name == "__init__":
            continue
        stores = [s for s in R.self_stores(fi) if s.attr in group]
        if not stores:
            continue
        ctx.touch(fi)
        c = cfg_of(fi)
        stored = {}
        for s in stores:
            stored.setdefault(s.attr, []).append(R.cfg_node(fi, s.stmt))
        first = min((nd for nds in stored.values() for nd in nds), key=lambda nd: nd.idx)
        n += 1
        problems = []
        for a in sorted(group):
            if a not in stored:
                problems.append("self.%s is not stored at all" % a)
                continue
            # every path from the function entry to the exit passes a store of `a`
            if not c.must_pass_through(c.entry, [c.exit], stored[a]):
                problems.append("a path through %s stores %s but leaves self.%s as it was (stale values are paired index by index with the new ones)"
                                % (fi.name, sorted(set(stored) - {a}), a))
        ctx.check(not problems, "C15.D9", R.key_of(fi, "refreshed-together"), fi.loc(first.ast),
                  "%s are all stored on every path" % sorted(group),
                  "; ".join(problems))
    ctx.floor("C15.D9.sites", n, 1, "methods storing the paired sequences")


# --------------------------------------------------------------------------------------------------------------- D11
def check_shared_distribution_key(prog, ctx):
    """_prepare_distributions builds one distribution object per dimension but re-uses the object of an earlier dimension when a key
    was seen before (`K in known` / `known[K] = d` / `self.distributions[known[K]]`).  The re-used object must not depend on anything
    the key does not determine: every loop-variant input of the objects constructed on the not-yet-known paths (a[d], b[d],
    distris[d], ...) has to be derived from a component of the key.  (Uniform and Triangle take a[d] and b[d]; a key made of the
    distribution description alone hands dimension 1 the interval of dimension 0 and its weights sum to 0.)"""
    fi = prog.func(UQ + "._prepare_distributions")
    ctx.touch(fi)
    tm = Terms(fi.node, max_depth=0)
    c = cfg_of(fi)
    loops = [l for l in walk_local(fi.node) if isinstance(l, ast.For) and isinstance(l.target, ast.Name)]
    n = 0
    for loop in loops:
        lv = loop.target.id
        # memo dictionaries: local dicts with `K in D` tests and `D[K] = ...` stores inside the loop
        stores = [(st, st.targets[0].value.id, st.targets[0].slice) for st in ast.walk(loop) if isinstance(st, ast.Assign) and len(st.targets) == 1
                  and isinstance(st.targets[0], ast.Subscript) and isinstance(st.targets[0].value, ast.Name)]
        # D.setdefault(K, d): membership test, store and lookup in one call
        for x in ast.walk(loop):
            if isinstance(x, ast.Call) and isinstance(x.func, ast.Attribute) and x.func.attr == "setdefault" and isinstance(x.func.value, ast.Name) and len(x.args) == 2:
                stores.append((R.stmt_of(x), x.func.value.id, x.args[0]))
        seen_d = set()
        for (st, dname, key_ast) in stores:
            if dname in seen_d:
                continue
            tests = [x for x in ast.walk(loop) if isinstance(x, ast.Compare) and len(x.ops) == 1 and isinstance(x.ops[0], (ast.In, ast.NotIn))
                     and isinstance(x.comparators[0], ast.Name) and x.comparators[0].id == dname]
            tests += [x for x in ast.walk(loop) if isinstance(x, ast.Call) and isinstance(x.func, ast.Attribute) and x.func.attr == "setdefault"
                      and isinstance(x.func.value, ast.Name) and x.func.value.id == dname]
            if not tests:
                continue
            seen_d.add(dname)
            sn = c.node_of(st)
            key_t = R.resolve_locals(fi, tm.term(key_ast), sn, tm, depth=4)

            def variant(t):
                return {x for x in subterms(t) if x[0] == "s" and any(y == ("n", lv) for y in subterms(x[2]))}
            key_deps = variant(key_t)
            # objects constructed where the key is not known yet: appends to an instance list in the loop that do not read the memo
            n_objs = 0
            missing = {}
            for call in [x for x in ast.walk(loop) if isinstance(x, ast.Call) and isinstance(x.func, ast.Attribute) and x.func.attr == "append"
                         and R.self_attr(x.func.value, fi.self_name) is not None and x.args]:
                cn = c.node_containing(call)
                if cn is None:
                    continue
                arg_t = R.resolve_locals(fi, tm.term(call.args[0]), cn, tm, depth=4)
                if any(x == ("n", dname) for x in subterms(arg_t)):
                    continue                                 # the re-use itself
                guards = [g for (g, gn) in R.dominating_guards(fi, cn, tm)]
                # only constructions that the memo governs (some guard mentions the memo or a flag computed from it)
                flag_names = {b.name for bs in tm.env.bindings.values() for b in bs if b.kind == "assign" and b.value is not None
                              and any(t_ is y for t_ in tests for y in ast.walk(b.value))}
                for _round in range(2):                      # flags computed from flags (d_first = D.setdefault(K, d); known = d_first != d)
                    flag_names |= {b.name for bs in tm.env.bindings.values() for b in bs if b.kind == "assign" and b.value is not None
                                   and any(isinstance(y, ast.Name) and y.id in flag_names for y in ast.walk(b.value))}
                governed = any(any(x == ("n", dname) or (x[0] == "n" and x[1] in flag_names) for x in subterms(g)) for g in guards)
                if not governed:
                    continue
                n_objs += 1
                deps = set(variant(arg_t))
                # closures handed to the object: their default values / free loop-variant names
                for nm in {x[1] for x in subterms(arg_t) if x[0] == "n"}:
                    for fdef in [d_ for d_ in ast.walk(loop) if isinstance(d_, ast.FunctionDef) and d_.name == nm]:
                        dn = c.node_of(fdef)
                        for dflt in fdef.args.defaults + [k for k in fdef.args.kw_defaults if k is not None]:
                            deps |= variant(R.resolve_locals(fi, tm.term(dflt), dn, tm, depth=4)) if dn is not None else set()
                for dterm in deps:
                    if not any(k == dterm or any(y == k for y in subterms(dterm)) for k in key_deps):
                        missing.setdefault(show(dterm), src(call)[:60])
            if n_objs == 0:
                continue
            n += 1
            ctx.check(not missing, "C15.D11", R.key_of(fi, "shared-object-key-covers-inputs:%s" % dname), fi.loc(st) if st is not None else fi.loc(),
                      "the key `%s` determines every loop-variant input of the %d object construction(s) it lets later dimensions share"
                      % (show(key_t)[:60], n_objs),
                      "the per-dimension objects are shared under the key `%s`, but %s depend(s) on %s, which the key does not determine: a later "
                      "dimension with the same key receives the object built for another %s"
                      % (show(key_t)[:60], sorted(set(missing.values()))[:2], sorted(missing)[:4], "/".join(sorted(missing)[:2])))
    ctx.floor("C15.D11", n, 1, "memoised per-dimension object constructions in _prepare_distributions")
