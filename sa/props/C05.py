"""C05 -- the reported result is the combination of the component results.

Decided structural clauses:
 D1 every accumulator (area.value, container.value, operation.integral) receives the same coefficient-weighted term
 D2 removal is paired: value/evaluations subtracted for the popped position, descending order, removed objects flow
    into process_removed_objects which subtracts their value from the operation accumulator
 D3 accumulator discipline per strategy (incremental with paired removal, or reset before every evaluation)
 D4 reset before recompute: whatever makes *all* areas "to be evaluated" again is followed by a reset of the
    operation accumulator (violated today at three constructs: known findings)
 D5 the dimension-adaptive integral cache is keyed by the level vector of the component it stores, and the driver cannot stop
    between a refinement of the index set and the recomputation of the combined value
 D6 the publicly exposed points/weights of a component grid are produced by the grid object the operation integrates with
Not decided: numerical equality with an independent recomputation, the quadrature identity."""
import ast

from ..cfg import cfg_of, walk_local
from ..loader import AnalysisError, src
from ..terms import Terms, terms_of, show, subterms, contains
from .. import rules as R
from .. import strategies as S

EXPLANATION = ("Static analysis of the accumulation discipline (GridOperation.Integration, RefinementContainer, SpatiallyAdaptivBase "
               "and its strategies, DimAdaptiveCombi): value-term equality of what is added to each accumulator, pairing and order of "
               "removals, flow of removed objects into the subtracting routine, per-strategy reset/incremental discipline by "
               "class-hierarchy resolution, and a must-pass-through rule 'all areas re-marked => operation accumulator reset'.")

INTEG = S.INTEGRATION
RC = "RefinementContainer.RefinementContainer"
BASE = S.BASE


def _sinks(fi, accs):
    """Accumulating stores: (store, target description, value term, sign)."""
    tm = Terms(fi.node)
    out = []
    for s in R.attribute_stores(fi.node):
        if s.attr not in accs or s.value is None or s.kind not in ("aug", "plain"):
            continue
        if s.kind == "aug":
            op = type(s.stmt.op).__name__
            out.append((s, "%s.%s" % (src(s.base), s.attr), tm.term(s.value), op))
        else:
            t = tm.term(s.value)
            # a copy of the weighted term (np.array(x), np.copy(x), x.copy()) is the same value
            if t[0] == "call" and not t[3] and any(x[0] == "a" and x[2] == "coefficient" for x in subterms(t)):
                if t[1][0] == "a" and t[1][2] in ("array", "asarray", "copy") and t[1][1] in (("n", "np"), ("n", "numpy")) and len(t[2]) == 1:
                    t = t[2][0]
                elif t[1][0] == "a" and t[1][2] == "copy" and not t[2]:
                    t = t[1][1]
            if t[0] == "call" and t[1][0] == "a" and t[1][2] in ("zeros", "array") and s.kind == "plain" and \
                    not any(x[0] == "a" and x[2] == "coefficient" for x in subterms(t)):
                continue     # a reset, not an accumulation
            out.append((s, "%s.%s" % (src(s.base), s.attr), t, "Assign"))
    return out


def run(prog, ctx):
    integ = prog.cls(INTEG)
    accs = S.operation_accumulators(prog)       # {'integral'}
    all_accs = set(accs) | {"value"}

    # ------------------------------------------------------------------ D1
    n1 = 0
    for m, coeff_src in (("evaluate_area", "param"), ("compute_subcell_with_interpolation", "param"),
                         ("calculate_operation_dimension_wise", "param"), ("evaluate_levelvec", "param")):
        fi = prog.func(INTEG + "." + m)
        ctx.touch(fi)
        sinks = _sinks(fi, all_accs)
        if not sinks:
            raise AnalysisError("C05.D1: no accumulating store found in %s" % fi.qual)
        terms = {t for (_s, _d, t, _o) in sinks}
        ops = {o for (_s, _d, _t, o) in sinks}
        n1 += len(sinks)
        same = len(terms) == 1 and ops <= {"Add", "Assign"}
        t0 = sorted(terms, key=repr)[0]
        # the term is  <component result> * <coefficient of the component passed in>
        has_coeff = False
        if t0[0] == "op" and t0[1] == "Mult":
            for x in t0[2]:
                if (x[0] == "a" and x[2] == "coefficient" and x[1][0] == "n" and x[1][1] in fi.params) or \
                        (x[0] == "n" and x[1] in fi.params and "coefficient" in x[1]):
                    has_coeff = True
        ctx.check(same and has_coeff, "C05.D1", R.key_of(fi, "same-term"), fi.loc(sinks[0][0].stmt),
                  "all %d accumulators receive the same term %s" % (len(sinks), show(t0)),
                  "the accumulators of %s do not all receive the same coefficient-weighted term: %s"
                  % (fi.name, [(d, o, show(t)) for (_s, d, t, o) in sinks]),
                  sinks=[(d, o, show(t)) for (_s, d, t, o) in sinks])
        # which accumulators must be present
        targets = {d.split(".")[-1] for (_s, d, _t, _o) in sinks}
        need = {"evaluate_area": {"value", "integral"}, "compute_subcell_with_interpolation": {"value", "integral"},
                "calculate_operation_dimension_wise": {"value", "integral"}, "evaluate_levelvec": {"integral"}}[m]
        ctx.check(need <= targets, "C05.D1", R.key_of(fi, "all-accumulators"), fi.loc(),
                  "accumulators updated: %s" % sorted(targets),
                  "%s no longer updates %s" % (fi.name, sorted(need - targets)))
    ctx.floor("C05.D1", n1, 9, "accumulating stores in Integration")
    # evaluate_area: the three kinds of accumulator (area, container, operation) and the guards
    ea = prog.func(INTEG + ".evaluate_area")
    sinks = _sinks(ea, all_accs)
    bases = {src(s.base) for (s, _d, _t, _o) in sinks}
    ctx.check(len(bases) >= 3, "C05.D1", R.key_of(ea, "three-accumulators"), ea.loc(),
              "area, container and operation accumulators are all updated (%s)" % sorted(bases),
              "evaluate_area updates only %s" % sorted(bases))
    # the operation accumulator is updated unless the caller opts out explicitly (apply_to_combi_result)
    for (s, d, t, o) in sinks:
        if s.attr in accs:
            guards = [show(g) for (g, _n) in R.dominating_guards(ea, R.cfg_node(ea, s.stmt))]
            ok = all(g in ("apply_to_combi_result",) or g.startswith("apply_to_combi_result") for g in guards) or not guards
            ctx.check(ok, "C05.D1", R.key_of(ea, "integral-guard"), ea.loc(s.stmt),
                      "the combined result is updated unless apply_to_combi_result is switched off (guards: %s)" % guards,
                      "the update of the combined result in evaluate_area is guarded by %s" % guards)
    # callers that opt out of the combined result must also opt out of the container (error-estimate evaluations)
    for fi in prog.functions.values():
        for c in R.calls_in(fi.node, method="evaluate_area"):
            kws = {k.arg: k.value for k in c.keywords}
            if "apply_to_combi_result" in kws and isinstance(kws["apply_to_combi_result"], ast.Constant) \
                    and kws["apply_to_combi_result"].value is False:
                cont = c.args[3] if len(c.args) > 3 else kws.get("refinement_container")
                ok = isinstance(cont, ast.Constant) and cont.value is None
                ctx.check(ok, "C05.D1", R.key_of(fi, "optout:%s" % src(c.args[0]) if c.args else "optout"), fi.loc(c),
                          "evaluation for error estimates updates neither the container nor the combined result",
                          "`%s` skips the combined result but still adds to the container sum" % src(c)[:120])

    # throw-away evaluations (no container given) must not touch the combined result either
    for fi in prog.functions.values():
        for c in R.calls_in(fi.node, method="evaluate_area"):
            if not (isinstance(c.func.value, ast.Attribute) and c.func.value.attr == "operation"):
                continue
            kws = {k.arg: k.value for k in c.keywords}
            cont = c.args[3] if len(c.args) > 3 else kws.get("refinement_container")
            if isinstance(cont, ast.Constant) and cont.value is None:
                flag = c.args[5] if len(c.args) > 5 else kws.get("apply_to_combi_result")
                ok = isinstance(flag, ast.Constant) and flag.value is False
                ctx.check(ok, "C05.D1", R.key_of(fi, "throwaway:%s" % (src(c.args[0]) if c.args else "?")), fi.loc(c),
                          "an evaluation without container (error estimate) does not touch the combined result",
                          "`%s` evaluates an area only for an error estimate (no container) but still adds it to the combined result; "
                          "it is never subtracted again" % src(c)[:140])

    # ------------------------------------------------------------------ D2
    ar = prog.func(RC + ".apply_remove")
    ctx.touch(ar)
    tm = Terms(ar.node, max_depth=0)
    # removal sites: `self.refinementObjects.pop(pos)` or `del self.refinementObjects[pos]`
    pops = [(c, c.args[0] if c.args else None) for c in R.calls_in(ar.node, method="pop") if R.self_attr(c.func.value, "self") == "refinementObjects"]
    for st_ in walk_local(ar.node):
        if isinstance(st_, ast.Delete):
            for tg_ in st_.targets:
                if isinstance(tg_, ast.Subscript) and R.self_attr(tg_.value, "self") == "refinementObjects":
                    pops.append((st_, tg_.slice))
    ctx.floor("C05.D2", len(pops), 1, "removals from refinementObjects in apply_remove")
    car = cfg_of(ar)
    for k, (pc, pos_ast) in enumerate(pops):
        loops = R.enclosing_loops(pc)
        pos = tm.term(pos_ast) if pos_ast is not None else None
        popn = R.cfg_node(ar, pc)
        subs = {}
        for s in R.self_stores(ar):
            if s.kind == "aug" and isinstance(s.stmt.op, ast.Sub) and s.attr in ("value", "evaluationstotal"):
                sn = R.cfg_node(ar, s.stmt)
                t = R.resolve_locals(ar, tm.term(s.value), sn, tm)          # looks through `obj = self.refinementObjects[position]`
                same_loop = loops and R.enclosing_loops(s.stmt) and R.enclosing_loops(s.stmt)[-1] is loops[-1]
                want_attr = {"value": "value", "evaluationstotal": "evaluations"}[s.attr]
                good = t == ("a", ("s", ("a", ("n", "self"), "refinementObjects"), pos), want_attr)
                # subtraction must happen before the pop shifts the positions, in the same iteration
                before = car.dominates(sn, popn) and same_loop
                subs[s.attr] = (good, before, show(t))
        for attr in ("value", "evaluationstotal"):
            g = subs.get(attr)
            ctx.check(g is not None and g[0] and g[1], "C05.D2", R.key_of(ar, "paired-subtract:%s#%d" % (attr, k)), ar.loc(pc),
                      "self.%s is reduced by the popped object's share before the pop" % attr,
                      "removing a refinement object does not subtract its %s from self.%s for the same position before the pop (%s)"
                      % ("value" if attr == "value" else "evaluations", attr, g))
        # descending order
        order_ok = False
        it = None
        if loops and isinstance(loops[-1], ast.For):
            it = Terms(ar.node, max_depth=0).term(loops[-1].iter)
            pa = ("a", ("n", "self"), "popArray")
            order_ok = it in (("call", ("n", "reversed"), (("call", ("n", "sorted"), (pa,), ()),), ()),
                              ("call", ("n", "sorted"), (pa,), (("reverse", ("c", "True")),)),
                              ("s", ("call", ("n", "sorted"), (pa,), ()), ("slice", ("c", "None"), ("c", "None"), ("c", "-1"))))
        ctx.check(order_ok, "C05.D2", R.key_of(ar, "descending-order#%d" % k), ar.loc(pc),
                  "positions are popped in descending order", "positions are not popped in descending order (iteration over %s): "
                  "earlier pops shift later positions" % (show(it) if it else None))
        # the popped object is what is returned
        withv, bare, fall = R.return_paths(ar)
        ret_ok = bool(withv) and not bare and not fall
        ctx.check(ret_ok, "C05.D2", R.key_of(ar, "returns-removed"), ar.loc(), "apply_remove returns the removed objects",
                  "apply_remove does not return the removed objects on every path")
    # flow into process_removed_objects in the base post-processing
    rp = prog.func(BASE + ".refinement_postprocessing")
    ctx.touch(rp)
    _check_removed_flow(prog, ctx, rp)
    pro = prog.func(INTEG + ".process_removed_objects")
    ctx.touch(pro)
    tmp = Terms(pro.node)
    good = False
    for s in R.self_stores(pro):
        if s.attr in accs and s.kind == "aug" and isinstance(s.stmt.op, ast.Sub):
            t = tmp.term(s.value)
            if t == ("a", ("elem", ("n", pro.params[1])), "value") and R.enclosing_loops(s.stmt):
                good = True
    why = ""
    if not good:
        # summed form:  self.integral -= sum(o.value for o in removed)  /  np.sum([o.value for o in removed], axis=0)
        for s in R.self_stores(pro):
            if not (s.attr in accs and s.kind == "aug" and isinstance(s.stmt.op, ast.Sub) and isinstance(s.value, ast.Call) and s.value.args):
                continue
            call = s.value
            comp = call.args[0]
            if not (isinstance(comp, (ast.ListComp, ast.GeneratorExp)) and len(comp.generators) == 1 and not comp.generators[0].ifs
                    and isinstance(comp.generators[0].iter, ast.Name) and comp.generators[0].iter.id == pro.params[1]
                    and isinstance(comp.generators[0].target, ast.Name) and isinstance(comp.elt, ast.Attribute) and comp.elt.attr == "value"
                    and isinstance(comp.elt.value, ast.Name) and comp.elt.value.id == comp.generators[0].target.id):
                continue
            if isinstance(call.func, ast.Name) and call.func.id == "sum" and len(call.args) == 1:
                good = True                       # the builtin adds the values one by one (element-wise for arrays)
            elif isinstance(call.func, ast.Attribute) and call.func.attr == "sum" and R.attr_chain(call.func.value) in (["np"], ["numpy"]):
                axis = call.args[1] if len(call.args) > 1 else next((k.value for k in call.keywords if k.arg == "axis"), None)
                if isinstance(axis, ast.Constant) and axis.value == 0:
                    good = True
                else:
                    why = (": `%s` adds up all entries of all values (no axis=0), so for a vector-valued integrand every component loses the "
                           "sum over all components" % src(call))
    ctx.check(good, "C05.D2", R.key_of(pro, "subtracts-value"), pro.loc(),
              "every removed object's value is subtracted from the operation accumulator",
              "process_removed_objects does not subtract each removed object's `value` from self.%s%s" % (sorted(accs)[0], why))

    # ------------------------------------------------------------------ D3 / D4
    strats = S.strategies(prog)
    disc = {}
    for st in strats:
        kind, why = S.discipline(prog, st)
        disc[st.qual] = kind
        post = prog.lookup_method(st, "refinement_postprocessing")
        ctx.touch(post)
        if kind == "reset":
            # every operation class offering the dimension-wise evaluation resets what it augments
            n_ops = 0
            for opc in prog.all_subclasses(prog.cls("GridOperation.GridOperation")):
                ini = opc.methods.get("initialize_evaluation_dimension_wise")
                calc = prog.lookup_method(opc, "calculate_operation_dimension_wise")
                if ini is None or calc is None or R.is_stub_body(ini.node) or R.is_stub_body(calc.node):
                    continue
                n_ops += 1
                ctx.touch(ini, calc)
                aug_self = {s.attr for s in R.self_stores(calc) if s.kind == "aug" and s.attr in accs}
                aug_cont = any(s.attr == "value" and s.kind == "aug" and "refinement_container" in src(s.base)
                               for s in R.attribute_stores(calc.node))
                selfs, params = S.plain_reset_attrs(ini)
                ok_self = aug_self <= selfs
                ok_cont = (not aug_cont) or any("value" in a for a in params.values())
                ctx.check(ok_self and ok_cont, "C05.D3", "%s::reset:%s" % (st.qual, opc.qual), ini.loc(),
                          "%s re-assigns %s and the container sum before every evaluation" % (ini.qual, sorted(aug_self)),
                          "%s augments %s%s on every evaluation of all component grids but %s does not re-assign %s: the result grows "
                          "with every refinement step" % (calc.qual, sorted(aug_self), " and refinement_container.value" if aug_cont else "",
                                                          ini.qual, sorted((aug_self - selfs) | ({"refinement_container.value"} if not ok_cont else set()))))
            ctx.floor("C05.D3.ops", n_ops, 3, "operation classes with a dimension-wise evaluation")
            # a reset strategy must make all areas new again each step (otherwise nothing is re-evaluated)
            calls = [c for c in R.calls_in(post.node, method="reinit_new_objects")]
            ctx.check(bool(calls), "C05.D3", "%s::reset:reinit-each-step" % st.qual, post.loc(),
                      "%s: %s; every step re-marks all areas" % (kind, why),
                      "%s resets the accumulators before every evaluation but its refinement_postprocessing does not re-mark all "
                      "areas as new: old areas would be missing from the result" % st.qual)
        else:
            uses_remove = bool(R.calls_in(post.node, method="apply_remove"))
            if uses_remove:
                _check_removed_flow(prog, ctx, post, rule="C05.D3", key="%s::incremental:removed-subtracted" % st.qual)
            else:
                ctx.ok("C05.D3", "%s::incremental:no-removal" % st.qual, post.loc(),
                       "%s: %s; areas are never removed (surplus formulation)" % (kind, why))
    ctx.floor("C05.D3", len(strats), 3, "concrete strategies")

    # D4: all areas re-marked / re-evaluated  =>  operation accumulator reset (for incremental strategies)
    resets = S.reset_methods(prog)
    incremental = [s for s in strats if disc[s.qual] == "incremental"]
    base = prog.cls(BASE)
    checked = set()
    n4 = 0
    for st in [base] + strats:
        for name, fi in sorted(st.methods.items()):
            # (a) calls that re-mark all areas as new on the strategy's own container
            triggers = []
            for c in R.calls_in(fi.node, method="reinit_new_objects"):
                if R.attr_chain(c.func.value) == [fi.self_name, "refinement"]:
                    triggers.append(("reinit_new_objects", c))
            # (b) evaluation of *all* areas
            for c in R.calls_in(fi.node, method="compute_solutions"):
                if c.args and isinstance(c.args[0], ast.Name):
                    tm_ = Terms(fi.node)
                    t = tm_.term(c.args[0])
                    if t[0] == "call" and t[1] == ("a", ("n", fi.self_name), "get_areas"):
                        triggers.append(("compute_solutions(get_areas())", c))
            if not triggers:
                continue
            users_inc = [s2 for s2 in incremental if prog.lookup_method(s2, name) is fi]
            users_all = [s2 for s2 in strats if prog.lookup_method(s2, name) is fi]
            if not users_all:
                continue
            ctx.touch(fi)
            cf = cfg_of(fi)
            reset_nodes = []
            for c in [n for n in walk_local(fi.node) if isinstance(n, ast.Call)]:
                if isinstance(c.func, ast.Attribute) and c.func.attr in resets and R.attr_chain(c.func.value) == [fi.self_name, "operation"]:
                    reset_nodes.append(R.cfg_node(fi, c))
            for (what, c) in triggers:
                # re-marking areas only hurts incremental strategies (reset strategies re-assign the accumulators at the next
                # evaluation); evaluating all areas directly (no init_evaluation_operation) hurts every strategy
                users = users_inc if what == "reinit_new_objects" else users_all
                if not users:
                    continue
                n4 += 1
                tn = R.cfg_node(fi, c)
                # accepted: a reset dominates the trigger, or every path from the trigger to the exit passes one
                ok = any(cf.dominates(rn, tn) and rn is not tn for rn in reset_nodes) or \
                    (bool(reset_nodes) and cf.must_pass_through(tn, [cf.exit], reset_nodes))
                key = R.key_of(fi, "reset-before-recompute:%s" % what)
                if key in checked:
                    key += "#2"
                checked.add(key)
                ctx.check(ok, "C05.D4", key, fi.loc(c),
                          "the operation accumulator is reset when all areas are (re-)evaluated",
                          "`%s` makes all areas contribute again but no reset of the operation accumulator (%s) is on the path; the "
                          "strategies %s add every area a second time" % (src(c), "/".join(sorted(resets)),
                                                                          [u.name for u in users]))
    ctx.floor("C05.D4", n4, 3, "constructs that re-mark / re-evaluate all areas")

    # ------------------------------------------------------------------ D5
    pc = prog.func("DimAdaptiveCombi.DimAdaptiveCombi.perform_combi")
    ctx.touch(pc)
    tm = Terms(pc.node)
    # role of the cache of component integrals: a local created as an empty dict in perform_combi and filled by subscript stores
    fresh_dicts = {st.targets[0].id for st in walk_local(pc.node) if isinstance(st, ast.Assign) and len(st.targets) == 1
                   and isinstance(st.targets[0], ast.Name) and ((isinstance(st.value, ast.Dict) and not st.value.keys)
                   or (isinstance(st.value, ast.Call) and isinstance(st.value.func, ast.Name) and st.value.func.id == "dict" and not st.value.args))}
    stores = []
    for st in walk_local(pc.node):
        if isinstance(st, ast.Assign) and isinstance(st.targets[0], ast.Subscript) and isinstance(st.targets[0].value, ast.Name) \
                and st.targets[0].value.id in fresh_dicts:
            stores.append(st)
    from .C02 import _accumulator_names
    accs = _accumulator_names(pc)
    accname = accs[0] if accs else None
    ctx.floor("C05.D5", len(stores), 1, "stores into the local cache of component integrals")
    for st in stores:
        k = tm.term(st.targets[0].slice)
        v = tm.term(st.value)
        if isinstance(st.value, ast.Name):
            b = R.reaching_unique_def(pc, st.value.id, st.value)
            if b is not None and b.kind == "assign":
                v = tm.term(b.value)
        ok = k[0] == "copy" and k[1] == "tuple" and k[2][0] == "a" and k[2][2] == "levelvector"
        comp = k[2][1] if ok else None
        ok = ok and v[0] == "call" and v[1][0] == "a" and v[1][2] == "integrate" and ("a", comp, "levelvector") in v[2]
        ctx.check(ok, "C05.D5", R.key_of(pc, "cache-key"), pc.loc(st),
                  "integral_dict[tuple(cg.levelvector)] holds the integral computed for that same cg.levelvector",
                  "`%s`: the cached integral is not the one computed for the level vector it is keyed by" % src(st)[:140])
        # remaining inputs of the cached computation are not re-bound inside the loop
        if ok:
            loop = R.enclosing_loops(st)[0]
            vexpr = st.value
            if isinstance(vexpr, ast.Name):
                b = R.reaching_unique_def(pc, vexpr.id, vexpr)
                vexpr = b.value if b is not None and b.kind == "assign" else vexpr
            inputs = {n.id for a in vexpr.args for n in ast.walk(a) if isinstance(n, ast.Name)} if isinstance(vexpr, ast.Call) else set()
            env = tm.env
            rebound = []
            for nm in inputs:
                for b in env.bindings.get(nm, []):
                    if b.kind in ("assign", "aug") and any(l is loop for l in R.enclosing_loops(b.stmt)):
                        if nm not in (k[2][1][1] if comp and comp[0] == "n" else ""):
                            rebound.append(nm)
            for s in R.attribute_stores(pc.node):
                if s.attr in ("f", "grid") and any(l is loop for l in R.enclosing_loops(s.stmt)):
                    rebound.append("." + s.attr)
            ctx.check(not rebound, "C05.D5", R.key_of(pc, "cache-inputs"), pc.loc(st),
                      "the other inputs of the cached integral are not re-bound inside the refinement loop",
                      "inputs %s of the cached integral are re-bound inside the loop but are not part of the cache key" % rebound)
    # the reported value belongs to the returned scheme: after a refinement of the index set no path leaves the driver without
    # re-starting the accumulation (the in-loop reset of the accumulator dominates the accumulation loop)
    cpc = cfg_of(pc)
    upds = [R.cfg_node(pc, x) for x in R.calls_in(pc.node, method="update_adaptive_combi")]
    resets_in_loop = []
    for st in walk_local(pc.node):
        if isinstance(st, ast.Assign) and isinstance(st.targets[0], ast.Name) and st.targets[0].id == accname \
                and isinstance(st.value, ast.Constant) and st.value.value == 0 and R.enclosing_loops(st):
            resets_in_loop.append(cpc.node_of(st))
    ctx.floor("C05.D5.driver", len(upds), 1, "index-set refinements in perform_combi")
    okd = bool(resets_in_loop) and all(cpc.must_pass_through(u, [cpc.exit], resets_in_loop) for u in upds)
    ctx.check(okd, "C05.D5", R.key_of(pc, "result-of-returned-scheme"), pc.loc(),
              "after every refinement of the index set the combination is recomputed before the driver can stop",
              "perform_combi can stop after update_adaptive_combi without recomputing combiintegral: the reported value belongs to the "
              "scheme before the last refinement, the returned scheme is the refined one")
    # the accumulation uses the looked-up / computed integral of the same component
    acc_ok = False
    for st in walk_local(pc.node):
        if isinstance(st, ast.AugAssign) and isinstance(st.target, ast.Name) and st.target.id == accname:
            t = Terms(pc.node, max_depth=0).term(st.value)
            # (the looked-up / freshly computed integral of this component) * (its coefficient)
            facs = [x for x in t[2] if x[0] == "n"] if t[0] == "op" and t[1] == "Mult" else []
            from_cache = any(any(isinstance(b.value, ast.Subscript) and isinstance(b.value.value, ast.Name) and b.value.value.id in fresh_dicts
                                 for b in Terms(pc.node).env.bindings.get(f[1], []) if b.kind == "assign" and b.value is not None) for f in facs)
            if facs and from_cache and any(x[0] == "a" and x[2] == "coefficient" for x in t[2]):
                acc_ok = True
    ctx.check(acc_ok, "C05.D5", R.key_of(pc, "weighted-sum"), pc.loc(),
              "combiintegral accumulates integral * coefficient", "combiintegral no longer accumulates integral * component coefficient")

    # ------------------------------------------------------------------ D6
    check_public_quadrature(prog, ctx)
    # ------------------------------------------------------------------ D4 (shared with C14.D7): per-area results restart on every evaluation
    from .C14 import check_area_value_reset
    check_area_value_reset(prog, ctx, "C05.D4")
    # ------------------------------------------------------------------ D7, D8
    check_no_accumulator_alias(prog, ctx)
    check_no_stop_after_refine(prog, ctx)
    check_scheme_follows_lmax(prog, ctx)


def check_public_quadrature(prog, ctx):
    """D6: every get_points_and_weights_component_grid of the StandardCombi hierarchy builds the component grid on self.grid
    (the grid object the operation integrates with) from its own level-vector argument."""
    sc = prog.cls("StandardCombi.StandardCombi")
    n = 0
    claimed = ("StandardCombi.StandardCombi", "spatiallyAdaptiveSingleDimension2.SpatiallyAdaptiveSingleDimensions2")
    for fi in prog.overrides(sc, "get_points_and_weights_component_grid"):
        if fi.cls.qual not in claimed:
            continue        # the statement claims this clause for the standard and the dimension-wise strategy only
        ctx.touch(fi)
        n += 1
        tm = Terms(fi.node)
        lv = fi.params[1]
        problems = []
        grid = ("a", ("n", fi.self_name), "grid")
        gets = R.calls_in(fi.node, method="get_points_and_weights")
        sets = [x for x in R.calls_in(fi.node) if isinstance(x.func, ast.Attribute) and x.func.attr in ("set_grid", "setCurrentArea")]
        if not gets or not sets:
            problems.append("no grid set-up / get_points_and_weights call")
        for x in gets + sets:
            if tm.term(x.func.value) != grid:
                problems.append("`%s` works on %s instead of self.grid, the grid the operation integrates with" % (src(x)[:60], src(x.func.value)))
        for x in sets:
            if not any(any(sub == ("n", lv) for sub in subterms(tm.term(a))) for a in x.args):
                problems.append("the grid is not set up from the requested level vector `%s`" % lv)
        for r in R.return_paths(fi)[0]:
            t = tm.term(r.ast.value)
            g = [tm.term(x) for x in gets]
            if not (t in g or (t[0] == "tuple" and len(t) == 3 and g and t[1] == ("unpack", g[0], (0,)) and t[2] == ("unpack", g[0], (1,)))):
                problems.append("the returned pair is not the grid's (points, weights)")
        ctx.check(not problems, "C05.D6", R.key_of(fi, "public-rule-on-operation-grid"), fi.loc(),
                  "points and weights of a component grid come from self.grid set up for the requested level vector",
                  "combined quadrature rule: " + "; ".join(problems))
    ctx.floor("C05.D6", n, 2, "get_points_and_weights_component_grid implementations")
    # and the operation integrates on that same grid object: the strategy hands self.grid to the operation
    sd = prog.func("spatiallyAdaptiveSingleDimension2.SpatiallyAdaptiveSingleDimensions2.initialize_refinement")
    ctx.touch(sd)
    tm = Terms(sd.node)
    ok = False
    for x in R.calls_in(sd.node, method="init_dimension_wise"):
        if x.args and tm.term(x.args[0]) == ("a", ("n", sd.self_name), "grid"):
            ok = True
    ctx.check(ok, "C05.D6", R.key_of(sd, "operation-gets-strategy-grid"), sd.loc(),
              "the operation integrates on the strategy's self.grid",
              "initialize_refinement no longer hands self.grid to operation.init_dimension_wise as the integration grid")


def _check_removed_flow(prog, ctx, fi, rule="C05.D2", key=None):
    tm = Terms(fi.node)
    calls = R.calls_in(fi.node, method="process_removed_objects")
    ok = False
    for c in calls:
        if c.args:
            t = tm.term(c.args[0])
            if t[0] == "call" and t[1][0] == "a" and t[1][2] == "apply_remove":
                ok = True
    ctx.check(ok, rule, key or R.key_of(fi, "removed-flow"), fi.loc(),
              "the objects returned by apply_remove are handed to operation.process_removed_objects",
              "%s removes refinement objects but does not hand the removed objects to operation.process_removed_objects: their "
              "contribution stays in the combined result" % fi.qual)


ACCUMULATOR_ATTRS = {"value", "integral"}


def check_no_accumulator_alias(prog, ctx):
    """D7: a partial result (an area's / container's `value`, the operation's `integral`) is never bound to another name or attribute
    WITHOUT a copy and then updated in place: `x = area.value; x -= ...` rewrites the area's contribution, which is later subtracted
    from / added to the combined result."""
    n = 0
    for fi in prog.functions.values():
        if fi.module.name not in ("GridOperation", "spatiallyAdaptiveBase", "spatiallyAdaptiveExtendSplit", "spatiallyAdaptiveSingleDimension2",
                                  "spatiallyAdaptiveCell", "RefinementContainer", "RefinementObject", "StandardCombi", "DimAdaptiveCombi"):
            continue
        if not any(a in fi.module.source for a in (".value", ".integral")):
            continue
        aliases = []          # (target ast, statement)
        for st in walk_local(fi.node):
            if isinstance(st, ast.Assign) and len(st.targets) == 1 and isinstance(st.value, ast.Attribute) and st.value.attr in ACCUMULATOR_ATTRS \
                    and isinstance(st.targets[0], (ast.Name, ast.Attribute)):
                tg = st.targets[0]
                if isinstance(tg, ast.Attribute) and tg.attr in ACCUMULATOR_ATTRS:
                    continue                                          # handing a result over to another accumulator is judged elsewhere
                aliases.append((tg, st))
        if not aliases:
            continue
        c = cfg_of(fi)
        for (tg, st) in aliases:
            n += 1
            ctx.touch(fi)
            tdump = ast.dump(tg).replace("Store()", "Load()")
            bad = None
            sn = c.node_of(st)
            for n2 in c.nodes:
                if n2.kind == "stmt" and isinstance(n2.ast, ast.AugAssign) and ast.dump(n2.ast.target).replace("Store()", "Load()") == tdump \
                        and sn is not None and n2.idx in c.reachable_after(sn):
                    bad = n2
            ctx.check(bad is None, "C05.D7", R.key_of(fi, "alias:%s" % src(tg)), fi.loc(st),
                      "`%s` is bound to a partial result without a copy but is never updated in place" % src(tg),
                      "`%s` binds `%s` to the partial result itself (no copy) and `%s` (line %d) then updates it in place: the area's / operation's "
                      "accumulated value is overwritten" % (src(st), src(tg), src(bad.ast) if bad is not None else "", bad.ast.lineno if bad is not None else 0))
    ctx.note("C05.D7", "package::accumulator-aliases", "sparseSpACE/*", "%d un-copied bindings of partial results analysed" % n)


def check_no_stop_after_refine(prog, ctx):
    """D8: the value reported at a stop belongs to the refinement the driver stopped in: after `self.refine(...)` every path to the end of
    continue_adaptive_refinement passes the next evaluation (no stop test between a refinement and its evaluation)."""
    car = prog.func(BASE + ".continue_adaptive_refinement")
    ctx.touch(car)
    c = cfg_of(car)
    def events(name):
        """calls self.<name>(...) and calls that receive the bound method self.<name> as an argument (timing wrappers)"""
        out = []
        for call in [n_ for n_ in walk_local(car.node) if isinstance(n_, ast.Call)]:
            hit = isinstance(call.func, ast.Attribute) and call.func.attr == name and R.attr_chain(call.func.value) == [car.self_name]
            for a_ in call.args:
                if isinstance(a_, ast.Attribute) and a_.attr == name and R.attr_chain(a_.value) == [car.self_name]:
                    hit = True
            if hit:
                out.append(R.cfg_node(car, call))
        return out
    refs = events("refine")
    evals = events("evaluate_operation")
    ctx.floor("C05.D8", len(refs), 1, "refine calls in the adaptive driver")
    for k, rn in enumerate(refs):
        ok = bool(evals) and c.must_pass_through(rn, [c.exit], evals)
        wit = None if ok else c.path_avoiding(rn, [c.exit], evals)
        line = next((getattr(w.ast, "lineno", None) for w in (wit or []) if getattr(w, "ast", None) is not None and isinstance(w.ast, ast.Break)), None)
        ctx.check(ok, "C05.D8", R.key_of(car, "evaluated-after-refine#%d" % k), car.loc(rn.ast),
                  "after a refinement the driver cannot stop before the refined structure has been evaluated",
                  "continue_adaptive_refinement can leave the loop after self.refine(...) without evaluating the refined structure (break at line %s): "
                  "the reported value belongs to the previous refinement, scheme and points to the new one" % line)


def check_scheme_follows_lmax(prog, ctx):
    """D9: the scheme is computed from the maximum level it is stored next to.  In every method of a strategy class that both stores
    self.lmax and stores self.scheme = ...getCombiScheme(... self.lmax ...), no path leads from a store of self.lmax to the end of the
    method without a scheme computation after it (the scheme would describe the previous maximum level)."""
    n = 0
    for fi in sorted(prog.functions.values(), key=lambda f: f.qual):
        if fi.cls is None or fi.self_name is None:
            continue
        lst = [s_ for s_ in R.self_stores(fi) if s_.attr == "lmax"]
        sch = [s_ for s_ in R.self_stores(fi) if s_.attr == "scheme" and s_.kind == "plain" and s_.value is not None
               and any(isinstance(x, ast.Call) and isinstance(x.func, ast.Attribute) and x.func.attr == "getCombiScheme"
                       and any(isinstance(y, ast.Attribute) and y.attr == "lmax" and R.attr_chain(y.value) == [fi.self_name]
                               for a_ in list(x.args) + [k.value for k in x.keywords] for y in ast.walk(a_))
                       for x in ast.walk(s_.value))]
        if not lst or not sch:
            continue
        ctx.touch(fi)
        c = cfg_of(fi)
        sn = [c.node_of(s_.stmt) for s_ in sch]
        for k, l_ in enumerate(lst):
            ln = c.node_of(l_.stmt)
            if ln is None or any(x is None for x in sn):
                raise AnalysisError("C05.D9: statement of %s not in the flow graph" % fi.qual)
            n += 1
            ok = c.must_pass_through(ln, [c.exit], sn)
            ctx.check(ok, "C05.D9", R.key_of(fi, "scheme-after-lmax#%d" % k), fi.loc(l_.stmt),
                      "after self.lmax changes the scheme is computed again before the method ends",
                      "`%s` changes self.lmax, and the method can end without computing self.scheme from it afterwards: the scheme "
                      "(and every component grid taken from it) describes the previous maximum level" % src(l_.stmt))
    ctx.floor("C05.D9", n, 3, "stores of self.lmax in methods that compute the scheme from it")
