"""C01 -- the adaptive combination scheme is always a valid inclusion-exclusion scheme.

Decided structural premises of the inductive argument (DESIGN.md section 3, C01):
 D1  ownership: the index sets / lmin / lmax_adaptive / initialized_adaptive of a CombiScheme instance are written only by
     CombiScheme methods; the internal set handed out by the getter is never mutated by a caller
 D1b typestate: lmin is read only in the initialised state, and the state flag is set only together with lmin
 D2  a refined index moves from the active to the old set (remove paired with add of the same tuple) only behind the
     "is active" guard
 D3  a forward neighbour is activated only after *all* its backward neighbours were found in the OLD set (or lie below lmin)
 D4  the stencil contribution is +1 for an even and -1 for an odd stencil sum (parity domain)
 D5  the stencil is {0} iff level <= lmin else {0,-1}, per dimension, combined by the cross product
 D6  returned grids pair each level vector with its own coefficient and drop only zero coefficients
 D7  enumeration budget: every call of getGrids passes a budget >= 1 over the enclosing loop ranges (given lmax >= lmin)
 D8  simplex enumeration: getGrids(d, n) returns vectors with entries >= 1 and entry sum n + d - 1 (base case and the inductive
     step are polynomial identities); both initialisers and the closed form shift every entry by lmin - 1 and use the budget
     lmax - lmin + 1 - q; the closed-form coefficient is (-1)^q * binom(dim - 1, q)
Not decided: coefficient sums, closed-form == adaptive initialisation (arithmetic over the whole index set)."""
import ast

from ..absint import parity_eval, pconst, EVEN, ODD
from ..cfg import cfg_of, walk_local
from ..loader import AnalysisError, src
from ..terms import Terms, terms_of, show, subterms, negate
from .. import rules as R

EXPLANATION = ("Static analysis of combiScheme.CombiScheme and of every user of its state in the package: who-may-write / "
               "no-escape-mutation over all modules, dominance and post-dominance on the CFG of update_adaptive_combi and "
               "__refine_scheme, value-term identity of moved tuples, a parity abstract interpretation of the stencil sign "
               "expression, and constant-set checks of the truncated stencil.")

CS = "combiScheme.CombiScheme"
STATE = {"active_index_set", "old_index_set", "lmin", "lmax_adaptive", "initialized_adaptive"}
INITIALISERS = {"__init__", "init_adaptive_combi_scheme", "init_full_grid"}


# the methods that change the scheme on the tree the rules were written against (read one by one): the two initialisers, the
# refinement step and its private helper.  Every other method is an observer: reading the scheme must not change it.
WRITERS = {"__init__", "init_adaptive_combi_scheme", "init_full_grid", "update_adaptive_combi", "__refine_scheme", "_CombiScheme__refine_scheme"}
SETS = {"active_index_set", "old_index_set"}


def check_observers_do_not_modify(prog, ctx, cs, related):
    """C01.D9: only the initialisers and the refinement step change the index sets; every other method of CombiScheme (getCombiScheme,
    the coefficient computation, the predicates and getters) leaves them as they are -- no store, no in-place update (`|=`, `.add`,
    `.update`, ...), neither on `self.<set>` nor through a local bound to it.  Otherwise *observing* the scheme between two refinement
    steps changes what the next step sees (old and active set overlap, active indices with forward neighbours)."""
    n = 0
    for c in prog.classes.values():
        if c.qual not in related:
            continue
        for name, fi in sorted(c.methods.items()):
            if name in WRITERS:
                continue
            n += 1
            ctx.touch(fi)
            direct = [s for s in R.self_stores(fi) if s.attr in STATE]
            alias = R.attribute_alias_mutations(fi, SETS)
            ok = not direct and not alias
            where = fi.loc(direct[0].stmt) if direct else (fi.loc(alias[0][1]) if alias else fi.loc())
            why = ("`%s` writes self.%s" % (src(direct[0].stmt)[:80], direct[0].attr)) if direct else (alias[0][2] if alias else "")
            ctx.check(ok, "C01.D9", R.key_of(fi, "observer-does-not-modify"), where,
                      "%s does not change the index sets / lmin" % name,
                      "%s is an observer of the scheme but %s: reading the scheme changes the state the next refinement step starts from" % (name, why))
    ctx.floor("C01.D9", n, 8, "observer methods of CombiScheme")


def run(prog, ctx):
    cs = prog.cls(CS)
    related = {c.qual for c in prog.all_subclasses(cs)}

    # ------------------------------------------------------------------ D1 ownership
    n_own = 0
    bad = 0
    for fi in prog.functions.values():
        for s in R.attribute_stores(fi.node):
            if s.attr not in STATE:
                continue
            is_self = isinstance(s.base, ast.Name) and s.base.id == fi.self_name
            if is_self and fi.cls is not None and fi.cls.qual in related:
                n_own += 1
                continue                      # CombiScheme's own methods
            if is_self:
                continue                      # another class's own attribute of the same name (e.g. SpatiallyAdaptivBase.lmin)
            # receiver is something else: is it (possibly) a CombiScheme?
            recv = src(s.base)
            rc = prog.resolve_class_expr(fi.module.name, s.base, fi.cls) if isinstance(s.base, (ast.Name, ast.Attribute)) else None
            if rc is not None and rc.qual not in related:
                continue
            chain = R.attr_chain(s.base) or []
            looks_scheme = rc is not None or any("scheme" in p.lower() for p in chain)
            if not looks_scheme and s.attr in ("lmin",):
                continue
            bad += 1
            ctx.violation("C01.D1", R.key_of(fi, "outside-store:%s.%s" % (recv, s.attr)), fi.loc(s.stmt),
                          "`%s` writes CombiScheme state from outside the class" % src(s.stmt))
    ctx.floor("C01.D1", n_own, 8, "stores of CombiScheme state inside CombiScheme")
    if not bad:
        ctx.ok("C01.D1", "package::no-outside-writer", "sparseSpACE/*", "index sets, lmin, lmax_adaptive, initialized_adaptive are written only by CombiScheme methods")
    check_initialisation(prog, ctx, cs, "C01.D1")
    check_observers_do_not_modify(prog, ctx, cs, related)
    # getter escape: get_active_indices returns the internal set
    getter_users = 0
    for fi in prog.functions.values():
        if fi.cls is not None and fi.cls.qual in related:
            continue
        for c in R.calls_in(fi.node, method="get_active_indices"):
            getter_users += 1
            ctx.touch(fi)
            par = getattr(c, "_parent", None)
            ok = True
            why = "iterated / copied / tested only"
            if isinstance(par, ast.Assign) and len(par.targets) == 1 and isinstance(par.targets[0], ast.Name):
                nm = par.targets[0].id
                env = terms_of(fi).env
                if nm in env.mutated:
                    ok = False
                    why = "the local `%s` holding the internal set is mutated" % nm
                for n in walk_local(fi.node):
                    if isinstance(n, ast.AugAssign) and isinstance(n.target, ast.Name) and n.target.id == nm:
                        ok = False
                        why = "the local `%s` holding the internal set is updated in place (%s)" % (nm, src(n))
            elif isinstance(par, ast.Attribute) and par.attr in ("add", "remove", "discard", "update", "clear", "pop",
                                                                  "difference_update", "intersection_update", "symmetric_difference_update"):
                ok = False
                why = "mutator `.%s` called on the internal set" % par.attr
            ctx.check(ok, "C01.D1", R.key_of(fi, "getter-user:get_active_indices"), fi.loc(c),
                      "the internal active set handed out by the getter is " + why,
                      "a caller of get_active_indices mutates CombiScheme's internal set: " + why)
    ctx.floor("C01.D1.getter", getter_users, 1, "external users of get_active_indices")
    gi = prog.func(CS + ".get_index_set")
    tmg = terms_of(gi)
    rets = R.return_paths(gi)[0]
    fresh = all(tmg.term(r.ast.value)[0] in ("op", "call") for r in rets) and bool(rets)
    ctx.check(fresh, "C01.D1", R.key_of(gi, "returns-fresh-set"), gi.loc(), "get_index_set returns a fresh union",
              "get_index_set hands out an internal set object")

    # ------------------------------------------------------------------ D1b typestate of lmin
    flag_true = []
    for name, fi in cs.methods.items():
        for s in R.self_stores(fi, "initialized_adaptive"):
            if isinstance(s.value, ast.Constant) and s.value.value is True:
                flag_true.append((fi, s))
    for (fi, s) in flag_true:
        has_lmin = bool(R.self_stores(fi, "lmin"))
        ctx.check(has_lmin, "C01.D1b", R.key_of(fi, "flag-with-lmin"), fi.loc(s.stmt),
                  "initialized_adaptive = True is set together with self.lmin",
                  "%s sets initialized_adaptive = True without storing self.lmin" % fi.qual)
    ctx.floor("C01.D1b", len(flag_true), 2, "initialisers setting initialized_adaptive")
    for name, fi in sorted(cs.methods.items()):
        if name in INITIALISERS:
            continue
        reads = R.attr_reads(fi.node, fi.self_name).get("lmin", [])
        for k, rd in enumerate(reads):
            ctx.touch(fi)
            node = R.cfg_node(fi, rd)
            guards = [g for (g, _n) in R.dominating_guards(fi, node)]
            flag = ("a", ("n", fi.self_name), "initialized_adaptive")
            ok = flag in guards
            if not ok and fi.is_static is False:
                # private helper reached only from methods that assert the state
                ok = _reached_in_state(cs, name, set())
            ctx.check(ok, "C01.D1b", R.key_of(fi, "lmin-read#%d" % k), fi.loc(rd),
                      "self.lmin is read only in the initialised-adaptive state",
                      "self.lmin is read in %s without a dominating `assert self.initialized_adaptive` (the class-level default could be observed)" % fi.name)

    # ------------------------------------------------------------------ D2 move pairing
    upd = prog.func(CS + ".update_adaptive_combi")
    ctx.touch(upd)
    cu = cfg_of(upd)
    tmu = Terms(upd.node)
    removes = R.method_calls_on_attr(upd.node, "active_index_set", {"remove", "discard"}, upd.self_name)
    adds_old = R.method_calls_on_attr(upd.node, "old_index_set", {"add"}, upd.self_name)
    if not removes:
        ctx.violation("C01.D2", R.key_of(upd, "remove-from-active"), upd.loc(),
                      "update_adaptive_combi no longer removes the refined index from the active set: old and active sets stop being disjoint / "
                      "an active index keeps a forward neighbour")
    for k, rm in enumerate(removes):
        t = tmu.term(rm.args[0]) if rm.args else None
        rn = R.cfg_node(upd, rm)
        partner = [a for a in adds_old if a.args and tmu.term(a.args[0]) == t]
        ok = bool(partner) and any(cu.post_dominates(R.cfg_node(upd, a), rn) or cu.dominates(R.cfg_node(upd, a), rn) for a in partner)
        ctx.check(ok, "C01.D2", R.key_of(upd, "move#%d" % k), upd.loc(rm),
                  "the index removed from the active set (%s) is added to the old set on every path" % (show(t) if t else "?"),
                  "`%s` is not paired with `self.old_index_set.add(...)` of the same tuple on every normal path: the refined index "
                  "drops out of the index set" % src(rm))
        guards = [g for (g, _n) in R.dominating_guards(upd, rn)]
        member = ("cmp", "In", t, ("a", ("n", upd.self_name), "active_index_set"))
        okg = member in guards
        if not okg:
            for g in guards:
                if g[0] == "call" and g[1][0] == "a" and g[1][1] == ("n", upd.self_name):
                    callee = prog.lookup_method(cs, g[1][2])
                    if callee is not None and len(g[2]) == 1:
                        rts = R.return_paths(callee)[0]
                        tmc = Terms(callee.node)
                        p = callee.params[1] if len(callee.params) > 1 else None
                        want = ("cmp", "In", ("copy", "tuple", ("n", p)), ("a", ("n", callee.self_name), "active_index_set"))
                        if rts and all(tmc.term(r.ast.value) == want for r in rts) and t == ("copy", "tuple", g[2][0]):
                            okg = True
        ctx.check(okg, "C01.D2", R.key_of(upd, "guard#%d" % k), upd.loc(rm),
                  "the move happens only if the requested index is active (non-refinable requests change nothing)",
                  "the move of %s is not guarded by membership of that same tuple in the active set" % (show(t) if t else "?"))
    # all dimensions are tried
    ok = any(tmu.term(it) == ("call", ("n", "range"), (("a", ("n", upd.self_name), "dim"),), ()) and
             any(isinstance(c.func, ast.Attribute) and "refine_scheme" in c.func.attr for b_ in body for c in R.calls_in(b_))
             for (it, _tg, body, _n) in R.iterations(upd.node))
    ctx.check(ok, "C01.D2", R.key_of(upd, "all-forward-neighbours"), upd.loc(),
              "a forward neighbour is tried in every dimension", "update_adaptive_combi does not try the forward neighbour of every dimension range(self.dim)")

    # ------------------------------------------------------------------ D3 admissibility
    n_add = 0
    for name, fi in sorted(cs.methods.items()):
        if name in INITIALISERS:
            continue
        for ad in R.method_calls_on_attr(fi.node, "active_index_set", {"add", "update"}, fi.self_name):
            n_add += 1
            ctx.touch(fi)
            _check_admissibility(prog, ctx, fi, ad)
        for s in R.self_stores(fi, "active_index_set"):
            if s.kind in ("plain", "aug"):
                n_add += 1
                ctx.violation("C01.D3", R.key_of(fi, "rebinds-active-set"), fi.loc(s.stmt),
                              "`%s` re-binds the active index set outside the initialisers without an admissibility test" % src(s.stmt))
    ctx.floor("C01.D3", n_add, 1, "activations outside the initialisers")

    # ------------------------------------------------------------------ D4 / D5 / D6
    gc = prog.func(CS + ".get_coefficients_to_index_set")
    ctx.touch(gc)
    _check_stencil(prog, ctx, gc)

    # ------------------------------------------------------------------ D7 enumeration precondition
    _check_getgrids_sites(prog, ctx, cs)
    _check_simplex_enumeration(prog, ctx, cs)


def _check_getgrids_sites(prog, ctx, cs):
    """D7: getGrids(dim, n) enumerates the level vectors with entries >= 1 and sum-like budget n; it is meaningful only for
    n >= 1 (getGrids(1, 0) returns the level-0 vector [[0]], getGrids(d>1, 0) returns nothing).  Every call site must pass
    a budget whose minimum over the enclosing loop ranges is >= 1, given lmax >= lmin (asserted by the initialisers)."""
    from ..absint import poly_of_term, Poly
    n = 0
    for name, fi in sorted(cs.methods.items()):
        tm = Terms(fi.node, max_depth=0)
        for call in [x for x in ast.walk(fi.node) if isinstance(x, ast.Call)]:
            f = call.func
            if not (isinstance(f, ast.Attribute) and f.attr == "getGrids" and len(call.args) == 2):
                continue
            n += 1
            ctx.touch(fi)
            p = poly_of_term(tm.term(call.args[1]))
            # loop variables (for statements and comprehensions) enclosing the call
            binders = []
            node = getattr(call, "_parent", None)
            while node is not None and node is not fi.node:
                if isinstance(node, ast.For) and isinstance(node.target, ast.Name):
                    binders.append((node.target.id, node.iter))
                if isinstance(node, (ast.ListComp, ast.GeneratorExp, ast.SetComp)):
                    for g in node.generators:
                        if isinstance(g.target, ast.Name):
                            binders.append((g.target.id, g.iter))
                node = getattr(node, "_parent", None)
            candidates = [p]
            for (var, it) in binders:
                atom = ("n", var)
                nxt = []
                for q in candidates:
                    coef = sum(v for k, v in q.terms.items() if k == ((atom, 1),))
                    if coef == 0:
                        nxt.append(q)
                        continue
                    t = tm.term(it)
                    if not (t[0] == "call" and t[1] == ("n", "range") and 1 <= len(t[2]) <= 2):
                        continue
                    lo = poly_of_term(t[2][0]) if len(t[2]) == 2 else Poly.const(0)
                    hi_t = t[2][-1]
                    his = [hi_t] if not (hi_t[0] == "call" and hi_t[1] == ("n", "min")) else list(hi_t[2])
                    rest = Poly({k: v for k, v in q.terms.items() if k != ((atom, 1),)})
                    for h in his:
                        bound = (poly_of_term(h) - Poly.const(1)) if coef < 0 else lo
                        nxt.append(rest + bound * Poly.const(coef))
                candidates = nxt
            ok = False
            shown = []
            for q in candidates:
                shown.append(repr(q))
                const = q.terms.get((), 0)
                others = {k: v for k, v in q.terms.items() if k != ()}
                lmx, lmn = ((("n", "lmax"), 1),), ((("n", "lmin"), 1),)
                if not others and const >= 1:
                    ok = True
                elif set(others) == {lmx, lmn} and others[lmx] == -others[lmn] and others[lmx] > 0 and const >= 1:
                    ok = True
            key = R.key_of(fi, "getGrids-budget#%d" % sum(1 for i in ctx.instances if i.rule == "C01.D7" and i.key.startswith(fi.qual)))
            ctx.check(ok, "C01.D7", key, fi.loc(call),
                      "the enumeration budget `%s` is >= 1 over the enclosing loop ranges (minimum %s, given lmax >= lmin)" % (src(call.args[1]), shown[:2]),
                      "`%s` can be called with a budget < 1 (minimum over the loop ranges: %s): getGrids(1, 0) yields the level vector [0], "
                      "an index below the minimum level enters the set in one dimension" % (src(call), shown[:2]))
    ctx.floor("C01.D7", n, 2, "getGrids call sites")
    # the axiom lmax >= lmin is asserted by both public initialisers, which hand their own lmax, lmin on
    for nm in ("init_adaptive_combi_scheme", "init_full_grid"):
        fi = cs.methods[nm]
        tm = Terms(fi.node, max_depth=0)
        # roles: the parameters stored into self.lmin / self.lmax_adaptive
        pmin = [s_.value.id for s_ in R.self_stores(fi, "lmin") if isinstance(s_.value, ast.Name) and s_.value.id in fi.params]
        pmax = [s_.value.id for s_ in R.self_stores(fi, "lmax_adaptive") if isinstance(s_.value, ast.Name) and s_.value.id in fi.params]
        cf_ = cfg_of(fi)
        has = bool(pmin) and bool(pmax) and any(
            n_.kind == "stmt" and isinstance(n_.ast, ast.Assert) and tm.term(n_.ast.test) == ("cmp", "LtE", ("n", pmin[0]), ("n", pmax[0]))
            and all(cf_.dominates(n_, cf_.node_of(s_.stmt)) for s_ in R.self_stores(fi, "lmin") + R.self_stores(fi, "lmax_adaptive"))
            for n_ in cf_.nodes)
        ctx.check(has, "C01.D7", R.key_of(fi, "asserts-lmax>=lmin"), fi.loc(), "asserts lmax >= lmin", "%s no longer asserts lmax >= lmin" % nm)


def _check_simplex_enumeration(prog, ctx, cs):
    from ..absint import poly_of_term, Poly
    gg = cs.methods["getGrids"]
    ctx.touch(gg)
    tm = Terms(gg.node, max_depth=0)
    c = cfg_of(gg)
    dl, vl = gg.params[0], gg.params[1]
    DL, VL = Poly.atom(("n", dl)), Poly.atom(("n", vl))
    target = VL + DL - Poly.const(1)          # entry sum of every returned vector
    problems = []
    # base case
    base_ok = False
    for r in R.return_paths(gg)[0]:
        guards = [g for (g, gn) in R.dominating_guards(gg, r, tm) if gn.kind == "test"]
        t = tm.term(r.ast.value)
        if norm_eq(("n", dl), ("c", "1")) in guards:
            base_ok = t == ("list", ("list", ("n", vl)))
    if not base_ok:
        problems.append("the base case dim_left == 1 does not return [[values_left]]")
    # inductive step: first entry f, recursive call getGrids(dl - 1, budget'): f + (budget' + (dl - 1) - 1) == vl + dl - 1, f >= 1
    rec = [x for x in ast.walk(gg.node) if isinstance(x, ast.Call) and isinstance(x.func, ast.Attribute) and x.func.attr == "getGrids"]
    step_ok = False
    for x in rec:
        if len(x.args) != 2:
            continue
        d2, b2 = poly_of_term(tm.term(x.args[0])), poly_of_term(tm.term(x.args[1]))
        # the first entry: the single-element list concatenated in front
        firsts = []
        loops = [l for l in R.enclosing_loops(x) if isinstance(l, ast.For) and isinstance(l.target, ast.Name)]
        for bs in tm.env.bindings.values():
            for b in bs:
                if b.kind == "assign" and isinstance(b.value, ast.List) and len(b.value.elts) == 1 and loops \
                        and any(b.stmt is y for y in ast.walk(loops[-1])):
                    firsts.append(poly_of_term(tm.term(b.value.elts[0])))
        if not firsts or not loops:
            continue
        f = firsts[0]
        total = f + b2 + d2 - Poly.const(1)
        it = tm.term(loops[-1].iter)
        full = it == ("call", ("n", "range"), (("n", vl),), ())
        idx = Poly.atom(("n", loops[-1].target.id))
        first_ge_1 = (f - idx) == Poly.const(1) or (f.is_const() and f.const_value() >= 1)
        if d2 == DL - Poly.const(1) and total == target and full and first_ge_1:
            step_ok = True
        else:
            problems.append("recursive step: first entry %r, rest getGrids(%r, %r) over %s does not keep the entry sum values_left + dim_left - 1 "
                            "with entries >= 1" % (f, d2, b2, show(it)))
    if not step_ok and not problems:
        problems.append("no recursive step found")
    ctx.check(not problems, "C01.D8", R.key_of(gg, "entry-sum-invariant"), gg.loc(),
              "getGrids(d, n) enumerates the vectors with entries >= 1 and entry sum n + d - 1 (base case + inductive step)",
              "getGrids: " + "; ".join(problems))
    # users: shift by lmin - 1, budget lmax - lmin + 1 - q
    for name in ("init_active_index_set", "init_old_index_set", "getCombiScheme"):
        fi = cs.methods[name]
        ctx.touch(fi)
        tmf = Terms(fi.node, max_depth=0)
        tmdeep = Terms(fi.node)
        lminp = "lmin"
        sub = ("op", "Sub", (("n", lminp), ("c", "1")))
        calls = [x for x in ast.walk(fi.node) if isinstance(x, ast.Call) and isinstance(x.func, ast.Attribute) and x.func.attr == "getGrids"]
        shift_ok = False
        for n in ast.walk(fi.node):
            if isinstance(n, (ast.ListComp, ast.Call)):
                t = tmdeep.term(n)                     # temporaries such as `offset = lmin - 1` are looked through
                # element-wise  l + (lmin - 1)   or  np.array(g) + ones * (lmin - 1)
                for x in subterms(t):
                    if x[0] == "op" and x[1] == "Add" and any(y == sub for y in x[2]):
                        shift_ok = True
                    if x[0] == "op" and x[1] == "Add" and any(y[0] == "op" and y[1] == "Mult" and sub in y[2] for y in x[2]):
                        shift_ok = True
        bud_ok = bool(calls)
        for x in calls:
            t = R.resolve_locals(fi, tmf.term(x.args[1]), cfg_of(fi).node_containing(x), tmf)
            p_ = poly_of_term(t)
            lm, lx = (((("n", "lmin"), 1),)), (((("n", "lmax"), 1),))
            qterms = {k: v for k, v in p_.terms.items() if k not in ((), lm, lx)}
            if not (p_.terms.get(lx) == 1 and p_.terms.get(lm) == -1 and p_.terms.get((), 0) == 1 and all(v == -1 for v in qterms.values()) and len(qterms) <= 1):
                bud_ok = False
        ctx.check(shift_ok and bud_ok, "C01.D8", R.key_of(fi, "shift-and-budget"), fi.loc(),
                  "level vectors are enumerated with budget lmax - lmin + 1 - q and shifted by lmin - 1",
                  "%s does not enumerate with budget lmax - lmin + 1 (- q) and shift every entry by lmin - 1 (shift found: %s, budget ok: %s)"
                  % (fi.name, shift_ok, bud_ok))
    # closed-form coefficient (-1)^q * binom(dim-1, q)
    gcs = cs.methods["getCombiScheme"]
    tmc = Terms(gcs.node, max_depth=0)
    okc = False
    for b in [b for bs in tmc.env.bindings.values() for b in bs]:
        if b.kind != "assign" or not any(isinstance(y, ast.Attribute) and y.attr == "factorial" for y in ast.walk(b.value)):
            continue
        t = tmc.term(b.value)
        loops = [l for l in R.enclosing_loops(b.stmt) if isinstance(l, ast.For) and isinstance(l.target, ast.Name)]
        if not loops:
            continue
        q = ("n", loops[-1].target.id)
        dm1 = ("op", "Sub", (("a", ("n", "self"), "dim"), ("c", "1")))
        fact = lambda z: ("call", ("a", ("n", "math"), "factorial"), (z,), ())
        sign = ("op", "Pow", (("c", "-1"), q))
        binom1 = ("op", "Div", (fact(dm1), ("op", "Mult", tuple(sorted((fact(q), fact(("op", "Sub", (dm1, q)))), key=repr)))))
        form1 = ("op", "Div", (("op", "Mult", tuple(sorted((sign, fact(dm1)), key=repr))), ("op", "Mult", tuple(sorted((fact(q), fact(("op", "Sub", (dm1, q)))), key=repr)))))
        comb = ("call", ("a", ("n", "math"), "comb"), (dm1, q), ())
        form2 = ("op", "Mult", tuple(sorted((sign, comb), key=repr)))
        form3 = ("op", "Mult", tuple(sorted((sign, binom1), key=repr)))
        it = tmc.term(loops[-1].iter)
        rng_ok = it[0] == "call" and it[1] == ("n", "range") and len(it[2]) == 1 and it[2][0][0] == "call" and it[2][0][1] == ("n", "min") and \
            ("a", ("n", "self"), "dim") in it[2][0][2]
        okc = t in (form1, form2, form3) and rng_ok
    ctx.check(okc, "C01.D8", R.key_of(gcs, "closed-form-coefficient"), gcs.loc(),
              "closed-form coefficient is (-1)^q * binom(dim-1, q) for q in range(min(dim, lmax-lmin+1))",
              "the closed-form coefficient of getCombiScheme is no longer (-1)**q * (dim-1)! / (q! (dim-1-q)!) over q in range(min(dim, ...))")


def norm_eq(a, b):
    from ..terms import norm_cmp
    return norm_cmp("Eq", a, b)


def check_initialisation(prog, ctx, cs, rule):
    """(a) An initialiser (re-)establishes the whole state on every path: every STATE attribute is stored on every normal path from
    entry to exit, so that a second initialisation never leaves index sets of an earlier history in place.
    (b) The scheme object that a combination instance keeps (`self.combischeme`) is put into the adaptive state only by the set-up of
    an adaptive driver (initialize_refinement / perform_combi); every other caller initialises a CombiScheme it created itself."""
    for nm in ("init_adaptive_combi_scheme", "init_full_grid"):
        fi = cs.methods.get(nm)
        if fi is None:
            raise AnalysisError("anchor vanished: CombiScheme.%s" % nm)
        ctx.touch(fi)
        c = cfg_of(fi)
        missing = []
        for attr in sorted(STATE):
            stores = [c.node_of(s_.stmt) for s_ in R.self_stores(fi, attr) if s_.kind == "plain"]
            if not stores or not c.must_pass_through(c.entry, [c.exit], stores):
                missing.append(attr)
        ctx.check(not missing, rule, R.key_of(fi, "complete-initialisation"), fi.loc(),
                  "every state attribute is (re-)assigned on every normal path",
                  "%s can return without (re-)assigning %s: a second initialisation keeps the index sets / levels of the earlier history"
                  % (nm, missing))
    drivers = ("initialize_refinement", "perform_combi")
    n = 0
    for fi in prog.functions.values():
        if "init_adaptive_combi_scheme" not in fi.module.source and "init_full_grid" not in fi.module.source:
            continue
        for call in R.calls_in(fi.node):
            if not (isinstance(call.func, ast.Attribute) and call.func.attr in ("init_adaptive_combi_scheme", "init_full_grid")):
                continue
            recv = call.func.value
            n += 1
            ctx.touch(fi)
            ok = False
            why = ""
            if isinstance(recv, ast.Name):
                rd_ = R.reaching_unique_def(fi, recv.id, recv)
                defs = [rd_] if rd_ is not None else []          # the definition that reaches THIS call (flow-sensitive)
                fresh = bool(defs) and all(b.kind == "assign" and isinstance(b.value, ast.Call) and
                                           prog.resolve_class_expr(fi.module.name, b.value.func, fi.cls) is not None and
                                           prog.resolve_class_expr(fi.module.name, b.value.func, fi.cls).qual == cs.qual for b in defs)
                ok = fresh
                why = "`%s` is not on every path a CombiScheme created in this function (definitions: %s)" % (recv.id, [src(b.value)[:40] if b.value is not None else b.kind for b in defs])
            elif R.attr_chain(recv) and R.attr_chain(recv)[0] == fi.self_name:
                ok = fi.name in drivers or (fi.cls is not None and fi.cls.qual == cs.qual)
                why = "%s initialises the scheme object kept by the instance (`%s`) although it is not the set-up of an adaptive driver %s: " \
                      "the instance's scheme silently switches to the adaptive state" % (fi.name, src(recv), list(drivers))
            else:
                why = "unrecognised receiver `%s`" % src(recv)
            ctx.check(ok, rule, R.key_of(fi, "initialiser-call:%s" % src(recv)), fi.loc(call),
                      "an initialiser is applied to a fresh local scheme, or to the instance's scheme by an adaptive driver's set-up", why)
    ctx.floor(rule + ".calls", n, 3, "call sites of the CombiScheme initialisers")


def _reached_in_state(cs, name, seen):
    """Every call of method `name` inside the class happens in the initialised-adaptive state: the call site is dominated by the
    assertion, or the calling method is itself only reached in that state (transitively)."""
    if name in seen:
        return True
    seen = seen | {name}
    callers = [f2 for f2 in cs.methods.values() if any(
        isinstance(c.func, ast.Attribute) and c.func.attr in (name, "_CombiScheme" + name) for c in R.calls_in(f2.node))]
    if not callers:
        return False
    for f2 in callers:
        if _asserts_state(f2, name):
            continue
        if f2.name in INITIALISERS or not _reached_in_state(cs, f2.name, seen):
            return False
    return True


def _asserts_state(fi, callee_name):
    c = cfg_of(fi)
    tm = terms_of(fi)
    flag = ("a", ("n", fi.self_name), "initialized_adaptive")
    for call in R.calls_in(fi.node):
        if isinstance(call.func, ast.Attribute) and call.func.attr in (callee_name, "_CombiScheme" + callee_name):
            node = R.cfg_node(fi, call)
            if flag not in [g for (g, _n) in R.dominating_guards(fi, node)]:
                return False
    return True


def _subst(t, old, new):
    if t == old:
        return new
    if isinstance(t, tuple):
        return tuple(_subst(x, old, new) for x in t)
    return t


def _admissible_before(fi, target, base):
    """Is the CFG node `target` of function `fi` dominated by the completion of a loop over all dimensions that rejects (falsy
    return) unless the backward neighbour of the vector `base` in the loop dimension is in the OLD set or below lmin?
    Returns (ok, detail)."""
    c = cfg_of(fi)
    tm = Terms(fi.node, max_depth=0)
    tmd = Terms(fi.node)
    loops = [n for n in c.nodes if n.kind == "for" and c.edge_dominates(n, False, target)]
    detail = "no loop over all dimensions whose completion dominates the activation"
    for ln in loops:
        loop = ln.ast
        if tm.term(loop.iter) != ("call", ("n", "range"), (("a", ("n", fi.self_name), "dim"),), ()):
            detail = "the neighbour loop ranges over %s, not range(self.dim)" % src(loop.iter)
            continue
        if not isinstance(loop.target, ast.Name):
            continue
        k = loop.target.id
        copy_name = None
        for st in loop.body:
            if isinstance(st, ast.Assign) and isinstance(st.targets[0], ast.Subscript) and isinstance(st.targets[0].value, ast.Name) \
                    and isinstance(st.targets[0].slice, ast.Name) and st.targets[0].slice.id == k:
                v = R.resolve_locals(fi, tm.term(st.value), c.node_of(st), tm)      # looks through `lower = vec[k] - 1`
                if base is not None and v == ("op", "Sub", (("s", ("n", base), ("n", k)), ("c", "1"))):
                    copy_name = st.targets[0].value.id
            if isinstance(st, ast.AugAssign) and isinstance(st.op, ast.Sub) and isinstance(st.target, ast.Subscript) \
                    and isinstance(st.target.value, ast.Name) and isinstance(st.target.slice, ast.Name) and st.target.slice.id == k \
                    and isinstance(st.value, ast.Constant) and st.value.value == 1:
                copy_name = st.target.value.id
        if copy_name is None:
            detail = "no backward neighbour (component of the loop dimension decremented by one) is built in the loop"
            continue
        copies_base = False
        for st in loop.body:
            if isinstance(st, ast.Assign) and isinstance(st.targets[0], ast.Name) and st.targets[0].id == copy_name:
                v = tm.term(st.value)
                if base is not None and v in (("copy", "list", ("n", base)), ("call", ("a", ("n", base), "copy"), (), ())):
                    copies_base = True
        if not copies_base:
            detail = "the backward neighbour is not built from the vector that is activated"
            continue
        exits = []
        for n in c.nodes:
            if n.kind == "stmt" and isinstance(n.ast, ast.Return) and c.in_loop(n, loop):
                v = n.ast.value
                if v is None or (isinstance(v, ast.Constant) and not v.value):
                    exits.append(n)
        if not exits:
            detail = "the neighbour loop never rejects (no falsy return inside it)"
            continue
        conds = set()
        back = ("op", "Sub", (("s", ("n", base), ("n", k)), ("c", "1")))
        for ex in exits:
            for (g, gn) in R.dominating_guards(fi, ex, tm):
                if gn.kind == "test" and c.in_loop(gn, loop):
                    g2 = R.resolve_locals(fi, g, gn, tm)
                    # the decremented component may be spelt as the neighbour's entry or as (vector entry - 1)
                    g2 = _subst(g2, back, ("s", ("n", copy_name), ("n", k)))
                    g2 = _subst(g2, ("copy", "tuple", ("copy", "list", ("n", base))), ("copy", "tuple", ("n", copy_name)))
                    conds.add(g2)
        copy_t = ("copy", "tuple", ("n", copy_name))
        old = ("a", ("n", fi.self_name), "old_index_set")
        lm = ("a", ("n", fi.self_name), "lmin")
        comp = ("s", ("n", copy_name), ("n", k))
        member_old = ("cmp", "NotIn", copy_t, old) in conds
        above_lmin = ("cmp", "LtE", lm, comp) in conds
        uses_union = any(g[0] == "cmp" and g[1] == "NotIn" and g[2] == copy_t and g[3] != old for g in conds)
        if member_old and above_lmin and not uses_union and len(conds) == 2:
            return True, "loop at line %d" % loop.lineno
        detail = "the rejection condition is %s; required: (backward neighbour not in self.old_index_set) and (its component >= self.lmin)" \
                 % sorted(show(g) for g in conds)
    return False, detail


def _check_admissibility(prog, ctx, fi, ad):
    c = cfg_of(fi)
    tm = Terms(fi.node, max_depth=0)
    an = R.cfg_node(fi, ad)
    key = R.key_of(fi, "activate:%s" % src(ad.args[0]) if ad.args else "activate")
    added = ad.args[0] if ad.args else None
    base = None
    if isinstance(added, ast.Call) and isinstance(added.func, ast.Name) and added.func.id == "tuple" and isinstance(added.args[0], ast.Name):
        base = added.args[0].id
    ok, detail = _admissible_before(fi, an, base)
    if not ok:
        # the test may have been extracted into a helper of the same class:  if not self._admissible(levelvec): return False
        for (g, gn) in R.dominating_guards(fi, an, tm):
            if g[0] == "call" and g[1][0] == "a" and g[1][1] == ("n", fi.self_name) and fi.cls is not None:
                helper = prog.lookup_method(fi.cls, g[1][2]) or prog.lookup_method(fi.cls, "_%s%s" % (fi.cls.name, g[1][2]))
                if helper is None or helper is fi:
                    continue
                hp = [p for p in helper.params if p != helper.self_name]
                args = list(g[2])
                if ("n", base) not in args or len(args) > len(hp):
                    continue
                hbase = hp[args.index(("n", base))]
                if any(isinstance(n, ast.Name) and isinstance(n.ctx, ast.Store) and n.id == hbase for n in walk_local(helper.node)):
                    continue
                hc = cfg_of(helper)
                truthy = [r for r in R.return_paths(helper)[0] if not (isinstance(r.ast.value, ast.Constant) and not r.ast.value.value)]
                falls = R.return_paths(helper)[1] + R.return_paths(helper)[2]
                if truthy and not falls and all(_admissible_before(helper, r, hbase)[0] for r in truthy):
                    ok, detail = True, "admissibility loop in helper %s" % helper.qual
                    ctx.touch(helper)
                    break
    ctx.check(ok, "C01.D3", key, fi.loc(ad),
              "activation is dominated by a loop over all dimensions that rejects unless every backward neighbour is in the old set or below lmin (%s)" % detail,
              "`%s` can activate an inadmissible index: %s" % (src(ad), detail))


def _literal_set(node):
    if isinstance(node, (ast.List, ast.Tuple)) and node.elts and \
            all(isinstance(e, ast.Constant) or (isinstance(e, ast.UnaryOp) and isinstance(e.operand, ast.Constant)) for e in node.elts):
        try:
            return frozenset(ast.literal_eval(e) for e in node.elts)
        except Exception:                      # noqa: BLE001
            return None
    return None


def _stencil_cases(prog, fi, depth=0):
    """([(values, guard terms, dimension variable, ranges over all dimensions, ast node, function, shown)], names of the stencil lists in
    `fi`, expression nodes in `fi` that ARE the stencil list)"""
    from ..terms import negate
    tm = Terms(fi.node, max_depth=0)
    dimr = ("call", ("n", "range"), (("a", ("n", fi.self_name), "dim"),), ())
    cases, names, where = [], set(), []
    # (a) loop with appends of literal lists
    for ap in R.calls_in(fi.node, method="append"):
        if not (isinstance(ap.func.value, ast.Name) and ap.args):
            continue
        vals = _literal_set(ap.args[0])
        if vals is None:
            continue
        loops = R.enclosing_loops(ap)
        dvar = loops[-1].target.id if loops and isinstance(loops[-1], ast.For) and isinstance(loops[-1].target, ast.Name) else None
        full = bool(loops) and tm.term(loops[-1].iter) == dimr
        guards = [g for (g, gn) in R.dominating_guards(fi, R.cfg_node(fi, ap), tm) if gn.kind == "test"]
        cases.append((vals, guards, dvar, full, ap, fi, src(ap.args[0])))
        names.add(ap.func.value.id)
    # (b) comprehension over the dimensions whose element is a literal list or a conditional between literal lists
    for comp in [x for x in ast.walk(fi.node) if isinstance(x, ast.ListComp) and len(x.generators) == 1 and not x.generators[0].ifs]:
        g = comp.generators[0]
        if not isinstance(g.target, ast.Name):
            continue
        arms = []
        def collect(e, conds):
            if isinstance(e, ast.IfExp):
                t = tm.term(e.test)
                collect(e.body, conds + [t])
                collect(e.orelse, conds + [negate(t)])
            else:
                arms.append((e, conds))
        collect(comp.elt, [])
        if not arms or any(_literal_set(e) is None for (e, _c) in arms):
            continue
        full = tm.term(g.iter) == dimr
        for (e, conds) in arms:
            cases.append((_literal_set(e), conds, g.target.id, full, e, fi, src(e)))
        par = getattr(comp, "_parent", None)
        if isinstance(par, ast.Assign) and isinstance(par.targets[0], ast.Name):
            names.add(par.targets[0].id)
        else:
            where.append(comp)
    # (c) built by a private helper of the same class:  stencils = self.helper(levelvec)
    if not cases and depth == 0 and fi.cls is not None:
        for call in R.calls_in(fi.node):
            if isinstance(call.func, ast.Attribute) and isinstance(call.func.value, ast.Name) and call.func.value.id == fi.self_name:
                helper = prog.lookup_method(fi.cls, call.func.attr) or prog.lookup_method(fi.cls, "_%s%s" % (fi.cls.name, call.func.attr))
                if helper is None or helper is fi:
                    continue
                sub, _n, _w = _stencil_cases(prog, helper, depth + 1)
                if sub:
                    cases = sub
                    par = getattr(call, "_parent", None)
                    if isinstance(par, ast.Assign) and isinstance(par.targets[0], ast.Name):
                        names.add(par.targets[0].id)
                    else:
                        where.append(call)
                    break
    return cases, names, where


def _check_stencil(prog, ctx, gc):
    tm = Terms(gc.node, max_depth=0)
    c = cfg_of(gc)
    # D4: the value stored into the coefficient dictionary (role: a local created as an empty dict in this function)
    fresh_dicts = {st.targets[0].id for st in walk_local(gc.node) if isinstance(st, ast.Assign) and len(st.targets) == 1
                   and isinstance(st.targets[0], ast.Name) and ((isinstance(st.value, ast.Dict) and not st.value.keys)
                   or (isinstance(st.value, ast.Call) and isinstance(st.value.func, ast.Name) and st.value.func.id == "dict" and not st.value.args))}
    stores = []
    for st in walk_local(gc.node):
        if isinstance(st, (ast.Assign, ast.AugAssign)):
            tg = st.targets[0] if isinstance(st, ast.Assign) else st.target
            if isinstance(tg, ast.Subscript) and isinstance(tg.value, ast.Name) and tg.value.id in fresh_dicts:
                stores.append(st)
    ctx.floor("C01.D4", len(stores), 1, "stores into the coefficient dictionary")
    contribs = []
    for k, st in enumerate(stores):
        v = st.value
        tg_ = st.targets[0] if isinstance(st, ast.Assign) else st.target
        # `D[k] = D.get(k, 0) + c`: the contribution is c
        if isinstance(st, ast.Assign) and isinstance(v, ast.BinOp) and isinstance(v.op, ast.Add):
            for a_, b_ in ((v.left, v.right), (v.right, v.left)):
                if isinstance(a_, ast.Call) and isinstance(a_.func, ast.Attribute) and a_.func.attr == "get" and ast.dump(a_.func.value) == ast.dump(tg_.value) \
                        and len(a_.args) == 2 and ast.dump(a_.args[0]) == ast.dump(tg_.slice) and isinstance(a_.args[1], ast.Constant) and a_.args[1].value == 0:
                    v = b_
        contribs.append(v)
        if isinstance(v, ast.Name):
            b = R.reaching_unique_def(gc, v.id, v)
            vexpr = b.value if b is not None and b.kind == "assign" else None
        else:
            vexpr = v
        if isinstance(st, ast.AugAssign) and not isinstance(st.op, ast.Add):
            ctx.violation("C01.D4", R.key_of(gc, "sign#%d" % k), gc.loc(st), "the stencil contribution is not added (`%s`)" % src(st))
            continue
        if vexpr is None:
            ctx.violation("C01.D4", R.key_of(gc, "sign#%d" % k), gc.loc(st), "cannot find the definition of the stencil contribution `%s`" % src(v))
            continue
        res = {}
        for par, name in ((EVEN, "even"), (ODD, "odd")):
            def env(e, par=par):
                if isinstance(e, ast.Call) and isinstance(e.func, ast.Name) and e.func.id == "sum" and len(e.args) == 1:
                    return par
                if isinstance(e, ast.Call) and isinstance(e.func, ast.Attribute) and e.func.attr == "sum":
                    return par
                if isinstance(e, ast.Name):
                    b2 = R.reaching_unique_def(gc, e.id, e)
                    if b2 is not None and b2.kind == "assign":
                        return parity_eval(b2.value, env)
                return None
            res[name] = parity_eval(vexpr, env)
        ok = res["even"] == pconst(1) and res["odd"] == pconst(-1)
        ctx.check(ok, "C01.D4", R.key_of(gc, "sign#%d" % k), gc.loc(st),
                  "contribution is +1 for an even and -1 for an odd stencil sum",
                  "the stencil contribution `%s` evaluates to %s for an even and %s for an odd stencil sum (required +1 / -1)"
                  % (src(vexpr), res["even"], res["odd"]), expr=src(vexpr))
        # key: grid_levelvec + s
        tg = st.targets[0] if isinstance(st, ast.Assign) else st.target
        kt = Terms(gc.node).term(tg.slice)
    # both stores (update / first insert) use the same value
    vals = {src(v_) for v_ in contribs}
    ctx.check(len(vals) == 1, "C01.D4", R.key_of(gc, "same-contribution"), gc.loc(),
              "first insertion and update use the same contribution", "first insertion and update of a coefficient use different contributions: %s" % sorted(vals))
    # the target index is grid_levelvec + s (element-wise)
    tmf = Terms(gc.node)
    key_ok = False
    for st in stores:
        tg = st.targets[0] if isinstance(st, ast.Assign) else st.target
        kt = tmf.term(tg.slice)
        if isinstance(tg.slice, ast.Name):
            bk = R.reaching_unique_def(gc, tg.slice.id, tg.slice)
            if bk is not None and bk.kind == "assign":
                kt = tmf.term(bk.value)
        add01 = ("op", "Add", tuple(sorted((("bv", "$0"), ("bv", "$1")), key=repr)))
        for x in subterms(kt):
            if x[0] == "lambda" and x[1] == 2 and x[2] == add01:
                key_ok = True                                     # map(lambda x, y: x + y, index, stencil)
            if x[0] == "comp" and x[2] == add01 and len(x[3]) == 1 and x[3][0][0] == ("tuple", ("bv", "$0"), ("bv", "$1")) \
                    and x[3][0][1][0] == "call" and x[3][0][1][1] == ("n", "zip") and len(x[3][0][1][2]) == 2 and not x[3][0][2]:
                key_ok = True                                     # (x + y for x, y in zip(index, stencil))
            if x[0] == "op" and x[1] == "Add" and len(x[2]) == 2 and all(y[0] == "call" and y[1] in (("a", ("n", "np"), "array"), ("a", ("n", "np"), "asarray")) for y in x[2]):
                key_ok = True                                     # np.array(index) + np.array(stencil)
    ctx.check(key_ok, "C01.D4", R.key_of(gc, "target-index"), gc.loc(), "the contribution goes to index + stencil element (element-wise sum)",
              "the coefficient is not stored at grid_levelvec + stencil element")

    # D5: truncated stencil.  The per-dimension stencils may be built by a loop with appends, by a (conditional) comprehension, or
    # in a private helper of the class that get_coefficients_to_index_set calls; _stencil_cases finds (values, condition) pairs
    lm = ("a", ("n", gc.self_name), "lmin")
    cases, stencil_lists, where = _stencil_cases(prog, gc)
    if not cases:
        ctx.violation("C01.D5", R.key_of(gc, "stencil:missing"), gc.loc(),
                      "no per-dimension stencil ({0} at the minimum level, {0, -1} above it) is built for the coefficient computation")
    for (vals, guards, dvar, full_range, loc_ast, wf, shown) in cases:
        lv = None
        for g in guards:
            if g[0] == "cmp" and g[1] in ("Lt", "LtE") and (g[2] == lm or g[3] == lm):
                lv = g
        ok = False
        why = "guards %s" % [show(g) for g in guards]
        if vals == frozenset({0}):
            ok = lv is not None and lv[1] == "LtE" and lv[3] == lm and lv[2][0] == "s" and lv[2][2] == ("n", dvar)
            need = "level <= self.lmin"
        elif vals == frozenset({0, -1}):
            ok = lv is not None and lv[1] == "Lt" and lv[2] == lm and lv[3][0] == "s" and lv[3][2] == ("n", dvar)
            need = "level > self.lmin"
        else:
            need = "a stencil {0} or {0,-1}"
        ok = ok and full_range
        ctx.check(ok, "C01.D5", R.key_of(gc, "stencil:%s" % (sorted(vals) if vals is not None else shown)), wf.loc(loc_ast),
                  "stencil %s is used exactly when %s, for every dimension" % (sorted(vals) if vals else None, need),
                  "stencil %s is used under %s (required: %s, for every dimension in range(self.dim))"
                  % (sorted(vals) if vals is not None else shown, why, need))
    if cases and {c_[0] for c_ in cases} != {frozenset({0}), frozenset({0, -1})}:
        ctx.violation("C01.D5", R.key_of(gc, "stencil:both-cases"), gc.loc(),
                      "the stencil cases found are %s; required exactly {0} (at the minimum level) and {0, -1} (above it)" % sorted(sorted(c_[0]) if c_[0] else [] for c_ in cases))
    cp = [x for x in R.calls_in(gc.node, func="get_cross_product")]
    ok = any(x.args and ((isinstance(x.args[0], ast.Name) and x.args[0].id in stencil_lists) or any(x.args[0] is w for w in where)) for x in cp)
    ctx.check(ok, "C01.D5", R.key_of(gc, "cross-product"), gc.loc(), "stencil elements are the cross product of the per-dimension stencils",
              "the stencil elements are no longer get_cross_product(stencils)")
    # all of index_set is visited
    outer = [l for l in walk_local(gc.node) if isinstance(l, ast.For) and isinstance(l.iter, ast.Name) and l.iter.id == gc.params[1]]
    ctx.check(bool(outer), "C01.D5", R.key_of(gc, "whole-index-set"), gc.loc(), "every index of the index set contributes",
              "get_coefficients_to_index_set does not iterate over the whole index_set parameter")

    # D6: returned grids
    cons = [x for x in R.calls_in(gc.node, func="ComponentGridInfo")]
    ctx.floor("C01.D6", len(cons), 1, "ComponentGridInfo constructions")
    coeff_dicts = {(st.targets[0] if isinstance(st, ast.Assign) else st.target).value.id for st in stores}
    for x in cons:
        kws = {k.arg: k.value for k in x.keywords}
        lv = kws.get("levelvector", x.args[0] if x.args else None)
        co = kws.get("coefficient", x.args[1] if len(x.args) > 1 else None)
        loops = R.enclosing_loops(x)
        ok = False
        # the iteration that produces (key, value): a for loop over D.items() or a comprehension generator over D.items()
        a = b = None
        it = None
        filt = []
        if loops and isinstance(loops[-1], ast.For) and isinstance(loops[-1].target, ast.Tuple) and len(loops[-1].target.elts) == 2:
            a, b = loops[-1].target.elts
            it = tm.term(loops[-1].iter)
            filt = [g for (g, gn) in R.dominating_guards(gc, R.cfg_node(gc, x), tm) if gn.kind == "test"]
        else:
            par = getattr(x, "_parent", None)
            if isinstance(par, (ast.GeneratorExp, ast.ListComp)) and par.elt is x and len(par.generators) == 1 \
                    and isinstance(par.generators[0].target, ast.Tuple) and len(par.generators[0].target.elts) == 2:
                a, b = par.generators[0].target.elts
                it = tm.term(par.generators[0].iter)
                filt = [tm.term(f_) for f_ in par.generators[0].ifs]
        if a is not None:
            ok = any(it == ("call", ("a", ("n", nm), "items"), (), ()) for nm in coeff_dicts) and isinstance(lv, ast.Name) and isinstance(co, ast.Name) \
                and isinstance(a, ast.Name) and isinstance(b, ast.Name) and lv.id == a.id and co.id == b.id
            ok = ok and filt in ([("cmp", "NotEq", ("c", "0"), ("n", b.id))], [("cmp", "NotEq", ("n", b.id), ("c", "0"))])
        ctx.check(ok, "C01.D6", R.key_of(gc, "returned-grid"), gc.loc(x),
                  "each returned grid pairs a level vector with its own coefficient; only zero coefficients are dropped",
                  "`%s` does not pair each dictionary key with its own value under the single filter coefficient != 0" % src(x))
