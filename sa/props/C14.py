"""C14 -- interrupted, saved or resumed refinement ends where an uninterrupted run ends.

Decided structural clauses:
 D1 typestate of evaluate / refine across re-entry of continue_adaptive_refinement: two evaluations may be adjacent
    (stop, then continue) only for strategies whose evaluation is idempotent on the accumulators (reset discipline);
    for incremental strategies this is violated today (known finding)
 D2 persistence pairing: the whole instance is dumped / the loaded object is returned, same file parameter, wb/rb
 D3 run state lives on the instance: everything continue_adaptive_refinement reads was stored by the initial call, and the
    continuation does not re-initialise the run state
 D4 per-step markers are reset in every per-dimension container (delegation of the meta container covers all containers)
 D5 the continuation honours the limits of THIS call: the stop tests read only parameters / locals of the call, never limits
    remembered on the instance from the initial call
 D6 no class of the package customises pickling (a __getstate__/__reduce__/__setstate__/__deepcopy__ hook would make the
    restored instance differ from the saved one)
 D7 the per-area accumulator is re-assigned unconditionally before an area is (re-)evaluated
Not decided: equality of final structures / results as values; picklability of user functions."""
import ast

from ..cfg import cfg_of, walk_local
from ..dataflow import DefiniteAssignment
from ..loader import AnalysisError, src
from ..terms import Terms, terms_of, show, subterms
from .. import rules as R
from .. import strategies as S

EXPLANATION = ("Static analysis of the re-entrant driver loop (event language over evaluate/refine on the CFG of "
               "continue_adaptive_refinement combined with the per-strategy accumulator discipline), of save_to_file / "
               "restore_from_file, of attribute read-before-store over the call sequence performSpatiallyAdaptiv -> "
               "continue_adaptive_refinement, and of the meta container's delegation loops.")

BASE = S.BASE
CAR = BASE + ".continue_adaptive_refinement"
RUN_STATE = {"refinement", "scheme", "lmax", "lmin", "combischeme", "refinements", "counter", "error_array", "num_point_array",
             "surplus_error_array", "tolerance"}


def _event_calls(fi, name):
    """CFG nodes of calls that run self.<name>: direct call or bound method handed to the timing wrapper."""
    out = []
    for c in [n for n in walk_local(fi.node) if isinstance(n, ast.Call)]:
        hit = isinstance(c.func, ast.Attribute) and c.func.attr == name and R.attr_chain(c.func.value) == [fi.self_name]
        for a in c.args:
            if isinstance(a, ast.Attribute) and a.attr == name and R.attr_chain(a.value) == [fi.self_name]:
                hit = True
        if hit:
            out.append(R.cfg_node(fi, c))
    return out


def run(prog, ctx):
    car = prog.func(CAR)
    ctx.touch(car)
    c = cfg_of(car)

    # ------------------------------------------------------------------ D1
    E = _event_calls(car, "evaluate_operation")
    Rr = _event_calls(car, "refine")
    ctx.floor("C14.D1", len(E) + len(Rr), 2, "evaluate/refine events in continue_adaptive_refinement")
    refine = prog.func(BASE + ".refine")
    ctx.touch(refine)
    cr = cfg_of(refine)
    clears = [R.cfg_node(refine, x) for x in R.calls_in(refine.node, method="clear_new_objects")
              if R.attr_chain(x.func.value) == [refine.self_name, "refinement"]]
    refine_clears = bool(clears) and any(cr.post_dominates(n, cr.entry) for n in clears)
    ctx.check(refine_clears, "C14.D1", R.key_of(refine, "clears-new-marker"), refine.loc(),
              "refine() clears the new-object marker on every path (areas evaluated so far are not evaluated again)",
              "refine() does not clear the new-object marker on every path")
    # the first event of every (re-)entry is an evaluation
    first_is_E = all(not c.must_pass_through(c.entry, [r], []) or c.must_pass_through(c.entry, [r], E) for r in Rr)
    ctx.check(first_is_E, "C14.D1", R.key_of(car, "re-evaluates-before-deciding"), car.loc(),
              "every (re-)entry evaluates before it refines", "a refinement can happen before the first evaluation of a (re-)entry")
    # is there a path  E ... exit  without a refine (=> the next entry's E is adjacent to this E)?
    adjacent = any(not c.must_pass_through(e, [c.exit], Rr) for e in E)
    for st in S.strategies(prog):
        kind, why = S.discipline(prog, st)
        key = "%s::EE-adjacent:%s" % (CAR, st.name)
        if not adjacent:
            ctx.ok("C14.D1", key, car.loc(), "no two evaluations can be adjacent across a re-entry")
        elif kind == "reset":
            ctx.ok("C14.D1", key, car.loc(), "evaluate may follow evaluate across a re-entry; the combined result is unaffected: %s" % why)
            # ... but every accumulator the evaluation augments must be re-assigned at the start of the evaluation, including the
            # per-interval error accumulators that drive the stopping rule and the selection
            aug, reset = _evaluation_accumulators(prog, st)
            for acc in sorted(aug):
                key2 = "%s::EE-adjacent-accumulator:%s:%s" % (CAR, st.name, acc)
                ctx.check(acc in reset, "C14.D1", key2, car.loc(E[0].ast),
                          "`%s`, augmented by an evaluation, is re-assigned when the evaluation starts" % acc,
                          "an evaluation of %s accumulates into `%s`, which is not re-assigned at the start of an evaluation (only by the "
                          "refinement step): after a stop, the evaluation at re-entry adds to it a second time -- for the error volumes the "
                          "error estimate doubles and a run that had stopped by tolerance refines further than the uninterrupted run"
                          % (st.name, acc), augmented=sorted(aug), reset_at_evaluation_start=sorted(reset))
        else:
            path = None
            for e in E:
                path = c.path_avoiding(e, [c.exit], Rr)
                if path:
                    break
            ctx.violation("C14.D1", key, car.loc(E[0].ast),
                          "stopping and continuing runs evaluate_operation twice in a row (exit path without refine: lines %s); %s "
                          "evaluates incrementally (%s), so the areas created by the last refinement are added to the accumulators a "
                          "second time" % ([n.lineno for n in (path or []) if n.lineno][:8], st.name, why))

    # ------------------------------------------------------------------ D5 / D6 / D7
    check_limits_and_pickling(prog, ctx, car)

    # ------------------------------------------------------------------ D2
    sv = prog.func("StandardCombi.StandardCombi.save_to_file")
    rs = prog.func("StandardCombi.StandardCombi.restore_from_file")
    ctx.touch(sv, rs)

    def file_io(fi, fn, mode):
        tm = Terms(fi.node)
        calls = [x for x in R.calls_in(fi.node, method=fn)]
        if not calls:
            return None, "no %s call" % fn
        call = calls[0]
        withs = [w for w in walk_local(fi.node) if isinstance(w, ast.With)]
        handle_ok = False
        for w in withs:
            for it in w.items:
                ce = it.context_expr
                if isinstance(ce, ast.Call) and isinstance(ce.func, ast.Name) and ce.func.id == "open" and ce.args:
                    fname = ce.args[0]
                    md = ce.args[1] if len(ce.args) > 1 else next((k.value for k in ce.keywords if k.arg == "mode"), None)
                    if isinstance(fname, ast.Name) and fname.id in fi.params and isinstance(md, ast.Constant) and md.value == mode \
                            and isinstance(it.optional_vars, ast.Name):
                        hv = it.optional_vars.id
                        args = call.args
                        if any(isinstance(a, ast.Name) and a.id == hv for a in args) and any(n is call for n in ast.walk(w)):
                            handle_ok = True
        return call, None if handle_ok else "the file handle is not `with open(<filename parameter>, %r)`" % mode
    call, why = file_io(sv, "dump", "wb")
    ok = call is not None and why is None and call.args and isinstance(call.args[0], ast.Name) and call.args[0].id == sv.self_name
    ctx.check(ok, "C14.D2", R.key_of(sv, "dumps-whole-instance"), sv.loc(call) if call is not None else sv.loc(),
              "the whole instance is dumped to the file named by the parameter",
              "save_to_file does not dump `self` (the whole instance) into open(filename, 'wb'): %s" % (why or (src(call) if call is not None else "")))
    call, why = file_io(rs, "load", "rb")
    ok = call is not None and why is None
    if ok:
        par = getattr(call, "_parent", None)
        ok = isinstance(par, ast.Return)
    ctx.check(ok, "C14.D2", R.key_of(rs, "returns-loaded"), rs.loc(call) if call is not None else rs.loc(),
              "the loaded object is returned", "restore_from_file does not return the object loaded from open(filename, 'rb'): %s" % (why or ""))
    # both sides use the same serialiser module
    mods = set()
    for fi, fn in ((sv, "dump"), (rs, "load")):
        for x in R.calls_in(fi.node, method=fn):
            ch = R.attr_chain(x.func.value)
            mods.add(".".join(ch) if ch else "?")
    ctx.check(len(mods) == 1, "C14.D2", "StandardCombi.StandardCombi::same-serialiser", sv.loc(),
              "save and restore use the same serialiser (%s)" % sorted(mods), "save and restore use different serialisers: %s" % sorted(mods))

    # ------------------------------------------------------------------ D3
    base = prog.cls(BASE)
    psa = prog.func(BASE + ".performSpatiallyAdaptiv")
    iac = prog.func(BASE + ".init_adaptive_combi")
    ctx.touch(psa, iac)
    stored = set()
    for ci in [base] + base.mro[1:] + prog.all_subclasses(base, include_self=False):
        for nm, fi in ci.methods.items():
            if nm in ("__init__", "performSpatiallyAdaptiv", "init_adaptive_combi", "initialize_refinement"):
                for s in R.self_stores(fi):
                    stored.add(s.attr)
        stored |= set(ci.class_attrs)
    methods = set()
    for ci in [base] + base.mro[1:] + prog.all_subclasses(base, include_self=False):
        methods |= set(ci.methods)
    # the continuation is reached only through the initial call
    calls_car = [x for x in R.calls_in(psa.node, method="continue_adaptive_refinement")]
    ctx.check(bool(calls_car), "C14.D3", R.key_of(psa, "delegates-to-continuation"), psa.loc(),
              "the initial call runs the same re-entrant loop as a continuation",
              "performSpatiallyAdaptiv no longer runs continue_adaptive_refinement: an uninterrupted run and a continued run use different loops")
    reads = R.attr_reads(car.node, car.self_name)
    own_first = {}
    for s in R.self_stores(car):
        own_first.setdefault(s.attr, s)
    nread = 0
    for attr, nodes in sorted(reads.items()):
        if attr in methods:
            continue
        nread += 1
        if attr in stored:
            continue
        # stored in the continuation itself before every read?
        s = own_first.get(attr)
        ok = False
        if s is not None:
            sn = R.cfg_node(car, s.stmt)
            ok = all(c.dominates(sn, R.cfg_node(car, n)) and sn is not R.cfg_node(car, n) for n in nodes)
        ctx.check(ok, "C14.D3", R.key_of(car, "state:%s" % attr), car.loc(nodes[0]),
                  "self.%s is stored before it is read" % attr,
                  "continue_adaptive_refinement reads self.%s which neither the initial call nor the constructor stores" % attr)
    if nread:
        ctx.ok("C14.D3", R.key_of(car, "state-on-instance"), car.loc(),
               "%d instance attributes read by the continuation, all stored by the initial call / constructors unless reported" % nread)
    ctx.floor("C14.D3", nread, 10, "attributes read by continue_adaptive_refinement")
    for s in R.self_stores(car):
        if s.attr in RUN_STATE and s.kind == "plain":
            ctx.violation("C14.D3", R.key_of(car, "reinitialises:%s" % s.attr), car.loc(s.stmt),
                          "the continuation re-initialises run state self.%s (`%s`): a continued run forgets what the interrupted run did"
                          % (s.attr, src(s.stmt)))
    da = DefiniteAssignment(prog, car)
    bad = {}
    for (name, ld, node) in da.possibly_undefined():
        bad.setdefault(name, ld)
    ctx.check(not bad, "C14.D3", R.key_of(car, "locals-defined"), car.loc(list(bad.values())[0]) if bad else car.loc(),
              "every local of the loop is assigned before use on every path",
              "locals %s of continue_adaptive_refinement may be read before assignment" % sorted(bad))

    # ------------------------------------------------------------------ D4
    meta = prog.cls("RefinementContainer.MetaRefinementContainer")
    n4 = 0
    for m in ("reinit_new_objects", "clear_new_objects", "apply_remove", "refinement_postprocessing"):
        fi = meta.methods.get(m)
        if fi is None:
            raise AnalysisError("anchor vanished: MetaRefinementContainer.%s" % m)
        ctx.touch(fi)
        n4 += 1
        ok = False
        for loop in [n for n in walk_local(fi.node) if isinstance(n, ast.For)]:
            if R.self_attr(loop.iter, fi.self_name) == "refinementContainers" and isinstance(loop.target, ast.Name):
                v = loop.target.id
                for x in R.calls_in(loop, method=m):
                    if isinstance(x.func.value, ast.Name) and x.func.value.id == v:
                        ok = True
                        if m == "apply_remove":
                            # the sort flag is passed on
                            p = fi.params[1] if len(fi.params) > 1 else None
                            ok = any(isinstance(a, ast.Name) and a.id == p for a in list(x.args) + [k.value for k in x.keywords])
                # no early exit from the delegation loop
                if any(isinstance(n, (ast.Break, ast.Return)) for n in ast.walk(loop)):
                    ok = False
        ctx.check(ok, "C14.D4", R.key_of(fi, "delegates-to-all"), fi.loc(),
                  "delegates to every per-dimension container",
                  "MetaRefinementContainer.%s does not delegate to every per-dimension container%s"
                  % (m, " (or drops the sort flag)" if m == "apply_remove" else ""))
    ctx.floor("C14.D4", n4, 2, "delegating methods of the meta container")
    rc = prog.func("RefinementContainer.RefinementContainer.reinit_new_objects")
    ctx.touch(rc)
    sts = {s.attr: s for s in R.self_stores(rc) if s.kind == "plain"}
    ok = "startNewObjects" in sts and isinstance(sts["startNewObjects"].value, ast.Constant) and sts["startNewObjects"].value.value == 0
    ctx.check(ok, "C14.D4", R.key_of(rc, "marks-all-new"), rc.loc(), "reinit_new_objects marks all objects as new (startNewObjects = 0)",
              "reinit_new_objects no longer resets startNewObjects to 0")
    cn = prog.func("RefinementContainer.RefinementContainer.clear_new_objects")
    ctx.touch(cn)
    tmc = Terms(cn.node)
    ok = any(s.attr == "startNewObjects" and s.kind == "plain" and
             tmc.term(s.value) == ("call", ("n", "len"), (("a", ("n", "self"), "refinementObjects"),), ()) for s in R.self_stores(cn))
    ctx.check(ok, "C14.D4", R.key_of(cn, "marks-none-new"), cn.loc(), "clear_new_objects sets the marker to the current size",
              "clear_new_objects no longer sets startNewObjects to len(self.refinementObjects)")


ACCUMULATOR_ATTRS = ("volume", "value", "integral", "evaluationstotal")


def _field_types(prog, strat, attr):
    """classes constructed into self.<attr> by the strategy's own methods (field-type inference)"""
    out = []
    for ci in strat.mro:
        for fi in ci.methods.values():
            for s in R.self_stores(fi, attr):
                if s.kind == "plain" and isinstance(s.value, ast.Call):
                    k = prog.resolve_class_expr(fi.module.name, s.value.func, fi.cls)
                    if k is not None and k not in out:
                        out.append(k)
    return out


def _closure(prog, roots, typed=None):
    """functions reachable from the root functions by simple-name call resolution (bound methods handed to time_func included);
    calls on `self.<field>` with a known field type are resolved in that class only"""
    typed = typed or {}
    seen = {}
    work = list(roots)
    while work:
        fi = work.pop()
        if fi.qual in seen:
            continue
        seen[fi.qual] = fi
        names = set()
        for c in walk_local(fi.node):
            if isinstance(c, ast.Call):
                if isinstance(c.func, ast.Attribute):
                    ch = R.attr_chain(c.func.value)
                    if ch and len(ch) == 2 and ch[0] == fi.self_name and ch[1] in typed and typed[ch[1]]:
                        for k in typed[ch[1]]:
                            t = prog.lookup_method(k, c.func.attr)
                            if t is not None and t.qual not in seen:
                                work.append(t)
                        continue
                    names.add(c.func.attr)
                elif isinstance(c.func, ast.Name):
                    names.add(c.func.id)
                for a in c.args:
                    if isinstance(a, ast.Attribute):
                        names.add(a.attr)
        for f2 in prog.functions.values():
            if f2.name in names and f2.qual not in seen and f2.name not in ("__init__", "refine", "refinement_postprocessing", "reinit_new_objects",
                                                                                 "performSpatiallyAdaptiv", "continue_adaptive_refinement", "plot"):
                work.append(f2)
    return list(seen.values())


def _evaluation_accumulators(prog, strat):
    """(attributes augmented while evaluating, attributes plainly re-assigned when an evaluation starts) for a strategy"""
    ea = prog.lookup_method(strat, "evaluate_operation_area")
    fin = prog.lookup_method(strat, "finalize_evaluation_operation")
    ini = prog.lookup_method(strat, "init_evaluation_operation")
    aug = set()
    typed = {"refinement": _field_types(prog, strat, "refinement")}
    for fi in _closure(prog, [ea, fin], typed):
        for s in R.attribute_stores(fi.node):
            if s.attr in ACCUMULATOR_ATTRS and s.kind == "aug" and isinstance(s.stmt.op, ast.Add):
                # an `x.attr += ...` that is preceded, in the same function, by a plain re-assignment under `is None` is still an accumulation
                aug.add(s.attr)
    reset = set()
    for fi in _closure(prog, [ini], typed):
        for s in R.attribute_stores(fi.node):
            if s.attr in ACCUMULATOR_ATTRS and s.kind == "plain":
                reset.add(s.attr)
    # the meta container assigns (not accumulates) its evaluation count
    return aug, reset


def check_limits_and_pickling(prog, ctx, car):
    c = cfg_of(car)
    tm = Terms(car.node, max_depth=0)
    loops = [l for l in walk_local(car.node) if isinstance(l, ast.While)]
    loop = loops[0]
    breaks = [n for n in c.nodes if n.kind == "stmt" and isinstance(n.ast, ast.Break) and c.in_loop(n, loop) and n.idx in c.reachable()]
    bad = []
    for b in breaks:
        for (g, gn) in R.dominating_guards(car, b, tm):
            if gn.kind != "test" or not c.in_loop(gn, loop) or gn.ast is loop.test:
                continue
            for x in subterms(g):
                if x[0] == "a" and x[1] == ("n", car.self_name) and x[2] not in ("single_step",):
                    bad.append((x[2], gn))
    ctx.check(not bad, "C14.D5", R.key_of(car, "limits-of-this-call"), car.loc(bad[0][1].ast) if bad else car.loc(),
              "the stop tests use the tolerance and limits passed to this call",
              "a stop test of continue_adaptive_refinement reads self.%s (remembered from the initial call) instead of the limit passed to the "
              "continuation: continuing with larger limits does not end where an uninterrupted run with those limits ends" % (bad[0][0] if bad else ""))
    hooks = []
    for q, fi in prog.functions.items():
        if fi.cls is not None and fi.name in ("__getstate__", "__setstate__", "__reduce__", "__reduce_ex__", "__deepcopy__", "__copy__", "__getnewargs__"):
            hooks.append(fi)
    for fi in hooks:
        ctx.violation("C14.D6", R.key_of(fi, "pickling-hook"), fi.loc(),
                      "%s customises how instances are pickled/copied: an instance restored by restore_from_file no longer carries the "
                      "state it was saved with" % fi.qual)
    if not hooks:
        ctx.ok("C14.D6", "package::no-pickling-hooks", "sparseSpACE/*", "no class defines __getstate__/__setstate__/__reduce__/__deepcopy__: dill stores the whole __dict__")
    check_area_value_reset(prog, ctx, "C14.D7")
    check_reentry_keeps_evolved_state(prog, ctx)
    check_accumulators_not_shared(prog, ctx)
    # the limits of THIS call reach the loop (rule shared with C13.D7)
    from .C13 import check_forwarding
    check_forwarding(prog, ctx, rule="C14.D5", only_limits=True)


def check_reentry_keeps_evolved_state(prog, ctx, rule="C14.D8"):
    """D8: state that evolves during refinement (attributes some strategy method updates in place / augments: lmax, ...) is
    initialised by init_adaptive_combi only for a fresh start (under `refinement_container is None`), never when the run re-enters with
    a given refinement container (restored from file, or handed over from an earlier run)."""
    base = prog.cls("spatiallyAdaptiveBase.SpatiallyAdaptivBase")
    iac = prog.lookup_method(base, "init_adaptive_combi")
    ctx.touch(iac)
    evolving = set()
    for st_ in prog.all_subclasses(base):
        for f in st_.methods.values():
            if f.name in ("__init__", "init_adaptive_combi"):
                continue
            for s_ in R.self_stores(f):
                if s_.kind in ("elem_aug", "elem"):          # per-dimension / per-entry state updated in place (lmax[d] += ...); scalar
                    evolving.add(s_.attr)                    # step counters (`self.refinements += 1`) are per-call bookkeeping
    rcp = next((p_ for p_ in iac.params if "container" in p_), None)
    if rcp is None:
        raise AnalysisError("anchor vanished: the refinement_container parameter of init_adaptive_combi")
    tm = Terms(iac.node, max_depth=0)
    fresh = ("cmp", "Is", ("n", rcp), ("c", "None"))
    n = 0
    for s_ in R.self_stores(iac):
        if s_.attr not in evolving or s_.kind != "plain":
            continue
        n += 1
        guards = [g for (g, gn) in R.dominating_guards(iac, R.cfg_node(iac, s_.stmt), tm) if gn.kind == "test"]
        ctx.check(fresh in guards, rule, R.key_of(iac, "fresh-start-only:%s" % s_.attr), iac.loc(s_.stmt),
                  "self.%s is initialised only for a fresh start" % s_.attr,
                  "`%s` runs also when init_adaptive_combi re-enters with a given refinement container: self.%s, which the refinement "
                  "raises / updates in place, falls back to its initial value while the restored refinement structures keep their depth"
                  % (src(s_.stmt), s_.attr))
    ctx.floor(rule, n, 1, "initialisations of evolving state in init_adaptive_combi")
    # the operation's own start-up (it empties the evaluation cache, the point count and the accumulators) belongs to a fresh start too: a
    # run that re-enters with a given refinement must keep what the earlier run evaluated
    for call in R.calls_in(iac.node):
        f_ = call.func
        if isinstance(f_, ast.Attribute) and f_.attr == "initialize" and R.self_attr(f_.value, iac.self_name) == "operation":
            guards = [g for (g, gn) in R.dominating_guards(iac, R.cfg_node(iac, call), tm) if gn.kind == "test"]
            ctx.check(fresh in guards, rule, R.key_of(iac, "fresh-start-only:operation.initialize"), iac.loc(call),
                      "the operation is (re-)initialised only for a fresh start",
                      "`%s` runs also when init_adaptive_combi re-enters with a given refinement container: the operation's evaluation cache and "
                      "point count are emptied although the run continues" % src(call))


def check_area_value_reset(prog, ctx, rule):
    """An area's partial result is re-assigned (not merely initialised when missing) on every path of area_preprocessing."""
    ap = prog.func("GridOperation.Integration.area_preprocessing")
    ctx.touch(ap)
    ca = cfg_of(ap)
    area = ap.params[1]
    resets = []
    for x in R.calls_in(ap.node, method="set_value"):
        if isinstance(x.func.value, ast.Name) and x.func.value.id == area:
            resets.append(R.cfg_node(ap, x))
    for s in R.attribute_stores(ap.node):
        if s.attr == "value" and isinstance(s.base, ast.Name) and s.base.id == area and s.kind == "plain":
            resets.append(ca.node_of(s.stmt))
    ok = bool(resets) and any(ca.post_dominates(n, ca.entry) for n in resets)
    ctx.check(ok, rule, R.key_of(ap, "area-value-reset"), ap.loc(),
              "an area's partial result is re-assigned on every path before the area is evaluated",
              "Integration.area_preprocessing does not re-assign the area's value on every path: an area that is evaluated again "
              "(after a stop and continue, or a recalculation) keeps its old contribution and adds the new one")


def check_accumulators_not_shared(prog, ctx, rule="C14.D9"):
    """D9: the per-interval accumulators that steer the refinement are separate objects.  A method that keeps its argument (`self.A = p`) and
    later updates it in place (`self.A += ...`) makes the caller's object the accumulator; a loop that hands ONE object to several such
    calls lets all intervals accumulate into the same array, so the refinement that follows (and everything a continued run does) depends
    on the order and number of evaluations instead of on the refinement alone."""
    ab = R.absorbing_methods(prog)
    n = 0
    for name, lst in sorted(ab.items()):
        for (m, p_, a_) in lst:
            ctx.touch(m)
    for fi in sorted(prog.functions.values(), key=lambda f: f.qual):
        calls = [x for x in walk_local(fi.node) if isinstance(x, ast.Call) and isinstance(x.func, ast.Attribute) and x.func.attr in ab]
        if not calls:
            continue
        ctx.touch(fi)
        shared = R.shared_accumulator_arguments(prog, fi, ab)
        for k, x in enumerate(calls):
            n += 1
            bad = [(c_, nm, m) for (c_, nm, m) in shared if c_ is x]
            ctx.check(not bad, rule, R.key_of(fi, "own-object-per-call:%s#%d" % (x.func.attr, k)), fi.loc(x),
                      "%s(...) receives an object of its own" % x.func.attr,
                      "`%s` is called in a loop with `%s`, which the loop does not bind to a new object per iteration, and %s keeps its argument and "
                      "adds to it in place: all receivers share one accumulator" % (src(x), bad[0][1] if bad else "", bad[0][2].qual if bad else ""))
    ctx.floor(rule, n, 1, "calls of methods that keep and update their argument")
