"""C09 -- global adaptive 1-D quadrature rules.

Only two clauses of the statement are structural and are decided; everything else is numerical:
 D1 "non-negative weights in the unmodified case": with modified_basis specialised to False every element store into the
    returned weight array of GlobalTrapezoidalGrid.compute_weights adds c * (g[i+k] - g[i]) with c > 0, k > 0 (sign domain
    with the sortedness axiom that GlobalGrid.set_grid asserts)
 D2 "depends only on the point set": compute_1D_quad_weights forwards only points, interval ends and the construction-time
    flag; compute_weights reads no attribute, global state or level array
 D3 composite stitching in the high-order rule: whenever two sub-interval rules are concatenated as (A, B[1:]) the weight of
    the shared point B[0] has been added to A[-1] of the very same arrays (otherwise the shared point loses one contribution and
    constants are no longer integrated exactly)
 D4 modified-basis small cases as polynomial identities: with 3 points the single inner weight is b - a; with 4 points the two
    inner weights add up to b - a and the second one times (x2 - x1) equals the integral of (x - x1) over [a, b]
    (= (b^2 - a^2)/2 - x1 (b - a)), i.e. the rule integrates the linearly extrapolated basis exactly
Not decided: exactness of any rule (trapezoidal, high order, Lagrange, B-spline) -- numerical linear algebra."""
import ast
import builtins
from fractions import Fraction

from ..absint import sign_of, is_nonneg, poly_of_term, Poly, NONNEG, POS
from ..cfg import cfg_of, walk_local
from ..loader import AnalysisError, src
from ..terms import Terms, terms_of, show, subterms
from .. import rules as R

EXPLANATION = ("Static analysis of Grid.GlobalTrapezoidalGrid: the CFG of compute_weights is specialised to modified_basis=False "
               "(edges of the flag test pruned), every reachable element store into the returned array is evaluated in the sign "
               "domain with the sortedness axiom asserted by GlobalGrid.set_grid, and a depends-only-on scan shows the weights are "
               "a function of the point set, the interval and the construction-time flag alone.")

GT = "Grid.GlobalTrapezoidalGrid"


def sorted_axiom(points_name):
    """g[i + k] - g[i] >= 0 for constant k > 0 when g is sorted ascending."""
    def is_points(x):
        """the point array itself or a numpy view / copy of it"""
        if x == ("n", points_name):
            return True
        return isinstance(x, tuple) and len(x) == 4 and x[0] == "call" and isinstance(x[1], tuple) and x[1][0] == "a" and \
            x[1][2] in ("asarray", "array", "asanyarray") and len(x[2]) >= 1 and x[2][0] == ("n", points_name)

    def ax(t):
        # whole-array forms: g[k:] - g[:-k] (k > 0) and np.diff(g) are the gaps between sorted neighbours
        if t[0] == "call" and isinstance(t[1], tuple) and t[1][0] == "a" and t[1][2] == "diff" and len(t[2]) == 1 and is_points(t[2][0]):
            return NONNEG
        if t[0] == "op" and t[1] == "Sub":
            a, b = t[2]
            if a[0] == "s" and b[0] == "s" and a[1] == b[1] and is_points(a[1]) and a[2][0] == "slice" and b[2][0] == "slice":
                try:
                    k1 = int(a[2][1][1]) if a[2][1] != ("c", "None") else None
                    k2 = int(b[2][2][1]) if b[2][2] != ("c", "None") else None
                except (ValueError, TypeError, IndexError):
                    k1 = k2 = None
                if k1 is not None and k2 is not None and k1 > 0 and k2 == -k1 and a[2][2] == ("c", "None") and b[2][1] == ("c", "None") \
                        and a[2][3] == ("c", "None") and b[2][3] == ("c", "None"):
                    return NONNEG
            if a[0] == "s" and b[0] == "s" and a[1] == b[1] == ("n", points_name):
                d = poly_of_term(a[2]) - poly_of_term(b[2])
                if d.is_const() and d.const_value() > 0:
                    return NONNEG
                if d.is_const() and d.const_value() == 0:
                    return NONNEG
        return None
    return ax


def run(prog, ctx):
    cw = prog.func(GT + ".compute_weights")
    ctx.touch(cw)
    c = cfg_of(cw)
    tm = Terms(cw.node, max_depth=0)
    pts, flag = cw.params[0], cw.params[3]
    ctx.assume("GlobalGrid.set_grid asserts grid_points[d][i] <= grid_points[d][i+1] before computing weights (checked by C02.D3): "
               "inside compute_weights the point array is sorted ascending")

    # the sortedness assertion really dominates the only call chain from set_grid
    sg = prog.func("Grid.GlobalGrid.set_grid")
    ctx.touch(sg)
    csg = cfg_of(sg)
    calls = [R.cfg_node(sg, x) for x in R.calls_in(sg.node, method="compute_1D_quad_weights")]
    asserts = []
    for n in csg.nodes:
        if n.kind == "stmt" and isinstance(n.ast, ast.Assert):
            t = Terms(sg.node).term(n.ast.test)
            if t[0] == "call" and t[1] == ("n", "all") and any(x[0] == "cmp" and x[1] in ("LtE", "Lt") for x in subterms(t)):
                asserts.append(n)
    ok = bool(calls) and bool(asserts) and all(any(csg.dominates(a, cn) for a in asserts) for cn in calls)
    ctx.check(ok, "C09.D1", R.key_of(sg, "sortedness-asserted-before-weights"), sg.loc(),
              "the sortedness assertion dominates every weight computation in set_grid",
              "GlobalGrid.set_grid computes 1-D weights on a path that has not asserted that the points are sorted: the non-negativity "
              "argument loses its premise")

    # ------------------------------------------------------------------ D1
    blocked = set()
    for n in c.nodes:
        if n.kind == "test" and tm.term(n.ast) == ("n", flag):
            for (s, lab) in n.succ:
                if lab is True:
                    blocked.add((n.idx, s.idx, lab))
    reach = c.reachable(blocked_edges=blocked)
    rets = [n for n in c.nodes if n.kind == "stmt" and isinstance(n.ast, ast.Return) and n.idx in reach]
    if not rets or not all(isinstance(r.ast.value, ast.Name) for r in rets):
        raise AnalysisError("C09.D1: compute_weights no longer returns a named weight array")
    wname = rets[0].ast.value.id
    inits = [b for b in tm.env.bindings.get(wname, []) if b.kind == "assign"]
    ok_init = bool(inits) and all(tm.term(b.value)[0] == "call" and tm.term(b.value)[1][0] == "a" and tm.term(b.value)[1][2] == "zeros" for b in inits)
    ctx.check(ok_init, "C09.D1", R.key_of(cw, "zero-initialised"), cw.loc(), "the weight array starts as zeros",
              "the returned weight array is not initialised with zeros")
    stores = []
    for n in c.nodes:
        if n.idx in reach and n.kind == "stmt" and isinstance(n.ast, (ast.Assign, ast.AugAssign)):
            tg = n.ast.targets[0] if isinstance(n.ast, ast.Assign) else n.ast.target
            if isinstance(tg, ast.Subscript) and isinstance(tg.value, ast.Name) and tg.value.id == wname:
                stores.append(n)
    ctx.floor("C09.D1", len(stores), 2, "element stores reachable with modified_basis=False")
    ax = sorted_axiom(pts)
    for k, n in enumerate(stores):
        st = n.ast
        t = R.resolve_locals(cw, tm.term(st.value), n, tm)
        s = sign_of(t, ctx.assume, ax)
        okop = isinstance(st, ast.Assign) or isinstance(st.op, ast.Add)
        ctx.check(is_nonneg(s) and okop, "C09.D1", R.key_of(cw, "nonneg-store#%d" % k), cw.loc(st),
                  "`%s` adds a non-negative amount (sign %s)" % (src(st), s),
                  "with modified_basis=False `%s` can make a trapezoidal weight negative on a sorted grid (sign of the added term: %s%s)"
                  % (src(st), s, "" if okop else ", and the update is not an addition"))
    # nothing between the stores and the return modifies the array otherwise (e.g. a subtraction of the whole array)
    for b in tm.env.bindings.get(wname, []):
        if b.kind not in ("assign",):
            ctx.violation("C09.D1", R.key_of(cw, "rebinds-array"), cw.loc(b.stmt), "the weight array is re-bound by `%s`" % src(b.stmt))

    # ------------------------------------------------------------------ D3 / D4
    check_stitching(prog, ctx)
    check_modified_small_cases(prog, ctx, cw)
    check_round2(prog, ctx)
    # ------------------------------------------------------------------ D8: the moments of the orthogonal polynomials are integrated exactly
    from ..gauss import check_sites
    ctx.floor("C09.D8", check_sites(prog, ctx, "C09.D8", "Grid", "moments"), 1, "Gauss rules chosen for the moments of the high-order grid")

    # ------------------------------------------------------------------ D2
    cq = prog.func(GT + ".compute_1D_quad_weights")
    ctx.touch(cq)
    tmq = Terms(cq.node)
    rets = R.return_paths(cq)[0]
    ok = len(rets) == 1
    why = "not exactly one return"
    if ok:
        t = tmq.term(rets[0].ast.value)
        ok = t[0] == "call" and t[1][0] == "a" and t[1][2] == "compute_weights" and len(t[2]) == 4 and \
            t[2][0] == ("n", cq.params[1]) and t[2][1] == ("n", cq.params[2]) and t[2][2] == ("n", cq.params[3]) and \
            t[2][3] == ("a", ("n", "self"), "modified_basis") and t[3] == ()
        why = "forwards %s" % show(t)
    used = {n.id for n in ast.walk(cq.node) if isinstance(n, ast.Name) and isinstance(n.ctx, ast.Load)}
    if len(cq.params) > 5 and cq.params[5] in used:
        ok = False
        why = "the level array takes part in the weight computation"
    ctx.check(ok, "C09.D2", R.key_of(cq, "forwards-points-only"), cq.loc(),
              "only the points, the interval ends and the construction-time flag reach compute_weights",
              "GlobalTrapezoidalGrid.compute_1D_quad_weights: " + why)
    # compute_weights itself is a function of its arguments
    if not cw.is_static:
        ctx.violation("C09.D2", R.key_of(cw, "static"), cw.loc(), "compute_weights is no longer a static function of its arguments")
    local = set(tm.env.bindings)
    bad = []
    for n in [x for st in cw.node.body for x in ast.walk(st)]:
        if isinstance(n, ast.Name) and isinstance(n.ctx, ast.Load) and n.id not in local:
            if hasattr(builtins, n.id) or n.id in ("np", "math"):
                continue
            r_ = prog.resolve_name(cw.module.name, n.id)
            if r_ is not None and r_[0] in ("func", "class", "module", "external"):
                continue                  # functions / classes / imported modules are program constants, not state
            bad.append(n.id)
        if isinstance(n, ast.Attribute) and isinstance(n.value, ast.Name) and n.value.id in ("self", "cls"):
            bad.append("self." + n.attr)
    ctx.check(not bad, "C09.D2", R.key_of(cw, "no-hidden-inputs"), cw.loc(),
              "compute_weights reads only its parameters", "compute_weights reads %s besides its parameters" % sorted(set(bad)))
    # the flag is fixed at construction
    writers = []
    gt = prog.cls(GT)
    for fi in prog.functions.values():
        for s in R.attribute_stores(fi.node):
            if s.attr == "modified_basis" and fi.name != "__init__":
                if isinstance(s.base, ast.Name) and s.base.id == fi.self_name and fi.cls is not None and gt not in fi.cls.mro:
                    continue
                writers.append(fi.qual)
    ctx.check(not writers, "C09.D2", GT + "::flag-init-only", gt.methods["__init__"].loc(),
              "modified_basis is stored only by constructors", "modified_basis is re-assigned by %s" % writers)
    # the weighted subclass and the high-order grid reuse the same routine with points only
    n_other = 0
    for fi in prog.functions.values():
        for x in R.calls_in(fi.node, method="compute_weights"):
            if fi is cq:
                continue
            ch = R.attr_chain(x.func.value)
            if ch == ["GlobalTrapezoidalGrid"]:
                n_other += 1
    ctx.floor("C09.D2", 1 + n_other, 1, "callers of GlobalTrapezoidalGrid.compute_weights")


def check_stitching(prog, ctx):
    n = 0
    for q, fi in sorted(prog.functions.items()):
        if fi.module.name != "Grid" or fi.cls is None or "HighOrder" not in fi.cls.name:
            continue
        tm = Terms(fi.node, max_depth=0)
        c = cfg_of(fi)
        for call in R.calls_in(fi.node):
            t = tm.term(call)
            if not (t[0] == "call" and t[1] in (("a", ("n", "np"), "append"), ("a", ("n", "np"), "concatenate")) and len(t[2]) >= 1):
                continue
            args = t[2] if t[1][2] == "append" else (t[2][0][1:] if t[2][0][0] in ("tuple", "list") else ())
            if len(args) != 2:
                continue
            A, B = args
            if not (B[0] == "s" and B[2] == ("slice", ("c", "1"), ("c", "None"), ("c", "None")) and A[0] == "n" and B[1][0] == "n"):
                continue
            n += 1
            ctx.touch(fi)
            cn = R.cfg_node(fi, call)
            ok = False
            for m in c.nodes:
                if m.kind == "stmt" and isinstance(m.ast, ast.AugAssign) and isinstance(m.ast.op, ast.Add) and c.dominates(m, cn):
                    tg, v = tm.term(m.ast.target), tm.term(m.ast.value)
                    if tg == ("s", A, ("c", "-1")) and v == ("s", B[1], ("c", "0")):
                        # not undone / re-bound in between
                        rebinds = [x for x in tm.env.bindings.get(A[1], []) + tm.env.bindings.get(B[1][1], []) if x.kind in ("assign", "unpack")
                                   and c.node_of(x.stmt) is not None and c.node_of(x.stmt).idx in c.reachable_after(m) and cn.idx in c.reachable_after(c.node_of(x.stmt))
                                   and c.node_of(x.stmt) is not cn]
                        loops_ok = m.loops == cn.loops
                        if not rebinds and loops_ok:
                            ok = True
            ctx.check(ok, "C09.D3", R.key_of(fi, "stitch#%d" % n), fi.loc(call),
                      "before `%s` the shared point's weight %s[0] is added to %s[-1]" % (src(call), show(B[1]), show(A)),
                      "`%s` drops the first weight of %s but that weight was not added to %s[-1] of the same array: the point shared by the two "
                      "sub-intervals loses one contribution" % (src(call), show(B[1]), show(A)))
    ctx.floor("C09.D3", n, 2, "overlap-add concatenations in the high-order rule")


def check_round2(prog, ctx):
    """D5 the grid's shared Gauss nodes are not modified by basis integrals (rule shared with C10.D8);
    D6 the point-wise integrator skips a point only if its weight is exactly zero (high-order rules have negative weights);
    D7 both ways of solving for the high-order weights (moment matching / nnls) get the same affine scaling to [a, b]."""
    from .C10 import check_quadrature_nodes_not_modified
    check_quadrature_nodes_not_modified(prog, ctx, rule="C09.D5")
    ip = prog.func("Integrator.IntegratorArbitraryGrid.integrate_point")
    ctx.touch(ip)
    tm = Terms(ip.node)
    c = cfg_of(ip)
    zero_rets = [r for r in R.return_paths(ip)[0] if tm.term(r.ast.value) in (("c", "0.0"), ("c", "0"))]
    ok = True
    why = ""
    for r in zero_rets:
        guards = [g for (g, gn) in R.dominating_guards(ip, r, tm) if gn.kind == "test"]
        for g in guards:
            if not (g[0] == "cmp" and g[1] == "Eq" and (("c", "0") in (g[2], g[3]) or ("c", "0.0") in (g[2], g[3]))):
                ok = False
                why = show(g)
    ctx.check(ok, "C09.D6", R.key_of(ip, "skips-only-zero-weights"), ip.loc(),
              "a point is skipped only when its weight equals zero",
              "integrate_point returns 0 without evaluating f under `%s`: points with a negative weight (legal for the high-order rules) are dropped" % why)
    n7 = 0
    for ho in prog.cls("Grid.GlobalHighOrderGrid").methods.values():
        ifs = [x for x in walk_local(ho.node) if isinstance(x, ast.If) and x.orelse
               and any(isinstance(y, ast.Attribute) and y.attr == "do_nnls" for y in ast.walk(x.test))]
        if not ifs:
            continue
        ctx.touch(ho)
        params = set(ho.params)

        def interval_scaled(expr):
            return any(isinstance(y, ast.BinOp) and isinstance(y.op, ast.Sub) and isinstance(y.left, ast.Name) and isinstance(y.right, ast.Name)
                       and y.left.id in params and y.right.id in params for y in ast.walk(expr))
        for iff in ifs:
            def arm_defs(block):
                out = {}
                for st in block:
                    if isinstance(st, ast.Assign) and len(st.targets) == 1:
                        for t_ in (st.targets[0].elts if isinstance(st.targets[0], ast.Tuple) else [st.targets[0]]):
                            if isinstance(t_, ast.Name):
                                out[t_.id] = st
                return out
            d1, d2 = arm_defs(iff.body), arm_defs(iff.orelse)
            for nm in sorted(set(d1) & set(d2)):
                n7 += 1
                s1, s2 = interval_scaled(d1[nm].value), interval_scaled(d2[nm].value)
                # a common scaling after the branches: `W = (b - a) * W / 2`
                common = [st for st in walk_local(ho.node) if isinstance(st, ast.Assign) and len(st.targets) == 1 and isinstance(st.targets[0], ast.Name)
                          and st.targets[0].id == nm and st is not d1[nm] and st is not d2[nm] and interval_scaled(st.value)
                          and any(isinstance(y, ast.Name) and y.id == nm for y in ast.walk(st.value))]
                ok = (s1 == s2) and (bool(common) != (s1 and s2))
                ctx.check(ok, "C09.D7", R.key_of(ho, "branches-scaled-alike:%s" % nm), ho.loc(d1[nm]),
                          "both ways of computing `%s` are scaled to the interval exactly once" % nm,
                          "`%s`: scaled by the interval length in the first branch=%s, in the second branch=%s, by a common statement after them=%s; "
                          "each branch must be scaled exactly once" % (nm, s1, s2, bool(common)))
    ctx.floor("C09.D7", n7, 1, "weight definitions in the moment-matching / nnls branches")
    check_degree_search_start(prog, ctx)
    check_basis_stored_at_its_point(prog, ctx)


def check_degree_search_start(prog, ctx, rule="C09.D9"):
    """D9: the degree search of get_1D_weights_and_order returns (W, D): the weights and degree of the last accepted rule.  Where the
    start value of W lacks the scaling to [a, b] that every accepted rule receives inside the loop (the trapezoidal weights on the
    normalised grid), the search has to start at the start value of D: then the start weights are returned only when the rule of the start
    degree itself is rejected.  A search that starts above it returns the unscaled start weights whenever the first higher degree is
    rejected (3 strongly graded points)."""
    n = 0
    for ci in prog.all_subclasses(prog.cls("Grid.GlobalGrid")):
        fi = ci.methods.get("get_1D_weights_and_order")
        if fi is None:
            continue
        loops = [st for st in fi.node.body if isinstance(st, (ast.While, ast.For))]
        rets = [st for st in fi.node.body if isinstance(st, ast.Return) and isinstance(st.value, ast.Tuple) and len(st.value.elts) == 2
                and all(isinstance(e, ast.Name) for e in st.value.elts)]
        if not loops or not rets:
            continue
        loop = loops[-1]
        W, D = (e.id for e in rets[-1].value.elts)
        params = set(fi.params)

        def interval_scaled(expr):
            return any(isinstance(y, ast.BinOp) and isinstance(y.op, ast.Sub) and isinstance(y.left, ast.Name) and isinstance(y.right, ast.Name)
                       and y.left.id in params and y.right.id in params for y in ast.walk(expr))
        before = fi.node.body[:fi.node.body.index(loop)]

        def defs(name, stmts):
            out = []
            for st in stmts:
                for x in ast.walk(st):
                    if isinstance(x, ast.Assign) and any(isinstance(t_, ast.Name) and t_.id == name for t_ in x.targets):
                        out.append(x)
            return out
        w0 = defs(W, before)
        win = defs(W, loop.body)
        d0 = [x for x in defs(D, before) if isinstance(x.value, ast.Constant)]
        if not w0 or not win or not d0:
            continue
        # scaling of the accepted rule: follow one copy  W = V, V = <scaled>
        def scaled_def(x, stmts, depth=2):
            if interval_scaled(x.value):
                return True
            if depth and isinstance(x.value, ast.Name):
                return any(scaled_def(y, stmts, depth - 1) for y in defs(x.value.id, stmts))
            return False
        in_scaled = all(scaled_def(x, loop.body) for x in win)
        start_scaled = scaled_def(w0[-1], before)
        if not in_scaled or start_scaled:
            continue
        # first degree the loop computes
        first = None
        if isinstance(loop, ast.For) and isinstance(loop.iter, ast.Call) and isinstance(loop.iter.func, ast.Name) and loop.iter.func.id == "range":
            a_ = loop.iter.args
            first = 0 if len(a_) == 1 else (a_[0].value if isinstance(a_[0], ast.Constant) else None)
        elif isinstance(loop, ast.While):
            counters = [x.target.id for st in loop.body for x in ast.walk(st) if isinstance(x, ast.AugAssign) and isinstance(x.target, ast.Name)
                        and any(isinstance(y, ast.Name) and y.id == x.target.id for y in ast.walk(loop.test))]
            for cn in counters[:1]:
                c0 = [x for x in defs(cn, before) if isinstance(x.value, ast.Constant)]
                first = c0[-1].value.value if c0 else None
        if first is None:
            continue
        ctx.touch(fi)
        n += 1
        ok = first == d0[-1].value.value
        ctx.check(ok, rule, R.key_of(fi, "search-starts-at-the-start-degree"), fi.loc(loop),
                  "the degree search starts at the degree (%r) whose unscaled start weights it may fall back to" % d0[-1].value.value,
                  "`%s` starts with weights that are not scaled to [a, b] and degree %r, but the search loop computes its first rule for degree %r: when "
                  "that rule is rejected the unscaled start weights are returned (every accepted rule is scaled by (b - a) / 2 inside the loop)"
                  % (src(w0[-1]), d0[-1].value.value, first))
    if n == 0:
        ctx.note(rule, "Grid.GlobalGrid::degree-search", "sparseSpACE/Grid.py", "no degree search with unscaled start weights found: rule not applicable")


def check_modified_small_cases(prog, ctx, cw):
    tm = Terms(cw.node, max_depth=0)
    c = cfg_of(cw)
    pts, a, b, flag = cw.params[0], cw.params[1], cw.params[2], cw.params[3]
    half = Poly.const(Fraction(1, 2))
    # where the small cases are written: in compute_weights itself, or in a helper of the same class that compute_weights calls under
    # the modified-basis flag with the grid and the interval ends handed on (roles follow the arguments)
    places = [(cw, pts, a, b, True)]
    if cw.cls is not None:
        for call in R.calls_in(cw.node):
            f_ = call.func
            hname = f_.attr if isinstance(f_, ast.Attribute) else None
            h = cw.cls.methods.get(hname) if hname else None
            if h is None or h is cw:
                continue
            hp = [p_ for p_ in h.params if p_ != h.self_name]
            roles = {}
            for p_, arg in zip(hp, call.args):
                if isinstance(arg, ast.Name) and arg.id in (pts, a, b):
                    roles[arg.id] = p_
            if set(roles) != {pts, a, b}:
                continue
            par = getattr(call, "_parent", None)
            flagged = False
            while par is not None and not isinstance(par, ast.stmt):
                if isinstance(par, ast.BoolOp) and isinstance(par.op, ast.And) and any(isinstance(v, ast.Name) and v.id == flag for v in par.values):
                    flagged = True
                par = getattr(par, "_parent", None)
            cn = c.node_containing(call)
            if cn is not None and ("n", flag) in [gd for (gd, gn) in R.dominating_guards(cw, cn, tm)]:
                flagged = True
            if flagged:
                places.append((h, roles[pts], roles[a], roles[b], False))
                ctx.touch(h)
    cases = {}
    for (fn_, pts_, a_, b_, need_flag) in places:
        tmf = Terms(fn_.node, max_depth=0)
        cf_ = cfg_of(fn_)
        ren = {("n", pts_): ("n", pts), ("n", a_): ("n", a), ("n", b_): ("n", b)}

        def rn(t):
            if t in ren:
                return ren[t]
            if isinstance(t, tuple):
                return tuple(rn(x) for x in t)
            return t
        for n in cf_.nodes:
            if n.kind == "stmt" and isinstance(n.ast, ast.Assign) and isinstance(n.ast.targets[0], ast.Subscript) and n.idx in cf_.reachable():
                guards = [rn(R.resolve_locals(fn_, gd, gn, tmf)) for (gd, gn) in R.dominating_guards(fn_, n, tmf) if gn.kind == "test"]   # `n = len(grid)` looked through
                size = None
                for gd in guards:
                    if gd[0] == "cmp" and gd[1] == "Eq" and ("call", ("n", "len"), (("n", pts),), ()) in (gd[2], gd[3]):
                        other = gd[3] if gd[2][0] == "call" else gd[2]
                        if other[0] == "c":
                            size = int(other[1])
                if size is not None and (not need_flag or ("n", flag) in guards):
                    idx = tmf.term(n.ast.targets[0].slice)
                    if idx[0] == "c" and int(idx[1]) not in cases.get(size, {}):
                        cases.setdefault(size, {})[int(idx[1])] = (n, rn(tmf.term(n.ast.value)), cf_)
    A, B = Poly.atom(("n", a)), Poly.atom(("n", b))
    g = lambda k: Poly.atom(("s", ("n", pts), ("c", str(k))))
    ok3 = 3 in cases and 1 in cases[3] and poly_of_term(cases[3][1][1]) == B - A
    ctx.check(ok3, "C09.D4", R.key_of(cw, "modified-3-points"), cw.loc(cases[3][1][0].ast) if 3 in cases and 1 in cases[3] else cw.loc(),
              "3 points, modified basis: the inner weight is b - a", "the 3-point modified-basis weight is not b - a")
    ok4 = False
    why = "the 4-point modified-basis case was not found"
    if 4 in cases and 1 in cases[4] and 2 in cases[4]:
        w2n, w2, c = cases[4][2]
        w1n, w1, _c1 = cases[4][1]
        # w1 refers to weights[2]: substitute
        wname = w1n.ast.targets[0].value.id
        W2 = Poly.atom(("s", ("n", wname), ("c", "2")))
        p1 = poly_of_term(w1)
        sum_ok = (p1 + W2) == (B - A) and c.dominates(w2n, w1n)
        # w2 * (x2 - x1) == (b^2 - a^2)/2 - x1 (b - a)
        den = g(2) - g(1)
        spec = (B * B - A * A) * half - g(1) * (B - A)
        ok_int = False
        if w2[0] == "op" and w2[1] == "Div":
            ok_int = poly_of_term(w2[2][1]) == den and poly_of_term(w2[2][0]) == spec
        ok4 = sum_ok and ok_int
        why = "inner weights add up to b - a: %s; second weight * (x2 - x1) equals the integral of (x - x1) over [a, b]: %s" % (sum_ok, ok_int)
    ctx.check(ok4, "C09.D4", R.key_of(cw, "modified-4-points"), cw.loc(cases[4][2][0].ast) if 4 in cases and 2 in cases[4] else cw.loc(),
              "4 points, modified basis: w1 + w2 == b - a and w2 integrates the extrapolated basis (x - x1)/(x2 - x1) exactly",
              "4-point modified-basis weights: " + why)


def check_basis_stored_at_its_point(prog, ctx, rule="C09.D10"):
    """D10: a hierarchical basis function (and its weight) is stored at the list position of its own point.  In every method of the
    global basis grids, the position I of `self.basis[d][I] = B` is `G.index(X)` (fails loudly when X is no grid point), or the result of a
    sorted search (bisect / searchsorted) of X in G guarded by the equality `G[I] == X` -- a sorted search alone returns an insertion
    position for ANY X, so the basis of a point that is not in the grid would overwrite its neighbour's."""
    SEARCH = {"bisect_left", "bisect", "bisect_right", "searchsorted"}
    n = 0
    for ci in prog.all_subclasses(prog.cls("Grid.GlobalBasisGrid")):
        for fi in ci.methods.values():
            stores = [st for st in walk_local(fi.node) if isinstance(st, ast.Assign) and len(st.targets) == 1
                      and isinstance(st.targets[0], ast.Subscript) and isinstance(st.targets[0].value, ast.Subscript)
                      and isinstance(st.targets[0].value.value, ast.Attribute) and st.targets[0].value.value.attr == "basis"
                      and R.attr_chain(st.targets[0].value.value.value) == [fi.self_name] and isinstance(st.targets[0].slice, ast.Name)]
            if not stores:
                continue
            ctx.touch(fi)
            tm = Terms(fi.node, max_depth=0)
            for k, st in enumerate(stores):
                I = st.targets[0].slice.id
                b = R.reaching_unique_def(fi, I, st.targets[0].slice)
                v = b.value if b is not None and b.kind == "assign" else None
                while isinstance(v, ast.Call) and isinstance(v.func, ast.Name) and v.func.id == "int" and len(v.args) == 1 and not v.keywords:
                    v = v.args[0]
                if not isinstance(v, ast.Call):
                    ctx.note(rule, R.key_of(fi, "basis-position#%d" % k), fi.loc(st), "position `%s` is not a single search result: not decided" % I)
                    continue
                fname = v.func.attr if isinstance(v.func, ast.Attribute) else (v.func.id if isinstance(v.func, ast.Name) else None)
                if fname == "index" and isinstance(v.func, ast.Attribute) and len(v.args) == 1:
                    n += 1
                    ctx.ok(rule, R.key_of(fi, "basis-position#%d" % k), fi.loc(st), "`%s` is %s: the position of the basis point in the grid" % (I, src(v)))
                    continue
                if fname in SEARCH:
                    args = list(v.args)
                    if isinstance(v.func, ast.Attribute) and fname == "searchsorted" and len(args) == 1:
                        args = [v.func.value] + args
                    if len(args) < 2:
                        ctx.note(rule, R.key_of(fi, "basis-position#%d" % k), fi.loc(st), "unrecognised search call %s" % src(v))
                        continue
                    n += 1
                    G, X = args[0], args[1]
                    want = []
                    for l_, r_ in ((ast.Subscript(value=G, slice=ast.Name(id=I, ctx=ast.Load()), ctx=ast.Load()), X),):
                        for a_, b_ in ((l_, r_), (r_, l_)):
                            want.append(tm.term(ast.Compare(left=a_, ops=[ast.Eq()], comparators=[b_])))
                    guards = [g for (g, _n) in R.dominating_guards(fi, cfg_of(fi).node_of(st), tm)]
                    def close(g):
                        # isclose(G[I], X)
                        return g[0] == "call" and "isclose" in repr(g[1]) and repr(tm.term(X)) in repr(g) and repr(tm.term(ast.Subscript(value=G, slice=ast.Name(id=I, ctx=ast.Load()), ctx=ast.Load()))) in repr(g)
                    ok = any(g in want or close(g) for g in guards)
                    ctx.check(ok, rule, R.key_of(fi, "basis-position#%d" % k), fi.loc(st),
                              "the sorted search for the basis point is confirmed by `%s[%s] == %s`" % (src(G), I, src(X)),
                              "`%s` stores the basis at `%s = %s`, an insertion position that exists for every value: without the test "
                              "`%s[%s] == %s` on the way, the basis of a point that is not in this grid replaces the basis (and weight) of its "
                              "right neighbour" % (src(st), I, src(v), src(G), I, src(X)))
                    continue
                ctx.note(rule, R.key_of(fi, "basis-position#%d" % k), fi.loc(st), "position `%s = %s` not recognised: not decided" % (I, src(v)))
    ctx.floor(rule, n, 1, "stores of a basis function at a searched position")
